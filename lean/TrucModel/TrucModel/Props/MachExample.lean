import TrucModel.Proofs.Reachable
/- A concrete two-variant module used by the non-vacuity examples of C05–C07: variant 1 removes the
   heap field `a` and adds the 8-byte field `n` on the very same bytes; `k` is carried over. -/
namespace Truc.Mach.Ex
open Truc.Gen

def dr (t : String) : Bool := t == "H"
def a : D := ⟨0, "a", "H", 8, 8, 0, false⟩
def k : D := ⟨1, "k", "P4", 4, 4, 8, false⟩
def n : D := ⟨2, "n", "P8", 8, 8, 0, false⟩
def s0 : Spec := { vid := 0, align := 8, data := [a, k], minus := [], plus := [a, k], hasPrev := false, prevVid := 0 }
def s1 : Spec := { vid := 1, align := 8, data := [k, n], minus := [a], plus := [n], hasPrev := true, prevVid := 0 }
def specs : List Spec := [s0, s1]

instance (d d' : D) : Decidable (Apart d d') := by unfold Apart; infer_instance

theorem wf0 : WFData 16 s0.data := ⟨by decide, by decide, by decide⟩
theorem wf1 : WFData 16 s1.data := ⟨by decide, by decide, by decide⟩

theorem moduleWF : ModuleWF dr 16 specs := by
  refine ⟨?_, ?_, ?_⟩
  · intro s hs
    simp only [specs, List.mem_cons, List.mem_nil_iff, or_false] at hs
    rcases hs with rfl | rfl
    · exact wf0
    · exact wf1
  · intro s hs
    simp only [specs, List.mem_cons, List.mem_nil_iff, or_false] at hs
    rcases hs with rfl | rfl <;> decide
  · intro k s0' s' h0 h1
    match k with
    | 0 =>
      simp only [specs, List.getElem?_cons_zero, Option.some.injEq] at h0
      simp only [specs, Nat.zero_add, List.getElem?_cons_succ, List.getElem?_cons_zero, Option.some.injEq] at h1
      subst h0; subst h1
      refine ⟨⟨wf0, wf1, by decide, by decide, by decide, by decide⟩, by decide, by decide⟩
    | k + 1 =>
      simp [specs] at h1

end Truc.Mach.Ex
