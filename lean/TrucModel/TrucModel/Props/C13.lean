import TrucModel.Proofs.Corollaries
import TrucModel.Proofs.GenProps
import TrucModel.Proofs.GenCheckProps
import TrucModel.Proofs.EndToEnd
import TrucModel.Props.Examples
/-
  C13 — Any definition the builder accepts can be displayed, generated and compiled.
  This file: nothing panics (strategies, Display, capacity, alignment, `generate()`); the compile half
  is modelled by the three compiler rules of `Model/Static.lean` (`C11_accepts_when_right`: a generated
  module whose recorded type information is right is accepted) and by two more rules over the function
  bodies, `Model/GenCheck.lean`: a binding is used only while in scope and not moved out, `data` is
  stored into only when declared `mut` (`C13_bodies_pass_move_and_mut_rules`). The rest of rustc is
  carried by channel X, which compiles every sampled module with all four fragment selections in three builds.
-/
namespace Truc

/-- no strategy panics, at any point of any valid history -/
theorem C13_close_no_panic (reqs : List Req) (hv : ∀ r ∈ reqs, r.valid) (st : Strategy) (hn : st.isNative = true) :
    ((run reqs).close st).isSome = true := by
  obtain ⟨s', vid, hc, _⟩ := (reachable_BInv reqs hv).close hn
  rw [hc]; rfl

/-- `Display` never hits its "offset clash" panic -/
theorem C13_display_no_panic (reqs : List Req) (hv : ∀ r ∈ reqs, r.valid) (d : Definition)
    (hb : (run reqs).build = some d) : d.display.isSome = true := by
  unfold BState.build at hb
  split at hb
  · simp only [Option.some.injEq] at hb
    subst hb
    exact display_isSome _ (fun v hvm => ((reachable_BInv reqs hv).vinv v hvm).sorted)
  · simp at hb

/-- the capacity computation does not overflow as long as the layout itself fits in `usize`
    (in particular a datum added and removed again before its variant is closed, whose offset is
    still `usize::MAX`, is not looked at) -/
theorem C13_maxSize_no_panic (d : Definition)
    (hfit : ∀ v ∈ d.variants, ∀ id ∈ v, off d.defs id + sz d.defs id < 2 ^ 64) : d.maxSize.isSome = true :=
  maxSize_isSome hfit

/-- `generate()` does not panic on a definition built from valid requests whose layout fits in `usize`,
    whatever the fragment selection -/
theorem C13_generate_no_panic (reqs : List Req) (hv : ∀ r ∈ reqs, r.valid) (d : Definition)
    (hb : (run reqs).build = some d) (cfg : Gen.Cfg)
    (hfit : ∀ v ∈ d.variants, ∀ id ∈ v, off d.defs id + sz d.defs id < 2 ^ 64) :
    (Gen.module d cfg).isSome = true ∧ d.display.isSome = true := by
  refine ⟨?_, C13_display_no_panic reqs hv d hb⟩
  have hm := C13_maxSize_no_panic d hfit
  unfold Gen.module
  cases hms : d.maxSize with
  | none => rw [hms] at hm; simp at hm
  | some ms => rfl

/-- the generated function bodies pass the move / mutability rules (E0382, E0425, E0596), for every definition built
    from valid requests in which no field is called like one of the template's own bindings -/
theorem C13_bodies_pass_move_and_mut_rules (reqs : List Req) (hv : ∀ r ∈ reqs, r.valid) (d : Definition)
    (hb : (run reqs).build = some d)
    (hn : ∀ i ∈ d.defs, i.name ≠ "self" ∧ i.name ≠ "plus" ∧ i.name ≠ "from" ∧ i.name ≠ "data") :
    ∀ s ∈ Gen.specs d, Gen.variantChecks s = true := by
  intro s hs
  have hd : d = ⟨(run reqs).defs, (run reqs).variants⟩ := by
    unfold BState.build at hb
    split at hb
    · simp only [Option.some.injEq] at hb; exact hb.symm
    · simp at hb
  obtain ⟨_, hN⟩ := reachable_inv2 reqs hv
  obtain ⟨v, hvm, hdata, hplus, hminus⟩ := spec_of_mem d s hs
  have hname : ∀ id, (Gen.mkD d.defs id).name ≠ "self" ∧ (Gen.mkD d.defs id).name ≠ "plus" ∧
      (Gen.mkD d.defs id).name ≠ "from" ∧ (Gen.mkD d.defs id).name ≠ "data" := by
    intro id
    have hmk : (Gen.mkD d.defs id).name = (info d.defs id).name := rfl
    rw [hmk]
    unfold info
    cases hg : d.defs[id]? with
    | none => simp only [Option.getD_none]; decide
    | some i => simp only [Option.getD_some]; exact hn i (List.mem_of_getElem? hg)
  have hnd : (s.data.map (·.name)).Nodup := by
    rw [hdata, List.map_map]
    have hv0 : (v.map (nameOf d.defs)).Nodup := by
      have := hN.variants v (by rw [hd] at hvm; exact hvm)
      rw [hd]; exact this
    have : ((Gen.sortIds v).map (nameOf d.defs)).Nodup := ((Gen.sortIds_perm v).map _).nodup_iff.2 hv0
    exact this
  apply Gen.variantChecks_ok s hnd
  · intro _; exact List.Nodup.sublist (hplus.map _) hnd
  · intro x hx
    rw [hdata, List.mem_map] at hx
    obtain ⟨id, _, rfl⟩ := hx
    exact (hname id).1
  · intro _ x hx
    obtain ⟨id, rfl⟩ := hminus x hx
    exact ⟨(hname id).2.1, (hname id).2.2.1, (hname id).2.2.2⟩

/-- the rules do reject what rustc rejects: a `new_uninit` whose helper binding swallowed `from` -/
example : Gen.checkBody (Gen.params ["from"])
    [.safeFrom "_from" "S" none "from", .letBuf false, .write ⟨0, "a", "P4", 4, 4, 0, false⟩ "from", .retSelfData] = none ∧
    (match (run Ex.h1).build with | some d => (Gen.specs d).map Gen.variantChecks | none => []) = [true, true, true] := by
  decide +kernel

/-- non-vacuity, including an add-then-remove-before-close -/
example : (run (Ex.h1 ++ [.add (Ex.I "x" 8 8), .remove 6, .close .simple])).build.isSome = true ∧
    ((run (Ex.h1 ++ [.add (Ex.I "x" 8 8), .remove 6, .close .simple])).build.bind (·.maxSize)) = some 24 := by
  decide +kernel

end Truc
