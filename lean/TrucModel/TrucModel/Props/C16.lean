import TrucModel.Model.CloneSerde
/-
  C16 — A cloned record is an equal, independent copy.
  The field types' `Clone` is a parameter `cl`; "equal" = every field of the clone is the clone
  (`cl`) of the source's field, bit copy for may-be-uninit (`Copy`) fields; "independent" = the clone is
  built by the full constructor in a fresh buffer (channel X checks mutation / drop of either side on
  compiled code); a panic inside a field's `clone()` drops exactly the clones built so far.
-/
namespace Truc.Frag
open Truc.Gen Truc.Mach

theorem cloneFields_ok (dr : String → Bool) (cl : Val → Val) : ∀ (fs : List (D × Val)) (acc : List Val),
    cloneFields dr cl (fun _ => false) fs acc = .ok (acc ++ fs.map fun p => if p.1.uninit then p.2 else cl p.2) := by
  intro fs
  induction fs with
  | nil => intro acc; simp [cloneFields]
  | cons p rest ih =>
    intro acc
    obtain ⟨d, v⟩ := p
    unfold cloneFields
    by_cases hu : d.uninit = true
    · simp only [hu, if_true]; rw [ih]; simp [hu]
    · simp only [hu, Bool.false_eq_true, if_false]; rw [ih]; simp [hu]

/-- without a panicking field, the clone's fields are the clones of the source's fields, in order -/
theorem C16_clone_equal (dr : String → Bool) (cl : Val → Val) (fs : List (D × Val)) :
    cloneFields dr cl (fun _ => false) fs [] = .ok (fs.map fun p => if p.1.uninit then p.2 else cl p.2) := by
  simpa using cloneFields_ok dr cl fs []

/-- a panic in the clone of the first field the bomb matches: nothing but the clones already built
    is dropped, each once (the source is not touched: `cloneFields` only reads it) -/
theorem C16_panic_safe (dr : String → Bool) (cl : Val → Val) (bomb : Val → Bool)
    (pre : List (D × Val)) (d : D) (v : Val) (post : List (D × Val))
    (hpre : ∀ p ∈ pre, p.1.uninit = true ∨ bomb p.2 = false) (hd : d.uninit = false) (hv : bomb v = true) :
    cloneFields dr cl bomb (pre ++ (d, v) :: post) [] =
      .panicked pre.length ((pre.map fun p => if p.1.uninit then p.2 else cl p.2).filter fun x => dr x.ty) := by
  suffices h : ∀ (pre : List (D × Val)) (acc : List Val), (∀ p ∈ pre, p.1.uninit = true ∨ bomb p.2 = false) →
      cloneFields dr cl bomb (pre ++ (d, v) :: post) acc =
        .panicked (acc.length + pre.length) ((acc ++ pre.map fun p => if p.1.uninit then p.2 else cl p.2).filter fun x => dr x.ty) by
    simpa using h pre [] hpre
  intro pre
  induction pre with
  | nil => intro acc _; simp [cloneFields, hd, hv]
  | cons p rest ih =>
    intro acc hp
    obtain ⟨d0, v0⟩ := p
    have h0 := hp (d0, v0) List.mem_cons_self
    have hrest : ∀ p ∈ rest, p.1.uninit = true ∨ bomb p.2 = false := fun p hp' => hp p (List.mem_cons_of_mem _ hp')
    simp only [List.cons_append]
    unfold cloneFields
    by_cases hu : d0.uninit = true
    · simp only [hu, if_true]
      rw [ih _ hrest]; simp [hu, Nat.add_comm, Nat.add_left_comm]
    · simp only [hu, Bool.false_eq_true, if_false]
      have hb : bomb v0 = false := by rcases h0 with h | h; exact absurd h hu; exact h
      simp only [hb, Bool.false_eq_true, if_false]
      rw [ih _ hrest]; simp [hu, Nat.add_comm, Nat.add_left_comm]

/-- clone-assignment: the target's fields become the clones of the source's, and each previous
    droppable field value of the target is dropped exactly once -/
theorem C16_clone_from (dr : String → Bool) (cl : Val → Val) (fs : List (D × Val × Val)) :
    (cloneFromFields dr cl fs).1 = fs.map (fun p => if p.1.uninit then p.2.1 else cl p.2.1) ∧
    (cloneFromFields dr cl fs).2 = (fs.filter fun p => dr p.1.ty).map (fun p => p.2.2) := by
  induction fs with
  | nil => simp [cloneFromFields]
  | cons p rest ih =>
    obtain ⟨d, s, o⟩ := p
    simp only [cloneFromFields, List.map_cons, List.filter_cons]
    refine ⟨by rw [ih.1], ?_⟩
    rw [ih.2]
    by_cases hd : dr d.ty = true <;> simp [hd]

/-- a panic inside a field's clone during clone-assignment: the fields before it hold the clones of the source's and
    their previous droppable values were dropped exactly once; the panicking field and every later one still hold what
    they held; nothing else was dropped — the record is whole (one value per field) and nothing is lost or dropped twice -/
theorem C16_clone_from_panic_safe (dr : String → Bool) (cl : Val → Val) (bomb : Val → Bool) (fs : List (D × Val × Val))
    (k : Nat) (h : (cloneFromBomb dr cl bomb fs).2.2 = some k) :
    (cloneFromBomb dr cl bomb fs).1 =
      (fs.take k).map (fun p => if p.1.uninit then p.2.1 else cl p.2.1) ++ (fs.drop k).map (fun p => p.2.2) ∧
    (cloneFromBomb dr cl bomb fs).2.1 = ((fs.take k).filter fun p => dr p.1.ty).map (fun p => p.2.2) ∧
    (∃ p, fs[k]? = some p ∧ p.1.uninit = false ∧ bomb p.2.1 = true) := by
  induction fs generalizing k with
  | nil => simp [cloneFromBomb] at h
  | cons p rest ih =>
    obtain ⟨d, s, o⟩ := p
    unfold cloneFromBomb at h ⊢
    by_cases hb : (!d.uninit && bomb s) = true
    · simp only [hb, if_true] at h ⊢
      simp only [Option.some.injEq] at h
      subst h
      simp only [Bool.and_eq_true, Bool.not_eq_true'] at hb
      refine ⟨by simp, by simp, ⟨(d, s, o), by simp, hb.1, hb.2⟩⟩
    · simp only [hb, if_false, Bool.false_eq_true] at h ⊢
      cases hk : (cloneFromBomb dr cl bomb rest).2.2 with
      | none => rw [hk] at h; simp at h
      | some k' =>
        rw [hk] at h
        simp only [Option.map_some, Option.some.injEq] at h
        subst h
        obtain ⟨h1, h2, p, hp, hu, hbm⟩ := ih k' hk
        refine ⟨?_, ?_, ⟨p, by simpa using hp, hu, hbm⟩⟩
        · simp only [List.take_succ_cons, List.map_cons, List.drop_succ_cons, List.cons_append]
          rw [h1]
        · simp only [List.take_succ_cons, List.filter_cons]
          rw [h2]
          by_cases hd : dr d.ty = true <;> simp [hd]

/-- without a panicking clone it is the plain clone-assignment -/
theorem C16_clone_from_no_panic (dr : String → Bool) (cl : Val → Val) (fs : List (D × Val × Val)) :
    cloneFromBomb dr cl (fun _ => false) fs = ((cloneFromFields dr cl fs).1, (cloneFromFields dr cl fs).2, none) := by
  induction fs with
  | nil => simp [cloneFromBomb, cloneFromFields]
  | cons p rest ih =>
    obtain ⟨d, s, o⟩ := p
    simp only [cloneFromBomb, cloneFromFields, Bool.and_false, Bool.false_eq_true, if_false, ih, Option.map_none]

example : cloneFromBomb (fun t => t == "H") (fun v => { v with id := v.id + 1000000 }) (fun v => v.id == 7)
    [(⟨0, "a", "H", 8, 8, 0, false⟩, ⟨5, "H"⟩, ⟨1, "H"⟩), (⟨1, "b", "P4", 4, 4, 8, true⟩, ⟨9, "P4"⟩, ⟨2, "P4"⟩),
     (⟨2, "c", "H", 8, 8, 16, false⟩, ⟨7, "H"⟩, ⟨3, "H"⟩), (⟨3, "d", "H", 8, 8, 24, false⟩, ⟨8, "H"⟩, ⟨4, "H"⟩)]
    = ([⟨1000005, "H"⟩, ⟨9, "P4"⟩, ⟨3, "H"⟩, ⟨4, "H"⟩], [⟨1, "H"⟩], some 2) := by decide +kernel

example : cloneFields (fun t => t == "H") (fun v => { v with id := v.id + 1000000 }) (fun v => v.id == 7)
    [(⟨0, "a", "H", 8, 8, 0, false⟩, ⟨5, "H"⟩), (⟨1, "b", "P4", 4, 4, 8, true⟩, ⟨9, "P4"⟩), (⟨2, "c", "H", 8, 8, 16, false⟩, ⟨7, "H"⟩)] []
    = .panicked 2 [⟨1000005, "H"⟩] := by decide +kernel

end Truc.Frag
