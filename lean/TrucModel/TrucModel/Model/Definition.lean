import TrucModel.Model.Builder
/-
  `RecordDefinition<NativeDatumDetails>` (`definition/mod.rs`): capacity, alignment, Display.
-/
namespace Truc

structure Definition where
  defs     : Defs
  variants : List (List Nat)
deriving Repr, DecidableEq, Inhabited

def BState.build (s : BState) : Option Definition :=
  if s.canBuild then some ⟨s.defs, s.variants⟩ else none

/-- `max_size`: maximum of offset + size over the data that occur in some variant; `none` = the
    addition overflows `usize` (debug-profile panic). -/
def Definition.maxSize (d : Definition) : Option Nat :=
  let ends := (d.variants.flatten).map (fun id => stop d.defs id)
  if ends.any (fun e => e ≥ 2 ^ 64) then none else some (ends.foldl max 0)

/-- `max_type_align`: maximum over *all* datum definitions, 1 when there is none. -/
def Definition.maxTypeAlign (d : Definition) : Nat :=
  match d.defs.map (·.align) with
  | [] => 1
  | a :: as => as.foldl max a

def datumText (id : Nat) (i : Info) : String :=
  s!"{id}: {i.name} ({i.ty}, align {i.align}, offset {i.offset}, size {i.size})"

/-- `fmt_variant_representation` body after `"{id} ["`; `none` = "offset clash" panic. -/
def variantItems (defs : Defs) : List Nat → Bool → Nat → Option String
  | [], _, _ => some ""
  | d :: rest, first, byteOff =>
    let i := info defs d
    if byteOff > i.offset then none
    else
      let sep := if first then "" else ", "
      let void := if byteOff < i.offset then s!"(void, {i.offset - byteOff}), " else ""
      match variantItems defs rest false (i.offset + i.size) with
      | none => none
      | some tail => some (sep ++ void ++ datumText d i ++ tail)

def Definition.display (d : Definition) : Option String :=
  let rec go : List (List Nat) → Nat → Option String
    | [], _ => some ""
    | v :: vs, k =>
      match variantItems d.defs v true 0, go vs (k + 1) with
      | some a, some b => some (s!"{k} [" ++ a ++ "]\n" ++ b)
      | _, _ => none
  go d.variants 0

end Truc
