import TrucModel.Model.MachineWF
import TrucModel.Proofs.Reachable
/-
  The executable premise check `moduleWFB` (evaluated by the driver on every module channel X compiles)
  is sound and complete for `ModuleWF`: on a module where it answers `true`, the machine theorems
  C04–C07 apply as stated.
-/
namespace Truc.Mach
open Truc.Gen

theorem apartB_iff (d d' : D) : apartB d d' = true ↔ Apart d d' := by
  unfold apartB Apart
  simp only [Bool.and_eq_true, Bool.or_eq_true, decide_eq_true_eq, Bool.not_eq_true', Bool.and_eq_false_iff,
    beq_eq_false_iff_ne, ne_eq]
  constructor
  · rintro ⟨h1, h2⟩
    refine ⟨h1, ?_⟩
    rintro ⟨a, b, c⟩
    rcases h2 with (h2 | h2) | h2
    · exact h2 a
    · exact h2 b
    · exact h2 c
  · rintro ⟨h1, h2⟩
    refine ⟨h1, ?_⟩
    by_cases a : d.offset = d'.offset
    · by_cases b : d.size = d'.size
      · right; intro c; exact h2 ⟨a, b, c⟩
      · left; right; exact b
    · left; left; exact a

theorem pairwiseB_iff {α : Type} (r : α → α → Bool) : ∀ l : List α, pairwiseB r l = true ↔ l.Pairwise (fun a b => r a b = true)
  | [] => by simp [pairwiseB]
  | x :: xs => by
    simp only [pairwiseB, Bool.and_eq_true, List.all_eq_true, List.pairwise_cons, pairwiseB_iff r xs]

theorem nodupB_iff : ∀ l : List String, nodupB l = true ↔ l.Nodup
  | [] => by simp [nodupB]
  | x :: xs => by
    simp only [nodupB, Bool.and_eq_true, Bool.not_eq_true', List.nodup_cons, nodupB_iff xs, List.contains_eq_mem,
      decide_eq_false_iff_not]

theorem wfDataB_iff (cap : Nat) (ds : List D) : wfDataB cap ds = true ↔ WFData cap ds := by
  unfold wfDataB
  simp only [Bool.and_eq_true, nodupB_iff, pairwiseB_iff, List.all_eq_true, decide_eq_true_eq]
  constructor
  · rintro ⟨⟨h1, h2⟩, h3⟩
    exact ⟨h1, h2.imp (fun h => (apartB_iff _ _).1 h), h3⟩
  · rintro ⟨h1, h2, h3⟩
    exact ⟨⟨h1, h2.imp (fun h => (apartB_iff _ _).2 h)⟩, h3⟩

theorem isSublistB_iff : ∀ l1 l2 : List D, isSublistB l1 l2 = true ↔ l1.Sublist l2
  | [], l2 => by simp [isSublistB]
  | a :: as, [] => by simp [isSublistB]
  | a :: as, b :: bs => by
    unfold isSublistB
    by_cases h : a = b
    · subst h
      rw [if_pos rfl, isSublistB_iff as bs]
      exact (List.cons_sublist_cons).symm
    · rw [if_neg h, isSublistB_iff (a :: as) bs]
      constructor
      · intro hs; exact hs.cons _
      · intro hs
        cases hs with
        | cons _ h' => exact h'
        | cons_cons _ h' => exact absurd rfl h

/-- what `ModuleWF.conv` asks of two consecutive variants -/
def ConvOK (dr : String → Bool) (cap : Nat) (s0 s : Spec) : Prop :=
  ConvWF cap s0.data s.data s.minus s.plus ∧ "record" ∉ s.minus.map (·.name) ∧ (∀ p ∈ s.plus, p.size = 0 → dr p.ty = true)

theorem convWFB_iff (dr : String → Bool) (cap : Nat) (s0 s : Spec) : convWFB dr cap s0 s = true ↔ ConvOK dr cap s0 s := by
  unfold convWFB ConvOK
  simp only [Bool.and_eq_true, wfDataB_iff, isSublistB_iff, List.all_eq_true, Bool.or_eq_true, List.contains_eq_mem,
    decide_eq_true_eq, Bool.not_eq_true', decide_eq_false_iff_not, bne_iff_ne, ne_eq]
  constructor
  · rintro ⟨⟨⟨⟨⟨⟨⟨a, b⟩, c⟩, d⟩, e⟩, f⟩, g⟩, h⟩
    refine ⟨⟨a, b, c, d, ?_, ?_⟩, g, ?_⟩
    · intro x hx hn
      rcases e x hx with h1 | h1
      · exact absurd h1 hn
      · exact h1
    · intro x hx hn
      rcases f x hx with h1 | h1
      · exact absurd h1 hn
      · exact h1
    · intro p hp hz
      rcases h p hp with h1 | h1
      · exact absurd hz h1
      · exact h1
  · rintro ⟨⟨a, b, c, d, e, f⟩, g, h⟩
    refine ⟨⟨⟨⟨⟨⟨⟨a, b⟩, c⟩, d⟩, ?_⟩, ?_⟩, g⟩, ?_⟩
    · intro x hx
      by_cases hm : x ∈ s.minus
      · left; exact hm
      · right; exact e x hx hm
    · intro x hx
      by_cases hm : x ∈ s.plus
      · left; exact hm
      · right; exact f x hx hm
    · intro p hp
      by_cases hz : p.size = 0
      · right; exact h p hp hz
      · left; exact hz

theorem mem_zip_tail_iff {α : Type} : ∀ (l : List α) (a b : α),
    (a, b) ∈ l.zip l.tail ↔ ∃ k, l[k]? = some a ∧ l[k + 1]? = some b
  | [], a, b => by simp
  | [x], a, b => by
    simp only [List.tail_cons, List.zip_nil_right, List.not_mem_nil, false_iff, not_exists, not_and]
    intro k h1 h2
    simp at h2
  | x :: y :: l, a, b => by
    have ih := mem_zip_tail_iff (y :: l) a b
    simp only [List.tail_cons] at ih
    simp only [List.tail_cons, List.zip_cons_cons, List.mem_cons, Prod.mk.injEq, ih]
    constructor
    · rintro (⟨rfl, rfl⟩ | ⟨k, h1, h2⟩)
      · exact ⟨0, rfl, rfl⟩
      · exact ⟨k + 1, by simpa using h1, by simpa using h2⟩
    · rintro ⟨k, h1, h2⟩
      cases k with
      | zero =>
        left
        simp only [List.getElem?_cons_zero, Option.some.injEq, Nat.zero_add, List.getElem?_cons_succ] at h1 h2
        exact ⟨h1.symm, h2.symm⟩
      | succ k =>
        right
        exact ⟨k, by simpa using h1, by simpa using h2⟩

/-- **the premise check decides the premise**: `moduleWFB` answers `true` exactly on the modules that are `ModuleWF` -/
theorem moduleWFB_iff (dr : String → Bool) (cap : Nat) (specs : List Spec) :
    moduleWFB dr cap specs = true ↔ ModuleWF dr cap specs := by
  unfold moduleWFB
  simp only [Bool.and_eq_true, List.all_eq_true, wfDataB_iff, Bool.or_eq_true, Bool.not_eq_true', convWFB_iff]
  constructor
  · rintro ⟨h1, h2⟩
    refine ⟨fun s hs => (h1 s hs).1, ?_, ?_⟩
    · intro s hs d hd hu
      rcases (h1 s hs).2 d hd with h | h
      · rw [hu] at h; cases h
      · exact h
    · intro k s0 s hk0 hk1
      exact h2 (s0, s) ((mem_zip_tail_iff specs s0 s).2 ⟨k, hk0, hk1⟩)
  · rintro ⟨hd, hp, hc⟩
    refine ⟨fun s hs => ⟨hd s hs, fun d hdm => ?_⟩, ?_⟩
    · cases hu : d.uninit with
      | false => left; rfl
      | true => right; exact hp s hs d hdm hu
    · rintro ⟨s0, s⟩ hm
      obtain ⟨k, hk0, hk1⟩ := (mem_zip_tail_iff specs s0 s).1 hm
      exact hc k s0 s hk0 hk1

end Truc.Mach
