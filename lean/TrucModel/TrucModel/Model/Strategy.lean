import TrucModel.Model.Layout
/-
  The four native closing strategies (`dummy.rs`, `basic.rs`, `simple.rs`), transcribed.
  Each takes the datum collection, the previous variant's list, the additions and the removals and
  returns the new collection and the new list; `none` = the Rust code panics (`Vec::insert` out of
  range is the only reachable-looking panic site; a lemma shows it unreachable).
-/
namespace Truc

/-! ### append_data / append_data_reverse -/

def pushAll (defs : Defs) (l : List Nat) : List Nat → Defs × List Nat
  | [] => (defs, l)
  | id :: rest =>
    let (defs', l', _, _) := pushDatum defs l id
    pushAll defs' l' rest

def appendData (defs : Defs) (data add rm : List Nat) : Defs × List Nat :=
  pushAll defs (removeData data rm) add

def appendDataReverse (defs : Defs) (data add rm : List Nat) : Defs × List Nat :=
  pushAll defs (removeData data rm) add.reverse

/-! ### basic -/

/-- the `while data_caret < data.len()` loop of `basic` for one datum of size `dsz`, alignment `dal`.
    Returns the carets at the `break` / at loop exit. -/
def basicScan (defs : Defs) (data : List Nat) (dsz dal : Nat) (dc bc : Nat) : Nat × Nat :=
  if h : dc < data.length then
    let c := data[dc]
    if off defs c = bc then
      basicScan defs data dsz dal (dc + 1) (bc + sz defs c)
    else
      let bc' := alignUp bc dal
      if bc' + dsz ≤ off defs c then (dc, bc')
      else basicScan defs data dsz dal (dc + 1) (off defs c + sz defs c)
  else (dc, bc)
termination_by data.length - dc

/-- `Vec::insert(i, x)`: panics when `i > len`. -/
def insertAt? (l : List Nat) (i : Nat) (x : Nat) : Option (List Nat) :=
  if i ≤ l.length then some (l.take i ++ x :: l.drop i) else none

def basicLoop (defs : Defs) (data : List Nat) (dc bc : Nat) : List Nat → Option (Defs × List Nat)
  | [] => some (defs, data)
  | id :: rest =>
    let (dc', bc') := basicScan defs data (sz defs id) (al defs id) dc bc
    let bc'' := alignUp bc' (al defs id)
    match insertAt? data dc' id with
    | none => none
    | some data' => basicLoop (setOffset defs id bc'') data' dc' bc'' rest

def basic (defs : Defs) (data add rm : List Nat) : Option (Defs × List Nat) :=
  basicLoop defs (removeData data rm) 0 0 add

/-! ### simple -/

structure Gap where
  start : Nat
  stop  : Nat
  idx   : Nat      -- datum_index
deriving Repr, DecidableEq, Inhabited

/-- `compute_initial_gaps` (fold with `last_offset`, `enumerate`). -/
def initialGapsFrom (defs : Defs) : List Nat → Nat → Nat → List Gap
  | [], _, _ => []
  | d :: rest, i, last =>
    if off defs d > last then
      ⟨last, off defs d, i⟩ :: initialGapsFrom defs rest (i + 1) (stop defs d)
    else
      initialGapsFrom defs rest (i + 1) (stop defs d)

def initialGaps (defs : Defs) (data : List Nat) : List Gap := initialGapsFrom defs data 0 0

/-- stable insertion so that the result is by decreasing size, insertion order inside one size
    (`BTreeMap<usize, Vec<_>>` then `.into_values().rev().flatten()`). -/
def insertBySize (defs : Defs) (id : Nat) : List Nat → List Nat
  | [] => [id]
  | x :: xs => if sz defs x < sz defs id then id :: x :: xs else x :: insertBySize defs id xs

def sortBySizeDesc (defs : Defs) (add : List Nat) : List Nat :=
  add.foldl (fun acc id => insertBySize defs id acc) []

inductive FitKind | startOfGap | endOfGap
deriving Repr, DecidableEq, Inhabited

structure Fitted where
  kind   : FitKind
  gi     : Nat      -- gap_index
  before : Nat
  after  : Nat
  dstart : Nat
  dend   : Nat
deriving Repr, DecidableEq, Inhabited

def Fitted.selectionValue (f : Fitted) : Nat :=
  match f.kind with
  | .startOfGap => f.dend
  | .endOfGap => f.dstart

def Fitted.fullGap (f : Fitted) : Nat := f.before + f.after

/-- the gap scan of `simple` for one datum: the pushes into `fitted_by_full_gap` in scan order,
    with the early `break` on an exact gap. -/
def collectFits (dsz dal : Nat) : List Gap → Nat → List Fitted
  | [], _ => []
  | g :: gs, i =>
    if g.stop - g.start < dsz then collectFits dsz dal gs (i + 1)
    else
      let ds := alignUp g.start dal
      let de := ds + dsz
      if g.stop ≥ de then
        let f : Fitted := ⟨.startOfGap, i, ds - g.start, g.stop - de, ds, de⟩
        if f.before = 0 ∧ f.after = 0 then [f] else f :: collectFits dsz dal gs (i + 1)
      else collectFits dsz dal gs (i + 1)

/-- the bit loop of `select_best`; `true` = the first candidate wins. -/
def selectLoop (a b : Nat) : Bool :=
  if b % 2 = 1 then true
  else if a % 2 = 1 then false
  else if h : a = 0 then true   -- not reachable from `selectFirst` (a ≠ 0 is kept by halving an even number)
  else selectLoop (a / 2) (b / 2)
termination_by a
decreasing_by omega

def selectFirst (a b : Nat) : Bool :=
  if a = 0 then true else if b = 0 then false else selectLoop a b

/-- `select_start_or_end_of_gap` -/
def startOrEnd (f : Fitted) (dal : Nat) : Fitted :=
  let delta := f.after / dal * dal
  if delta > 0 then
    if selectFirst f.dend (f.dstart + delta) then f
    else ⟨.endOfGap, f.gi, f.before + delta, f.after - delta, f.dstart + delta, f.dend + delta⟩
  else f

/-- first value of `BTreeMap<FullGap, Vec<_>>`: the candidates with the least key, in scan order. -/
def minGroup (fs : List Fitted) : List Fitted :=
  match (fs.map Fitted.fullGap).min? with
  | none => []
  | some m => fs.filter (fun f => f.fullGap = m)

def chooseFit (dal : Nat) : List Fitted → Option Fitted
  | [] => none
  | f :: fs =>
    some (fs.foldl (fun prev cur =>
      let sc := startOrEnd cur dal
      if selectFirst prev.selectionValue sc.selectionValue then prev else sc) (startOrEnd f dal))

structure SState where
  defs : Defs
  data : List Nat
  gaps : List Gap

def bumpIdx (gs : List Gap) : List Gap := gs.map (fun g => { g with idx := g.idx + 1 })

/-- one iteration of the `for datum_id in data_to_add_by_size…` loop. -/
def simpleStep (s : SState) (id : Nat) : Option SState :=
  let dsz := sz s.defs id
  let dal := al s.defs id
  match chooseFit dal (minGroup (collectFits dsz dal s.gaps 0)) with
  | some f =>
    match s.gaps[f.gi]? with
    | none => none                                   -- `gaps[gap_index]` out of range
    | some gap =>
      match insertAt? s.data gap.idx id with
      | none => none                                 -- `Vec::insert` out of range
      | some data' =>
        let gb : List Gap := if f.before > 0 then [⟨gap.start, gap.start + f.before, gap.idx⟩] else []
        let ga : List Gap := if f.after > 0 then [⟨f.dend, gap.stop, gap.idx + 1⟩] else []
        some ⟨setOffset s.defs id f.dstart, data',
              s.gaps.take f.gi ++ gb ++ ga ++ bumpIdx (s.gaps.drop (f.gi + 1))⟩
  | none =>
    let (defs', data', gs, ge) := pushDatum s.defs s.data id
    some ⟨defs', data', if ge > gs then s.gaps ++ [⟨gs, ge, data'.length - 1⟩] else s.gaps⟩

def simpleLoop (s : SState) : List Nat → Option SState
  | [] => some s
  | id :: rest =>
    match simpleStep s id with
    | none => none
    | some s' => simpleLoop s' rest

def simple (defs : Defs) (data add rm : List Nat) : Option (Defs × List Nat) :=
  let data := removeData data rm
  match simpleLoop ⟨defs, data, initialGaps defs data⟩ (sortBySizeDesc defs add) with
  | none => none
  | some s => some (s.defs, s.data)

end Truc
