import TrucModel.Proofs.Memory
import TrucModel.Generated.Primitives
import TrucModel.Proofs.Corollaries
/-
  C07 — Generated code only touches storage it owns, aligned, with the right type.
-/
namespace Truc.Mach
open Truc.Gen Truc.Generated

/-- constructors and conversions store into a *bare local* buffer (`RecordMaybeUninit<CAP>`, alignment
    1): the store primitive must therefore not require alignment.  Decided on the translated source. -/
theorem C07_store_tolerates_misalignment : primWrite.access = .ptrWriteUnaligned := by decide

/-- typed loads and references do require alignment … -/
theorem C07_loads_are_typed : primRead.access = .ptrRead ∧ primGet.access = .refShared ∧ primGetMut.access = .refMut := by
  decide

/-- … and have it: they are only issued on the buffer *inside* a `#[repr(align(A))]` record, whose
    address is a multiple of `A` wherever it lives; `A` is a multiple of the field's alignment
    (C02_record_align) which divides the field's offset (C02_aligned). -/
theorem C07_aligned_access (base off a A : Nat) (hbase : A ∣ base) (haA : a ∣ A) (hoff : a ∣ off) : a ∣ base + off :=
  Nat.dvd_add (Nat.dvd_trans haA hbase) hoff

/-- every access lies inside the capacity: the machine's `oob` error needs `off + size > cap` -/
theorem C07_in_bounds (dr : String → Bool) (b : Buf) (d : D) (h : d.offset + d.size ≤ b.cap) :
    b.load dr d ≠ .error .oob := by
  unfold Buf.load
  rw [if_neg (by omega)]
  cases b.find d with
  | some e => simp
  | none => by_cases hd : dr d.ty = true <;> simp [hd]

example : (4 : Nat) ∣ 64 + 12 := C07_aligned_access 64 12 4 16 (by decide) (by decide) (by decide)

end Truc.Mach
