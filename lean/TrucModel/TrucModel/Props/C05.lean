import TrucModel.Proofs.Memory
import TrucModel.Proofs.Reachable
import TrucModel.Props.MachExample
/-
  C05 — Converting to the next variant keeps, adds and returns the right values.
  `C05_convert`: full statement for one conversion, all four forms; `C05_chain`: every record reached
  by any chain of conversions (and constructors, and writes) from any variant satisfies the invariant
  that `C05_convert` needs, so the statement holds at every step of every chain.  The `_partial`
  lemmas below them are the buffer-level facts the proof rests on (kept for reference).
-/
namespace Truc.Mach
open Truc.Gen

/-- **one conversion, any of the four forms.** For consecutive variants whose field lists are
    well-formed (`ConvWF`: C01/C02/C12 for both variants + how they relate), from a record of the old
    variant satisfying the record invariant: the generated conversion runs without machine error; in
    the new record every carried-over field is found exactly as before, every written added field
    holds the value supplied; the forms that return removed data hand back every removed field's
    value (and destroy nothing), the other forms destroy exactly the removed droppable values; and the
    new record satisfies the invariant again. -/
theorem C05_convert (dr : String → Bool) (cap : Nat) (sp0 sp : Spec) (uninit andOut : Bool)
    (hw : ConvWF cap sp0.data sp.data sp.minus sp.plus) (b0 : Buf) (hcap : b0.cap = cap) (hinv : RecInv dr b0 sp0.data)
    (hrec : "record" ∉ sp.minus.map (·.name)) (hpod : ∀ d ∈ sp.plus, d.uninit = true → dr d.ty = false)
    (hz : ∀ p ∈ sp.plus, p.size = 0 → dr p.ty = true)
    (vals : List Val) (hl : vals.length = (plusWritten sp uninit).length)
    (hty : ∀ p ∈ (plusWritten sp uninit).zip vals, p.2.ty = p.1.ty) :
    ∃ b2 st, call dr cap (convFn sp uninit andOut)
        { from_ := some b0, fromGlue := some sp0.data, args := [("plus", fieldsOf (plusWritten sp uninit) vals)] } = .ok st ∧
      b2.cap = cap ∧
      (if andOut then st.result = .struct ((sp.minus.map (·.name)).zip (minusVals sp b0)) (some b2) ∧ st.drops = []
       else st.result = .record b2 ∧ st.drops = (minusVals sp b0).filter (fun v => dr v.ty)) ∧
      (∀ p ∈ (plusWritten sp uninit).zip vals, b2.find p.1 = some (mkExt p)) ∧
      (∀ d ∈ sp.data, d ∉ sp.plus → b2.find d = b0.find d) ∧
      RecInv dr b2 sp.data :=
  conv_ok dr cap sp0 sp uninit andOut hw b0 hcap hinv hrec hpod hz vals hl hty

/-- **any chain.** Whatever sequence of constructor / conversion forms / writes produced a record of
    variant `k` of a well-formed module, it has the right capacity and satisfies the invariant — so
    `C05_convert` applies to it, at every step of every chain from the first to the last variant. -/
theorem C05_chain (dr : String → Bool) (cap : Nat) (specs : List Spec) (hm : ModuleWF dr cap specs)
    (k : Nat) (b : Buf) (h : Reach dr cap specs k b) : ∃ s, specs[k]? = some s ∧ b.cap = cap ∧ RecInv dr b s.data :=
  reach_inv dr cap specs hm k b h

/-- non-vacuity of `C05_convert` / `C05_chain`: a concrete well-formed module (`MachExample`), a record
    built by its constructor, converted by the form that returns the removed data with an added field
    written over the removed field's bytes — reachable, hence satisfying the invariant -/
example : ∃ b, Reach Ex.dr 16 Ex.specs 1 b ∧ ∃ s, Ex.specs[1]? = some s ∧ RecInv Ex.dr b s.data := by
  obtain ⟨b0, st0, hc0, hr0, hcap0, hinv0⟩ := ctorNew_inv Ex.dr 16 Ex.s0 Ex.wf0 [⟨5, "H"⟩, ⟨6, "P4"⟩] rfl (by decide)
  have r0 : Reach Ex.dr 16 Ex.specs 0 b0 := Reach.new 0 Ex.s0 _ st0 b0 rfl rfl (by decide) hc0 hr0
  obtain ⟨hcw, hrec, hz⟩ := Ex.moduleWF.conv 0 Ex.s0 Ex.s1 rfl rfl
  obtain ⟨b2, st, hcall, _, hres, _, _, _⟩ := conv_ok Ex.dr 16 Ex.s0 Ex.s1 false true hcw b0 hcap0 hinv0 hrec (by decide) hz
    [⟨7, "P8"⟩] rfl (by decide)
  simp only [if_true] at hres
  have r1 : Reach Ex.dr 16 Ex.specs 1 b2 :=
    Reach.conv 0 Ex.s0 Ex.s1 b0 false true [⟨7, "P8"⟩] st b2 r0 rfl rfl rfl (by decide) hcall (Or.inr ⟨_, hres.1⟩)
  obtain ⟨s, hs, _, hinv⟩ := reach_inv Ex.dr 16 Ex.specs Ex.moduleWF 1 b2 r1
  exact ⟨b2, r1, s, hs, hinv⟩

/-- reading a removed field out changes nothing for any other field -/
theorem C05_reading_removed_keeps_others_partial (b : Buf) (removed carried : D)
    (h : ¬(removed.offset = carried.offset ∧ removed.size = carried.size ∧ removed.ty = carried.ty)) :
    (b.markMoved removed).find carried = b.find carried :=
  markMoved_frame b removed carried h

/-- storing all the added fields changes nothing for a carried-over field, provided every added
    field's extent is apart from it — which C01 (on the *new* variant) gives -/
theorem C05_adding_keeps_carried_partial (dr : String → Bool) (carried : D) (added : List (D × Val)) (b b' : Buf)
    (hap : ∀ w ∈ added, w.2.ty = w.1.ty ∧ Apart w.1 carried) (h : storeAll dr b added = .ok b') :
    b'.find carried = b.find carried :=
  storeAll_frame dr carried added b b' hap h

/-- the conversion's program order: every read of a removed field precedes the bit copy, which
    precedes every store of an added field (so an added field may reuse a removed field's bytes) -/
theorem C05_program_order_partial (s : Spec) (uninit andOut : Bool) :
    ∃ pre post, (convFn s uninit andOut).body =
      s.minus.map (fun d => Stmt.readLet ((if andOut then "" else "_") ++ d.name) d "from") ++ pre ++
      [Stmt.manuallyDrop, Stmt.copyBuf ((!uninit && !s.plus.isEmpty) || (uninit && (uninit && s.plus.any (fun d => !d.uninit))))] ++
      (s.plus.filter (fun d => !uninit || !d.uninit)).map (fun d => Stmt.write d "plus") ++ post ∧
      (∀ st ∈ pre, ∃ a b c d, st = Stmt.safeFrom a b c d) ∧
      (∀ st ∈ post, st = Stmt.retSelfData ∨ (∃ c, st = Stmt.letRecord c) ∨ ∃ n fs, st = Stmt.retStruct n fs) := by
  unfold convFn
  simp only
  refine ⟨_, _, rfl, ?_, ?_⟩
  · intro st hst
    split at hst
    · simp at hst; exact ⟨_, _, _, _, hst⟩
    · simp at hst
  · intro st hst
    split at hst
    · simp at hst
      rcases hst with h | h
      · right; left; exact ⟨_, h⟩
      · right; right; exact ⟨_, _, h⟩
    · simp at hst; left; exact hst

/-- non-vacuity: an added field written over the bytes of a removed (already read) field; the
    carried-over field keeps its value -/
example :
    let a : D := ⟨0, "a", "H", 8, 8, 0, false⟩
    let k : D := ⟨1, "k", "P4", 4, 4, 8, false⟩
    let n : D := ⟨2, "n", "P8", 8, 8, 0, false⟩
    let b : Buf := ⟨16, [⟨0, 8, ⟨5, "H"⟩, false⟩, ⟨8, 4, ⟨6, "P4"⟩, false⟩]⟩
    (match storeAll (fun t => t == "H") (b.markMoved a) [(n, ⟨7, "P8"⟩)] with
     | .ok b' => ((b'.find k).map (·.val.id), (b'.find n).map (·.val.id)) == (some 6, some 7)
     | .error _ => false) = true := by decide +kernel

end Truc.Mach
