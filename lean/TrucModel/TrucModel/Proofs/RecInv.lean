import TrucModel.Proofs.Refine
/-
  The record invariant maintained by the generated functions, and counting lemmas for extents.
-/
namespace Truc.Mach
open Truc.Gen

/-- number of live extents carrying `d`'s key -/
def cnt (d : D) (l : List Ext) : Nat := (l.filter (keyOf d)).length

theorem cnt_nil (d : D) : cnt d [] = 0 := rfl

theorem cnt_cons (d : D) (x : Ext) (l : List Ext) : cnt d (x :: l) = (if keyOf d x then 1 else 0) + cnt d l := by
  unfold cnt
  simp only [List.filter_cons]
  split <;> simp [Nat.add_comm]

theorem cnt_append (d : D) (l1 l2 : List Ext) : cnt d (l1 ++ l2) = cnt d l1 + cnt d l2 := by
  unfold cnt; simp

theorem cnt_zero_iff (d : D) (l : List Ext) : cnt d l = 0 ↔ ∀ x ∈ l, keyOf d x = false := by
  unfold cnt
  rw [List.length_eq_zero_iff, List.filter_eq_nil_iff]
  simp

theorem find_none_iff_cnt (d : D) (l : List Ext) : l.find? (keyOf d) = none ↔ cnt d l = 0 := by
  rw [List.find?_eq_none, cnt_zero_iff]
  simp

theorem cnt_pos_of_find {d : D} {l : List Ext} {e : Ext} (h : l.find? (keyOf d) = some e) : 0 < cnt d l := by
  cases hc : cnt d l with
  | zero => rw [← find_none_iff_cnt] at hc; rw [hc] at h; simp at h
  | succ n => omega

theorem cnt_sublist {d : D} {l0 l : List Ext} (h : l0.Sublist l) : cnt d l0 ≤ cnt d l := by
  unfold cnt
  exact (h.filter _).length_le

/-- moved extents carry no key -/
theorem keyOf_moved (d : D) (x : Ext) : keyOf d { x with moved := true } = false := by simp [keyOf]

theorem key_transfer {d d' : D} {x : Ext} (h1 : keyOf d x = true) (h2 : keyOf d' x = true) : ¬ KeyNe d d' := by
  unfold keyOf at h1 h2
  simp only [Bool.and_eq_true, beq_iff_eq, Bool.not_eq_eq_eq_not, Bool.not_true] at h1 h2
  intro hk
  exact hk ⟨h1.1.1.1.symm.trans h2.1.1.1, h1.1.1.2.symm.trans h2.1.1.2, h1.1.2.symm.trans h2.1.2⟩

theorem cnt_markFirst_self (d : D) : ∀ (l : List Ext), cnt d (markFirst d l) = cnt d l - 1 := by
  intro l
  induction l with
  | nil => rfl
  | cons x xs ih =>
    unfold markFirst
    cases hk : keyOf d x with
    | true =>
      have hk' : (x.off == d.offset && x.size == d.size && x.val.ty == d.ty && !x.moved) = true := hk
      simp only [hk', if_true, cnt_cons, keyOf_moved, hk]
      simp
    | false =>
      have hk' : (x.off == d.offset && x.size == d.size && x.val.ty == d.ty && !x.moved) = false := hk
      simp only [hk', Bool.false_eq_true, if_false, cnt_cons, hk, ih]
      simp

theorem cnt_markFirst_other {d d' : D} (h : KeyNe d d') : ∀ (l : List Ext), cnt d' (markFirst d l) = cnt d' l := by
  intro l
  induction l with
  | nil => rfl
  | cons x xs ih =>
    unfold markFirst
    cases hk : keyOf d x with
    | true =>
      have hk' : (x.off == d.offset && x.size == d.size && x.val.ty == d.ty && !x.moved) = true := hk
      have h1 : keyOf d' x = false := by
        cases hq : keyOf d' x with
        | false => rfl
        | true => exact absurd h (key_transfer hk hq)
      simp only [hk', if_true, cnt_cons, keyOf_moved, h1]
    | false =>
      have hk' : (x.off == d.offset && x.size == d.size && x.val.ty == d.ty && !x.moved) = false := hk
      simp only [hk', Bool.false_eq_true, if_false, cnt_cons, ih]

theorem live_of_markFirst (d : D) : ∀ (l : List Ext) (x : Ext), x ∈ markFirst d l → x.moved = false → x ∈ l := by
  intro l
  induction l with
  | nil => intro x hx; simp [markFirst] at hx
  | cons y ys ih =>
    intro x hx hm
    unfold markFirst at hx
    split at hx
    · rcases List.mem_cons.1 hx with rfl | hx
      · simp at hm
      · exact List.mem_cons_of_mem _ hx
    · rcases List.mem_cons.1 hx with rfl | hx
      · exact List.mem_cons_self
      · exact List.mem_cons_of_mem _ (ih x hx hm)

/-- the value a load yields for a datum: what is found, or (plain-old-data only) uninitialised bytes -/
def valOf (b : Buf) (d : D) : Val := ((b.find d).map (·.val)).getD ⟨0, d.ty⟩

/-- what one load does to the extents -/
theorem load_effect {dr : String → Bool} {b b' : Buf} {d : D} {v : Val} (h : b.load dr d = .ok (v, b')) :
    v = valOf b d ∧ b'.cap = b.cap ∧
    ((b'.exts = b.exts ∧ (dr d.ty = false ∨ b.find d = none)) ∨ (b'.exts = markFirst d b.exts ∧ dr d.ty = true ∧ (b.find d).isSome)) := by
  unfold Buf.load at h
  split at h
  · simp at h
  · cases hf : b.find d with
    | none =>
      rw [hf] at h
      simp only at h
      split at h
      · simp at h
      · simp only [Except.ok.injEq, Prod.mk.injEq] at h
        obtain ⟨rfl, rfl⟩ := h
        exact ⟨by simp [valOf, hf], rfl, Or.inl ⟨rfl, Or.inr rfl⟩⟩
    | some e =>
      rw [hf] at h
      simp only [Except.ok.injEq, Prod.mk.injEq] at h
      obtain ⟨rfl, rfl⟩ := h
      refine ⟨by simp [valOf, hf], by split <;> rfl, ?_⟩
      by_cases hd : dr d.ty = true
      · right; simp [hd, Buf.markMoved]
      · left; simp [hd]

end Truc.Mach

namespace Truc.Mach
open Truc.Gen

/-- the buffer after one load, as a function of the buffer before -/
def afterLoad (dr : String → Bool) (b : Buf) (d : D) : Buf :=
  if dr d.ty && (b.find d).isSome then b.markMoved d else b

theorem load_ok {dr : String → Bool} {b : Buf} {d : D} (hc : d.offset + d.size ≤ b.cap)
    (hf : (∃ e, b.find d = some e) ∨ dr d.ty = false) : b.load dr d = .ok (valOf b d, afterLoad dr b d) := by
  unfold Buf.load afterLoad valOf
  rw [if_neg (by omega)]
  cases hfd : b.find d with
  | some e => by_cases hd : dr d.ty = true <;> simp [hd]
  | none =>
    rcases hf with ⟨e, he⟩ | hd
    · rw [hfd] at he; simp at he
    · simp [hd]

theorem afterLoad_cap (dr : String → Bool) (b : Buf) (d : D) : (afterLoad dr b d).cap = b.cap := by
  unfold afterLoad; split <;> rfl

theorem afterLoad_live (dr : String → Bool) (b : Buf) (d : D) : ∀ x ∈ (afterLoad dr b d).exts, x.moved = false → x ∈ b.exts := by
  intro x hx hm
  unfold afterLoad at hx
  split at hx
  · exact live_of_markFirst d b.exts x hx hm
  · exact hx

theorem afterLoad_cnt_self (dr : String → Bool) (b : Buf) (d : D) (hd : dr d.ty = true) :
    cnt d (afterLoad dr b d).exts = cnt d b.exts - 1 := by
  unfold afterLoad
  by_cases hf : (b.find d).isSome = true
  · simp only [hd, hf, Bool.and_self, if_true]
    exact cnt_markFirst_self d b.exts
  · simp only [hf, Bool.and_false, Bool.false_eq_true, if_false]
    have : b.find d = none := by cases h : b.find d <;> simp_all
    rw [find_eq, find_none_iff_cnt] at this
    omega

theorem afterLoad_other (dr : String → Bool) (b : Buf) {d d' : D} (h : KeyNe d d') :
    cnt d' (afterLoad dr b d).exts = cnt d' b.exts ∧ (afterLoad dr b d).find d' = b.find d' := by
  unfold afterLoad
  split
  · exact ⟨cnt_markFirst_other h b.exts, markMoved_frame b d d' h⟩
  · exact ⟨rfl, rfl⟩

theorem loadAll_gen (dr : String → Bool) : ∀ (ds : List D) (b : Buf),
    (∀ d ∈ ds, d.offset + d.size ≤ b.cap) → (∀ d ∈ ds, (∃ e, b.find d = some e) ∨ dr d.ty = false) → ds.Pairwise KeyNe →
    ∃ b', loadAll dr b ds = .ok (ds.map (valOf b), b') ∧ b'.cap = b.cap ∧
      (∀ x ∈ b'.exts, x.moved = false → x ∈ b.exts) ∧
      (∀ d ∈ ds, dr d.ty = true → cnt d b'.exts = cnt d b.exts - 1) ∧
      (∀ d', (∀ d ∈ ds, KeyNe d d') → cnt d' b'.exts = cnt d' b.exts ∧ b'.find d' = b.find d') := by
  intro ds
  induction ds with
  | nil => intro b _ _ _; exact ⟨b, rfl, rfl, fun _ h _ => h, by simp, fun _ _ => ⟨rfl, rfl⟩⟩
  | cons d rest ih =>
    intro b hcap hfound hpw
    rw [List.pairwise_cons] at hpw
    have hl := load_ok (dr := dr) (hcap d List.mem_cons_self) (hfound d List.mem_cons_self)
    have hoth : ∀ d' ∈ rest, cnt d' (afterLoad dr b d).exts = cnt d' b.exts ∧ (afterLoad dr b d).find d' = b.find d' :=
      fun d' hd' => afterLoad_other dr b (hpw.1 d' hd')
    obtain ⟨b', hrest, hc', hlive, hself, hother⟩ := ih (afterLoad dr b d)
      (fun d' hd' => by rw [afterLoad_cap]; exact hcap d' (List.mem_cons_of_mem _ hd'))
      (fun d' hd' => by rw [(hoth d' hd').2]; exact hfound d' (List.mem_cons_of_mem _ hd'))
      hpw.2
    refine ⟨b', ?_, by rw [hc', afterLoad_cap], ?_, ?_, ?_⟩
    · unfold loadAll
      rw [hl]
      simp only
      rw [hrest]
      simp only [List.map_cons]
      congr 3
      apply List.map_congr_left
      intro d' hd'
      unfold valOf
      rw [(hoth d' hd').2]
    · intro x hx hm
      exact afterLoad_live dr b d x (hlive x hx hm) hm
    · intro d0 hd0 hdr
      rcases List.mem_cons.1 hd0 with rfl | hd0
      · -- the first one: later loads have other keys
        have := (hother d0 (fun d' hd' => fun hk => hpw.1 d' hd' ⟨hk.1.symm, hk.2.1.symm, hk.2.2.symm⟩)).1
        rw [this, afterLoad_cnt_self dr b d0 hdr]
      · rw [hself d0 hd0 hdr, (hoth d0 hd0).1]
    · intro d' hk
      have h1 := hother d' (fun x hx => hk x (List.mem_cons_of_mem _ hx))
      have h2 := afterLoad_other dr b (hk d List.mem_cons_self)
      exact ⟨by rw [h1.1, h2.1], by rw [h1.2, h2.2]⟩

end Truc.Mach

namespace Truc.Mach
open Truc.Gen

def mkExt (w : D × Val) : Ext := Ext.mk w.1.offset w.1.size w.2 false

/-- survives all the stores -/
def clearOf (ws : List (D × Val)) (x : Ext) : Bool := ws.all fun w => !(overlaps x w.1.offset w.1.size)

/-- exact shape of the extents after a run of stores of pairwise apart data -/
theorem storeAll_exts (dr : String → Bool) : ∀ (ws : List (D × Val)) (b b' : Buf),
    storeAll dr b ws = .ok b' → ws.Pairwise (fun w w' => Apart w.1 w'.1) →
    b'.exts = b.exts.filter (clearOf ws) ++ ws.map mkExt ∧ b'.cap = b.cap := by
  intro ws
  induction ws with
  | nil =>
    intro b b' h _
    simp only [storeAll, Except.ok.injEq] at h
    subst h
    have : b.exts.filter (clearOf []) = b.exts := by
      rw [List.filter_eq_self]; intro x _; rfl
    simp [this]
  | cons w rest ih =>
    intro b b' h hpw
    obtain ⟨d, v⟩ := w
    rw [List.pairwise_cons] at hpw
    unfold storeAll at h
    cases hs : b.store dr d v with
    | error e => rw [hs] at h; simp at h
    | ok b1 =>
      rw [hs] at h
      simp only at h
      obtain ⟨he, hc⟩ := ih b1 b' h hpw.2
      have he1 := store_exts hs
      have hnew : clearOf rest (Ext.mk d.offset d.size v false) = true := by
        unfold clearOf
        rw [List.all_eq_true]
        intro w hw
        have := overlaps_false_of_apart v (hpw.1 w hw)
        simp [this]
      refine ⟨?_, by rw [hc, store_cap hs]⟩
      rw [he, he1, List.filter_append, List.filter_filter]
      simp only [List.filter_cons, hnew, if_true, List.filter_nil, List.map_cons, List.append_assoc, List.singleton_append]
      congr 1
      · apply List.filter_congr
        intro x _
        simp [clearOf, Bool.and_comm]
      

end Truc.Mach

namespace Truc.Mach
open Truc.Gen

theorem keyOf_mkExt_self (w : D × Val) (h : w.2.ty = w.1.ty) : keyOf w.1 (mkExt w) = true := by
  simp [keyOf, mkExt, h]

theorem keyOf_mkExt_apart {w : D × Val} {d' : D} (hv : w.2.ty = w.1.ty) (h : Apart w.1 d') : keyOf d' (mkExt w) = false :=
  keyOf_false_of_apart w.2 hv h

theorem cnt_news_other {ws : List (D × Val)} {d' : D} (hty : ∀ w ∈ ws, w.2.ty = w.1.ty) (h : ∀ w ∈ ws, Apart w.1 d') :
    cnt d' (ws.map mkExt) = 0 := by
  rw [cnt_zero_iff]
  intro x hx
  obtain ⟨w, hw, rfl⟩ := List.mem_map.1 hx
  exact keyOf_mkExt_apart (hty w hw) (h w hw)

theorem cnt_news_self : ∀ (ws : List (D × Val)), (∀ w ∈ ws, w.2.ty = w.1.ty) → ws.Pairwise (fun w w' => Apart w.1 w'.1) →
    ∀ w ∈ ws, cnt w.1 (ws.map mkExt) = 1 := by
  intro ws
  induction ws with
  | nil => intro _ _ w hw; simp at hw
  | cons w0 rest ih =>
    intro hty hpw w hw
    rw [List.pairwise_cons] at hpw
    simp only [List.map_cons, cnt_cons]
    rcases List.mem_cons.1 hw with rfl | hw
    · rw [keyOf_mkExt_self w (hty w List.mem_cons_self)]
      rw [cnt_news_other (fun x hx => hty x (List.mem_cons_of_mem _ hx)) (fun x hx => (hpw.1 x hx).symm)]
      simp
    · rw [keyOf_mkExt_apart (hty w0 List.mem_cons_self) (hpw.1 w hw)]
      rw [ih (fun x hx => hty x (List.mem_cons_of_mem _ hx)) hpw.2 w hw]
      simp

/-- the invariant of a record of a variant with fields `ds` -/
structure RecInv (dr : String → Bool) (b : Buf) (ds : List D) : Prop where
  /-- every live droppable extent is the extent of one of the fields -/
  owned  : ∀ e ∈ b.exts, e.moved = false → dr e.val.ty = true → ∃ d ∈ ds, keyOf d e = true
  /-- no droppable field has two live extents -/
  atMost : ∀ d ∈ ds, dr d.ty = true → cnt d b.exts ≤ 1
  /-- every droppable field is there (plain-old-data fields may still be uninitialised) -/
  found  : ∀ d ∈ ds, dr d.ty = true → ∃ e, b.find d = some e

/-- a buffer filled by stores of pairwise apart, typed data into an empty buffer satisfies it -/
theorem RecInv.of_stores (dr : String → Bool) (cap : Nat) (ws : List (D × Val)) (b : Buf)
    (hs : storeAll dr ⟨cap, []⟩ ws = .ok b) (hty : ∀ w ∈ ws, w.2.ty = w.1.ty)
    (hpw : ws.Pairwise (fun w w' => Apart w.1 w'.1)) (ds : List D) (hsub : ∀ w ∈ ws, w.1 ∈ ds)
    (hrest : ∀ d ∈ ds, d ∉ ws.map (·.1) → dr d.ty = false ∧ ∀ w ∈ ws, Apart w.1 d) : RecInv dr b ds := by
  obtain ⟨he, _⟩ := storeAll_exts dr ws _ b hs hpw
  simp only [List.filter_nil, List.nil_append] at he
  refine ⟨?_, ?_, ?_⟩
  · intro e hem _ _
    rw [he] at hem
    obtain ⟨w, hw, rfl⟩ := List.mem_map.1 hem
    exact ⟨w.1, hsub w hw, keyOf_mkExt_self w (hty w hw)⟩
  · intro d hd _
    rw [he]
    by_cases hin : d ∈ ws.map (·.1)
    · obtain ⟨w, hw, rfl⟩ := List.mem_map.1 hin
      rw [cnt_news_self ws hty hpw w hw]
      exact Nat.le_refl _
    · rw [cnt_news_other hty (hrest d hd hin).2]; omega
  · intro d hd hdr
    by_cases hin : d ∈ ws.map (·.1)
    · obtain ⟨w, hw, rfl⟩ := List.mem_map.1 hin
      have : 0 < cnt w.1 b.exts := by rw [he, cnt_news_self ws hty hpw w hw]; omega
      cases hf : b.find w.1 with
      | some e => exact ⟨e, rfl⟩
      | none => rw [find_eq, find_none_iff_cnt] at hf; omega
    · have := (hrest d hd hin).1; rw [this] at hdr; simp at hdr

end Truc.Mach

namespace Truc.Mach
open Truc.Gen

theorem apart_of_pairwise {ds : List D} (h : ds.Pairwise Apart) {a b : D} (ha : a ∈ ds) (hb : b ∈ ds) (hne : a ≠ b) : Apart a b := by
  induction ds with
  | nil => simp at ha
  | cons x xs ih =>
    rw [List.pairwise_cons] at h
    rcases List.mem_cons.1 ha with ha1 | ha1
    · rcases List.mem_cons.1 hb with hb1 | hb1
      · exact absurd (ha1.trans hb1.symm) hne
      · rw [ha1]; exact h.1 b hb1
    · rcases List.mem_cons.1 hb with hb1 | hb1
      · rw [hb1]; exact (h.1 a ha1).symm
      · exact ih h.2 ha1 hb1

/-- an extent with `d`'s key does not overlap a datum apart from `d` -/
theorem no_overlap_of_key {d p : D} {e : Ext} (hk : keyOf d e = true) (hap : Apart p d) : overlaps e p.offset p.size = false := by
  unfold keyOf at hk
  simp only [Bool.and_eq_true, beq_iff_eq, Bool.not_eq_eq_eq_not, Bool.not_true] at hk
  unfold overlaps
  cases hh : (decide (e.off < p.offset + p.size) && decide (p.offset < e.off + e.size) && decide (0 < p.size) && decide (0 < e.size)) with
  | false => rfl
  | true =>
    exfalso
    simp only [Bool.and_eq_true, decide_eq_true_eq] at hh
    have := hap.1
    omega

/-- how the fields of two consecutive variants relate -/
structure ConvWF (cap : Nat) (ds0 ds1 minus plus : List D) : Prop where
  wf0 : WFData cap ds0
  wf1 : WFData cap ds1
  minusSub : minus.Sublist ds0
  plusSub  : plus.Sublist ds1
  carried01 : ∀ d ∈ ds0, d ∉ minus → d ∈ ds1 ∧ d ∉ plus
  carried10 : ∀ d ∈ ds1, d ∉ plus → d ∈ ds0 ∧ d ∉ minus

/-- the buffer after the removed fields have been read out clobbers nothing owned when the added
    fields are stored, and holds no stale live extent under an added field's key -/
theorem conv_free (dr : String → Bool) {cap : Nat} {ds0 ds1 minus plus : List D} (hw : ConvWF cap ds0 ds1 minus plus)
    {b0 b1 : Buf} (hinv : RecInv dr b0 ds0)
    (hlive : ∀ x ∈ b1.exts, x.moved = false → x ∈ b0.exts)
    (hcnt : ∀ d ∈ minus, dr d.ty = true → cnt d b1.exts = cnt d b0.exts - 1)
    (hz : ∀ p ∈ plus, p.size = 0 → dr p.ty = true) :
    ∀ p ∈ plus, FreeFor dr b1 p ∧ FreshKey b1 p := by
  -- a live droppable extent of b1 belongs to a carried-over field
  have hcarried : ∀ e ∈ b1.exts, e.moved = false → dr e.val.ty = true → ∃ d ∈ ds1, d ∉ plus ∧ keyOf d e = true := by
    intro e he hm hd
    obtain ⟨d, hd0, hk⟩ := hinv.owned e (hlive e he hm) hm hd
    have hdty : dr d.ty = true := by
      unfold keyOf at hk
      simp only [Bool.and_eq_true, beq_iff_eq] at hk
      rw [← hk.1.2]; exact hd
    by_cases hmin : d ∈ minus
    · exfalso
      have h1 := hcnt d hmin hdty
      have h2 := hinv.atMost d hd0 hdty
      have h0 : cnt d b1.exts = 0 := by omega
      rw [cnt_zero_iff] at h0
      rw [h0 e he] at hk; simp at hk
    · obtain ⟨h1, h2⟩ := hw.carried01 d hd0 hmin
      exact ⟨d, h1, h2, hk⟩
  intro p hp
  have hp1 : p ∈ ds1 := hw.plusSub.subset hp
  constructor
  · intro e he hov
    by_cases hm : e.moved = true
    · left; exact hm
    · by_cases hd : dr e.val.ty = true
      · exfalso
        obtain ⟨d, hd1, hnp, hk⟩ := hcarried e he (by simpa using hm) hd
        have hne : p ≠ d := fun h => hnp (h ▸ hp)
        rw [no_overlap_of_key hk (apart_of_pairwise hw.wf1.apart hp1 hd1 hne)] at hov
        simp at hov
      · right; simpa using hd
  · intro e he hov
    cases hk : keyOf p e with
    | false => rfl
    | true =>
      exfalso
      have hk' := hk
      unfold keyOf at hk'
      simp only [Bool.and_eq_true, beq_iff_eq, Bool.not_eq_eq_eq_not, Bool.not_true] at hk'
      by_cases hs : 0 < p.size
      · -- same non-empty range: they overlap
        unfold overlaps at hov
        have : (decide (e.off < p.offset + p.size) && decide (p.offset < e.off + e.size) && decide (0 < p.size) && decide (0 < e.size)) = true := by
          simp only [Bool.and_eq_true, decide_eq_true_eq]
          omega
        rw [this] at hov; simp at hov
      · have hsz : p.size = 0 := by omega
        have hdp := hz p hp hsz
        have hde : dr e.val.ty = true := by rw [hk'.1.2]; exact hdp
        obtain ⟨d, hd1, hnp, hkd⟩ := hcarried e he hk'.2 hde
        have hne : p ≠ d := fun h => hnp (h ▸ hp)
        exact key_transfer hk hkd (apart_of_pairwise hw.wf1.apart hp1 hd1 hne).2

end Truc.Mach

namespace Truc.Mach
open Truc.Gen

theorem zip_fst_mem {ds : List D} {vals : List Val} {w : D × Val} (h : w ∈ ds.zip vals) : w.1 ∈ ds := (List.of_mem_zip h).1

theorem mem_zip_of_mem {ds : List D} {vals : List Val} (hl : vals.length = ds.length) {d : D} (hd : d ∈ ds) :
    ∃ v, (d, v) ∈ ds.zip vals := by
  obtain ⟨i, hi, rfl⟩ := List.mem_iff_getElem.1 hd
  exact ⟨vals[i]'(by omega), by rw [List.mem_iff_getElem]; exact ⟨i, by simp [hl]; exact hi, by simp⟩⟩

/-- **the conversion at buffer level**: read the removed fields out of the old record, then store the
    (written) added fields into the same bytes -/
theorem conv_buffers (dr : String → Bool) {cap : Nat} {ds0 ds1 minus plus : List D} (hw : ConvWF cap ds0 ds1 minus plus)
    (b0 : Buf) (hcap : b0.cap = cap) (hinv : RecInv dr b0 ds0)
    (plusW : List D) (hsubW : plusW.Sublist plus) (hunw : ∀ d ∈ plus, d ∉ plusW → dr d.ty = false)
    (vals : List Val) (hl : vals.length = plusW.length) (hty : ∀ p ∈ plusW.zip vals, p.2.ty = p.1.ty)
    (hz : ∀ p ∈ plus, p.size = 0 → dr p.ty = true) :
    ∃ b1 b2, loadAll dr b0 minus = .ok (minus.map (valOf b0), b1) ∧ b1.cap = cap ∧
      storeAll dr b1 (plusW.zip vals) = .ok b2 ∧ b2.cap = cap ∧
      (∀ p ∈ plusW.zip vals, b2.find p.1 = some (mkExt p)) ∧
      (∀ d ∈ ds1, d ∉ plus → b2.find d = b0.find d) ∧
      RecInv dr b2 ds1 := by
  have hminus0 : ∀ d ∈ minus, d ∈ ds0 := fun d hd => hw.minusSub.subset hd
  have hplus1 : ∀ d ∈ plus, d ∈ ds1 := fun d hd => hw.plusSub.subset hd
  have hW1 : ∀ d ∈ plusW, d ∈ plus := fun d hd => hsubW.subset hd
  -- reads
  obtain ⟨b1, hload, hc1, hlive, hself, hother⟩ := loadAll_gen dr minus b0
    (fun d hd => by rw [hcap]; exact hw.wf0.inCap d (hminus0 d hd))
    (fun d hd => by
      by_cases hdr : dr d.ty = true
      · left; exact hinv.found d (hminus0 d hd) hdr
      · right; simpa using hdr)
    ((hw.wf0.apart.sublist hw.minusSub).imp (fun h => h.2))
  have hfree := conv_free dr hw hinv hlive hself hz
  -- stores
  have hpwW : (plusW.zip vals).Pairwise (fun w w' => Apart w.1 w'.1) :=
    zip_pairwise_apart ((hw.wf1.apart.sublist hw.plusSub).sublist hsubW)
  obtain ⟨b2, hs, hc2, hfound, hframe, _⟩ := storeAll_ok dr (plusW.zip vals) b1
    (fun w hwm => ⟨hty w hwm, by rw [hc1, hcap]; exact hw.wf1.inCap w.1 (hplus1 _ (hW1 _ (zip_fst_mem hwm))),
      (hfree w.1 (hW1 _ (zip_fst_mem hwm))).1, (hfree w.1 (hW1 _ (zip_fst_mem hwm))).2⟩) hpwW
  obtain ⟨hexts, _⟩ := storeAll_exts dr (plusW.zip vals) b1 b2 hs hpwW
  -- a carried-over field: other key than every removed field, apart from every added one
  have hcar : ∀ d ∈ ds1, d ∉ plus → (∀ m ∈ minus, KeyNe m d) ∧ (∀ w ∈ plusW.zip vals, Apart w.1 d) := by
    intro d hd1 hnp
    obtain ⟨hd0, hnm⟩ := hw.carried10 d hd1 hnp
    refine ⟨fun m hm => (apart_of_pairwise hw.wf0.apart (hminus0 m hm) hd0 (fun h => hnm (h ▸ hm))).2, ?_⟩
    intro w hwm
    have hwp := hW1 _ (zip_fst_mem hwm)
    exact apart_of_pairwise hw.wf1.apart (hplus1 _ hwp) hd1 (fun h => hnp (h ▸ hwp))
  have hcarfind : ∀ d ∈ ds1, d ∉ plus → b2.find d = b0.find d := by
    intro d hd1 hnp
    obtain ⟨h1, h2⟩ := hcar d hd1 hnp
    rw [hframe d h2, (hother d h1).2]
  refine ⟨b1, b2, hload, by rw [hc1, hcap], hs, by rw [hc2, hc1, hcap], hfound, hcarfind, ?_⟩
  -- the invariant of the new record
  have htyW : ∀ w ∈ plusW.zip vals, w.2.ty = w.1.ty := hty
  refine ⟨?_, ?_, ?_⟩
  · intro e he hm hd
    rw [hexts] at he
    rcases List.mem_append.1 he with he | he
    · have he1 : e ∈ b1.exts := (List.mem_filter.1 he).1
      obtain ⟨d, hd0, hk⟩ := hinv.owned e (hlive e he1 hm) hm hd
      have hdty : dr d.ty = true := by
        unfold keyOf at hk
        simp only [Bool.and_eq_true, beq_iff_eq] at hk
        rw [← hk.1.2]; exact hd
      by_cases hmin : d ∈ minus
      · exfalso
        have h1 := hself d hmin hdty
        have h2 := hinv.atMost d hd0 hdty
        have h0 : cnt d b1.exts = 0 := by omega
        rw [cnt_zero_iff] at h0
        rw [h0 e he1] at hk; simp at hk
      · exact ⟨d, (hw.carried01 d hd0 hmin).1, hk⟩
    · obtain ⟨w, hwm, rfl⟩ := List.mem_map.1 he
      exact ⟨w.1, hplus1 _ (hW1 _ (zip_fst_mem hwm)), keyOf_mkExt_self w (htyW w hwm)⟩
  · intro d hd1 hdr
    rw [hexts, cnt_append]
    by_cases hp : d ∈ plus
    · -- an added droppable field is written (unwritten ones are plain-old-data)
      have hdW : d ∈ plusW := by
        by_cases h : d ∈ plusW
        · exact h
        · have := hunw d hp h; rw [this] at hdr; simp at hdr
      obtain ⟨v, hv⟩ := mem_zip_of_mem hl hdW
      have h1 : cnt d (b1.exts.filter (clearOf (plusW.zip vals))) = 0 := by
        rw [cnt_zero_iff]
        intro x hx
        have hx1 := List.mem_filter.1 hx
        have hclear : overlaps x d.offset d.size = false := by
          have := hx1.2
          unfold clearOf at this
          rw [List.all_eq_true] at this
          simpa using this (d, v) hv
        exact (hfree d hp).2 x hx1.1 hclear
      have h2 := cnt_news_self (plusW.zip vals) htyW hpwW (d, v) hv
      simp only at h2
      omega
    · obtain ⟨hd0, hnm⟩ := hw.carried10 d hd1 hp
      have h1 : cnt d (b1.exts.filter (clearOf (plusW.zip vals))) ≤ cnt d b1.exts := cnt_sublist List.filter_sublist
      have h2 : cnt d ((plusW.zip vals).map mkExt) = 0 := cnt_news_other htyW (hcar d hd1 hp).2
      have h3 := (hother d (hcar d hd1 hp).1).1
      have h4 := hinv.atMost d hd0 hdr
      omega
  · intro d hd1 hdr
    by_cases hp : d ∈ plus
    · have hdW : d ∈ plusW := by
        by_cases h : d ∈ plusW
        · exact h
        · have := hunw d hp h; rw [this] at hdr; simp at hdr
      obtain ⟨v, hv⟩ := mem_zip_of_mem hl hdW
      exact ⟨_, hfound (d, v) hv⟩
    · rw [hcarfind d hd1 hp]
      exact hinv.found d (hw.carried10 d hd1 hp).1 hdr

end Truc.Mach
