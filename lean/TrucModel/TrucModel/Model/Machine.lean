import TrucModel.Model.Gen
/-
  Abstract machine for the generated straight-line functions: a record buffer is a list of typed
  *extents*; a store clobbers whatever it overlaps; a load needs an exact live extent.  The rules that
  the unsafe primitives rely on are explicit errors (`MErr`).
-/
namespace Truc.Mach
open Truc.Gen

structure Val where
  id : Nat
  ty : String
deriving Repr, DecidableEq, Inhabited

structure Ext where
  off   : Nat
  size  : Nat
  val   : Val
  moved : Bool          -- a droppable value that has been read out (its bytes are dead)
deriving Repr, DecidableEq, Inhabited

structure Buf where
  cap  : Nat
  exts : List Ext
deriving Repr, DecidableEq, Inhabited

inductive MErr where
  | oob | storeOverOwned | readMoved | noBuffer | missingField | doubleFree
deriving Repr, DecidableEq, Inhabited

/-- kind, offset, type of one primitive call -/
abbrev Access := String × Nat × String

inductive Result where
  | none
  | record (b : Buf)
  | struct (fields : List (String × Val)) (rec : Option Buf)
  | ref (v : Val)
deriving Repr, DecidableEq, Inhabited

structure St where
  self_      : Option Buf := none
  selfGlue   : Option (List D) := none        -- by-value `self`: fields its Drop would read at scope end
  from_      : Option Buf := none
  fromGlue   : Option (List D) := none
  data       : Option Buf := none
  args       : List (String × List (String × Val)) := []
  locals     : List (String × Val) := []
  result     : Result := .none
  drops      : List Val := []
  acc        : List Access := []
deriving Repr, Inhabited

/-- two byte ranges share a byte (zero-size values occupy no byte) -/
def overlaps (e : Ext) (off size : Nat) : Bool := e.off < off + size && off < e.off + e.size && 0 < size && 0 < e.size

def Buf.find (b : Buf) (d : D) : Option Ext :=
  b.exts.find? (fun e => e.off == d.offset && e.size == d.size && e.val.ty == d.ty && !e.moved)

def markFirst (d : D) : List Ext → List Ext
  | [] => []
  | e :: es =>
    if e.off == d.offset && e.size == d.size && e.val.ty == d.ty && !e.moved then { e with moved := true } :: es
    else e :: markFirst d es

def Buf.markMoved (b : Buf) (d : D) : Buf := { b with exts := markFirst d b.exts }

/-- `ptr::write` of a `d`-typed value at `d.offset` -/
def Buf.store (dr : String → Bool) (b : Buf) (d : D) (v : Val) : Except MErr Buf :=
  if d.offset + d.size > b.cap then .error .oob
  else if b.exts.any (fun e => overlaps e d.offset d.size && !e.moved && dr e.val.ty) then .error .storeOverOwned
  else .ok { b with exts := b.exts.filter (fun e => !(overlaps e d.offset d.size))
                              ++ [⟨d.offset, d.size, v, false⟩] }

/-- `ptr::read`: moves a droppable value out; plain-old-data may be read from uninitialised bytes -/
def Buf.load (dr : String → Bool) (b : Buf) (d : D) : Except MErr (Val × Buf) :=
  if d.offset + d.size > b.cap then .error .oob
  else match b.find d with
    | some e => .ok (e.val, if dr d.ty then b.markMoved d else b)
    | none => if dr d.ty then .error .readMoved else .ok (⟨0, d.ty⟩, b)

def takeField (fields : List (String × Val)) (name : String) : Option (Val × List (String × Val)) :=
  match fields.find? (fun p => p.1 == name) with
  | some p => some (p.2, fields.filter (fun q => q.1 != name))
  | none => none

def St.recvBuf (st : St) (recv : String) : Option Buf := if recv == "self" then st.self_ else st.from_
def St.setRecv (st : St) (recv : String) (b : Buf) : St :=
  if recv == "self" then { st with self_ := some b } else { st with from_ := some b }

def step (dr : String → Bool) (cap : Nat) (st : St) : Stmt → Except MErr St
  | .letBuf _ => .ok { st with data := some ⟨cap, []⟩ }
  | .safeFrom bind _ _ arg =>
    .ok { st with args := st.args.map fun (n, fs) => if n == arg then (bind, fs) else (n, fs) }
  | .write d src =>
    match st.data, st.args.find? (fun a => a.1 == src) with
    | some b, some (_, fs) =>
      match takeField fs d.name with
      | none => .error .missingField
      | some (v, fs') =>
        match b.store dr d v with
        | .error e => .error e
        | .ok b' => .ok { st with data := some b', acc := st.acc ++ [("write", d.offset, d.ty)],
                                   args := st.args.map fun (n, f) => if n == src then (n, fs') else (n, f) }
    | _, _ => .error .noBuffer
  | .readLet bind d recv =>
    match st.recvBuf recv with
    | none => .error .noBuffer
    | some b =>
      match b.load dr d with
      | .error e => .error e
      | .ok (v, b') => .ok { (st.setRecv recv b') with locals := st.locals ++ [(bind, v)], acc := st.acc ++ [("read", d.offset, d.ty)] }
  | .forgetSelf => .ok { st with selfGlue := none }
  | .manuallyDrop => .ok { st with fromGlue := none }
  | .copyBuf _ => match st.from_ with
    | some b => .ok { st with data := some b }
    | none => .error .noBuffer
  | .retSelfData => match st.data with
    | some b => .ok { st with result := .record b, data := none }
    | none => .error .noBuffer
  | .letRecord _ => match st.data with
    | some b => .ok { st with result := .record b, data := none }
    | none => .error .noBuffer
  | .retStruct _ fields =>
    let names := fields.filter (· != "record")
    let vals := names.filterMap fun n => (st.locals.find? (fun p => p.1 == n)).map (fun p => (n, p.2))
    if vals.length != names.length then .error .missingField
    else
      let rec_ := match st.result with | .record b => some b | _ => none
      .ok { st with result := .struct vals rec_, locals := st.locals.filter (fun p => !names.contains p.1) }
  | .get d => match st.self_ with
    | none => .error .noBuffer
    | some b =>
      if d.offset + d.size > b.cap then .error .oob
      else match b.find d with
        | some e => .ok { st with result := .ref e.val, acc := st.acc ++ [("get", d.offset, d.ty)] }
        | none => if dr d.ty then .error .readMoved else .ok { st with result := .ref ⟨0, d.ty⟩, acc := st.acc ++ [("get", d.offset, d.ty)] }
  | .getMut d => match st.self_ with
    | none => .error .noBuffer
    | some b =>
      if d.offset + d.size > b.cap then .error .oob
      else match b.find d with
        | some e => .ok { st with result := .ref e.val, acc := st.acc ++ [("get_mut", d.offset, d.ty)] }
        | none => if dr d.ty then .error .readMoved else .ok { st with result := .ref ⟨0, d.ty⟩, acc := st.acc ++ [("get_mut", d.offset, d.ty)] }
  | .raw _ => .ok st

def run (dr : String → Bool) (cap : Nat) : List Stmt → St → Except MErr St
  | [], st => .ok st
  | s :: rest, st => match step dr cap st s with
    | .error e => .error e
    | .ok st' => run dr cap rest st'

/-- Drop glue of a record still owned at scope end: its `drop` reads every field -/
def glue (dr : String → Bool) (b : Buf) : List D → Except MErr (List Val)
  | [] => .ok []
  | d :: ds => match b.load dr d with
    | .error _ => .error .doubleFree
    | .ok (v, b') => match glue dr b' ds with
      | .error e => .error e
      | .ok vs => .ok (if dr d.ty then v :: vs else vs)

/-- end of scope: locals, leftover argument fields, by-value records not forgotten / wrapped -/
def finish (dr : String → Bool) (st : St) : Except MErr St :=
  let l := (st.locals.map (·.2)).filter (fun v => dr v.ty)
  let a := ((st.args.map (·.2)).flatten.map (·.2)).filter (fun v => dr v.ty)
  let g1 := match st.selfGlue, st.self_ with | some ds, some b => glue dr b ds | _, _ => .ok []
  let g2 := match st.fromGlue, st.from_ with | some ds, some b => glue dr b ds | _, _ => .ok []
  match g1, g2 with
  | .ok x, .ok y => .ok { st with drops := st.drops ++ l ++ a ++ x ++ y, locals := [], args := [] }
  | .error e, _ => .error e
  | _, .error e => .error e

def call (dr : String → Bool) (cap : Nat) (f : Fn) (st : St) : Except MErr St :=
  match run dr cap f.body st with
  | .error e => .error e
  | .ok st' => finish dr st'

def setFirst (d : D) (v : Val) : List Ext → List Ext
  | [] => []
  | e :: es =>
    if e.off == d.offset && e.size == d.size && e.val.ty == d.ty && !e.moved then { e with val := v } :: es
    else e :: setFirst d v es

/-- assignment through a `&mut T` obtained from `get_mut` : the old value (if any) is dropped -/
def Buf.assign (dr : String → Bool) (b : Buf) (d : D) (v : Val) : Buf × List Val :=
  match b.find d with
  | some e => ({ b with exts := setFirst d v b.exts }, if dr d.ty then [e.val] else [])
  | none => ({ b with exts := b.exts ++ [⟨d.offset, d.size, v, false⟩] }, [])

end Truc.Mach
