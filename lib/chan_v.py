"""Channel V: try_convert_vec_in_place vs the Lean slot machine, debug and optimised builds."""
import json, os, shutil, subprocess, time
from concurrent.futures import ThreadPoolExecutor
from common import *


def build():
    ok1, out1 = cargo_build(["chan_v"], release=False)
    rc, out, err = sh(["cargo", "build", "--offline", "--profile", "opt", "--bin", "chan_v"], cwd=HARNESS, timeout=3600)
    return ok1 and rc == 0, out1 + out + err


def bins():
    return {"debug": os.path.join(TARGET, "debug", "chan_v"), "opt": os.path.join(TARGET, "opt", "chan_v")}


def _run(args):
    prof, binp, mode, seed, count, outdir = args
    os.makedirs(outdir, exist_ok=True)
    rc, out, err = sh([binp, mode, str(seed), str(count), outdir], timeout=1200)
    if rc != 0:
        r = {"dir": outdir, "error": f"chan_v({prof}) rc={rc}: {err[-400:]}"}
        cp = os.path.join(outdir, "cur.txt")
        if rc not in (124, 101, 2) and os.path.exists(cp):
            # the process died (signal / abort) while the real conversion ran this script
            t = open(cp).read().strip().split(" ")
            if len(t) >= 2 and t[0].replace("-w", "") in PAIRS:
                lay = PAIRS[t[0].replace("-w", "")]
                r["crash"] = f"vec {lay[0]} {lay[1]} {lay[2]} {lay[3]} {t[1]} " + " ".join(t[2:]) + (" pair=pad" if t[0] == "pad" else "")
                r["profile"] = prof
        return r
    with open(os.path.join(outdir, "req.txt")) as fin, open(os.path.join(outdir, "model.txt"), "w") as fout:
        p = subprocess.run([DRV], stdin=fin, stdout=fout, stderr=subprocess.PIPE, text=True)
    if p.returncode != 0:
        return {"dir": outdir, "error": f"driver rc={p.returncode}"}
    return {"dir": outdir, "profile": prof}


def run(seed, tier):
    key = f"{repo_hash()}-{machinery_hash()}"
    base = os.path.join(WORK, "cache", key, f"V-{seed}-{tier}")
    marker = os.path.join(base, "done.json")
    if os.path.exists(marker) and not os.environ.get("VERIF_NO_CACHE"):
        info = json.load(open(marker)); info["cached"] = True
        return info
    if os.path.exists(base):
        shutil.rmtree(base)
    os.makedirs(base)
    maxlen = 5 if tier == "quick" else 6
    nrand = 1500 if tier == "quick" else 40000
    jobs = []
    import glob
    for prof, b in bins().items():
        for i, c in enumerate(sorted(glob.glob(os.path.join(VERIF, "corpus", "V-*.txt")))):
            jobs.append((prof, b, f"file:{c}", 0, 0, os.path.join(base, f"{prof}-corpus{i}")))
        jobs.append((prof, b, f"exhaustive:{maxlen}", 0, 0, os.path.join(base, f"{prof}-exh")))
        for i in range(4):
            jobs.append((prof, b, "random", seed * 100 + i, nrand, os.path.join(base, f"{prof}-rand{i}")))
    t0 = time.time()
    with ThreadPoolExecutor(max_workers=12) as pool:
        results = list(pool.map(_run, jobs))
    info = {"dirs": [r["dir"] for r in results if "error" not in r], "errors": [r for r in results if "error" in r],
            "wall": time.time() - t0, "computed_at": time.strftime("%Y-%m-%dT%H:%M:%S"), "cached": False, "maxlen": maxlen}
    json.dump(info, open(marker, "w"))
    return info


FAIL = {"e", "p1", "p2", "p3"}
PAIRS = {"plain": (8, 4, 8, 4), "pad": (8, 4, 8, 4), "heap": (16, 8, 16, 8), "big": (4096, 8, 4096, 8), "over": (64, 64, 64, 64), "ne-size": (8, 4, 16, 8),
         "ne-align": (16, 4, 16, 8), "ne-both": (8, 4, 16, 16), "ne-heap": (16, 8, 8, 4), "ne-align-down": (16, 8, 16, 4),
         "ne-align-down2": (16, 16, 16, 8), "ne-size-down": (16, 8, 8, 4)}


def oracle(req, ans):
    """independent check of one implementation answer against the property statements; returns [(prop, msg)]"""
    t = req.split(" ")
    sT, aT, sU, aU, n = map(int, t[1:6])
    script = t[6:6 + n]
    hits = []
    kv = dict(x.split("=", 1) for x in ans.split(" ")[1:] if "=" in x)
    kind = ans.split(" ")[0]
    mismatch = (sT != sU) or (aT != aU)
    allT = sorted(f"T{i}" for i in range(n))
    if mismatch:
        if kind != "refused":
            hits.append(("C10", f"layouts {sT}/{aT} vs {sU}/{aU} differ but the conversion was not refused: {kind}"))
        else:
            if sorted(x for x in kv.get("fndrops", "").split(",") if x) != allT:
                hits.append(("C10", "refused, but the input elements were not each dropped exactly once"))
            if kv.get("calls", ""):
                hits.append(("C10", "converter called although the conversion was refused"))
        return hits
    if kind == "refused":
        return [("C10", "equal layouts refused")]
    calls = [c for c in kv.get("calls", "").split("|") if c]
    conv = {}
    for part in kv.get("convdrops", "").split(";"):
        if part:
            k, d = part.split(":", 1)
            conv[int(k)] = [x for x in d.split(",") if x]
    fnd = [x for x in kv.get("fndrops", "").split(",") if x]
    first_fail = next((k for k, c in enumerate(script) if c in FAIL), None)
    tdrops = sorted([x for d in conv.values() for x in d if x.startswith("T")] + [x for x in fnd if x.startswith("T")])
    # the converter must see the most recently produced output, as left by the previous calls
    outs_now = []
    for k, c in enumerate(calls):
        want = f"U{outs_now[-1][0]}.{outs_now[-1][1]}" if outs_now else "-"
        got = c.split(":", 1)[1] if ":" in c else "?"
        if got != want:
            hits.append(("C08", f"call {k} received previous output {got}, the most recent output is {want}"))
            break
        code = script[k] if k < len(script) else "c"
        if outs_now and code in ("t", "ta"):
            outs_now[-1] = (outs_now[-1][0], outs_now[-1][1] + 1)
        if outs_now and code in ("r", "ra"):
            outs_now[-1] = (200000 + k, 0)
        if code in ("c", "t", "r"):
            outs_now.append((100000 + k, 0))
    if kind == "done":
        p = "C08"
        if first_fail is not None:
            hits.append(("C09", f"script fails at call {first_fail} but the conversion returned Ok"))
        if [c.split(":")[0] for c in calls] != [f"T{i}" for i in range(n)]:
            hits.append((p, "converter did not receive each input exactly once in order"))
        outs = [x for x in kv.get("outs", "").split(",") if x]
        if len(outs) != sum(1 for c in script if c in ("c", "t", "r")):
            hits.append((p, f"{len(outs)} outputs for {script}"))
        if kv.get("alloc") != "same":
            hits.append((p, "result does not reuse the input allocation/capacity"))
        if "fn-dropped" in kv:
            hits.append((p, "the function dropped elements on the success path: " + kv["fn-dropped"]))
        if tdrops != allT:
            hits.append((p, "inputs not each consumed exactly once"))
        want_outs = [f"U{i}.{v}" for (i, v) in outs_now]
        if outs != want_outs:
            hits.append((p, f"result holds {outs}, the converter produced {want_outs}"))
    elif kind == "failed":
        p = "C09"
        if first_fail is None:
            hits.append((p, "failed although no call of the script fails"))
            return hits
        k = first_fail
        if len(calls) != k + 1:
            hits.append((p, f"{len(calls)} converter calls, expected {k + 1} (no call after the failure)"))
        want = (f"e{300000 + k}" if script[k] == "e" else f"p{400000 + k}")
        if kv.get("why") != want:
            hits.append((p, f"caller received {kv.get('why')} instead of the converter's own {want}"))
        if kv.get("alloc") != "freed":
            hits.append((p, "the vector's allocation was not released"))
        if tdrops != allT:
            hits.append((p, f"inputs dropped {tdrops}, expected each of {n} exactly once"))
        # every output still alive at the failure is dropped exactly once by the function
        us = [x for x in fnd if x.startswith("U")]
        if len(us) != len(set(us)):
            hits.append((p, "an output was dropped twice"))
        alive = 0
        for j in range(k):
            if script[j] in ("c", "t", "r"):
                alive += 1
        if len(us) != alive:
            hits.append((p, f"{len(us)} outputs dropped by the cleanup, {alive} were alive"))
    else:
        hits.append(("C09", "unexpected answer " + ans[:80]))
    return hits


def analyse(dirs):
    res = {"scripts": 0, "disagreements": [], "oracle": [], "distinct": set(), "nontrivial": set(), "samples": [],
           "by_kind": {}, "by_len": {}, "zst": 0, "zst_bad": []}
    for d in dirs:
        req = open(os.path.join(d, "req.txt")).read().splitlines()
        imp = open(os.path.join(d, "impl.txt")).read().splitlines()
        mod = open(os.path.join(d, "model.txt")).read().splitlines()
        prof = os.path.basename(d).split("-")[0]
        for i, r in enumerate(req):
            res["scripts"] += 1
            a = imp[i] if i < len(imp) else "<missing>"
            m = mod[i] if i < len(mod) else "<missing>"
            res["distinct"].add(r)
            t = r.split(" ")
            n = int(t[5])
            kind = a.split(" ")[0]
            res["by_kind"][kind] = res["by_kind"].get(kind, 0) + 1
            res["by_len"][min(n, 25)] = res["by_len"].get(min(n, 25), 0) + 1
            if n >= 2 and len(set(t[6:])) >= 2:
                res["nontrivial"].add(r)
            if a != m and len(res["disagreements"]) < 50:
                res["disagreements"].append({"profile": prof, "request": r, "impl": a, "model": m})
            elif a != m:
                res["disagreements"].append(None) if False else None
            for (p, msg) in oracle(r, a):
                if len(res["oracle"]) < 200:
                    res["oracle"].append({"property": p, "message": msg, "request": r, "impl": a, "profile": prof})
            if len(res["samples"]) < 3 and n >= 3 and i % 501 == 7:
                res["samples"].append({"request": r, "impl": a})
        res["n_disagree"] = res.get("n_disagree", 0) + sum(1 for i in range(len(req)) if (imp[i] if i < len(imp) else "") != (mod[i] if i < len(mod) else ""))
        for l in open(os.path.join(d, "zst.txt")):
            parts = [x.strip() for x in l.split("|")]
            res["zst"] += 1
            if len(parts) == 3 and parts[1] != parts[2]:
                res["zst_bad"].append({"script": parts[0], "impl": parts[1], "expected": parts[2], "profile": prof})
    res["distinct"] = len(res["distinct"]); res["nontrivial"] = len(res["nontrivial"])
    return res
