import TrucModel.Proofs.Close
/-
  `simple`: the gap invariant and its preservation.
-/
namespace Truc

structure GapOk (defs : Defs) (l : List Nat) (g : Gap) : Prop where
  pos    : g.start < g.stop
  idx    : g.idx < l.length
  before : ∀ e ∈ l.take g.idx, stop defs e ≤ g.start
  after  : ∀ e ∈ l.drop g.idx, g.stop ≤ off defs e

structure GInv (defs : Defs) (l : List Nat) (gaps : List Gap) : Prop where
  ok  : ∀ g ∈ gaps, GapOk defs l g
  inc : gaps.Pairwise (fun g h => g.idx < h.idx)

/-! ### positions in a list after an insertion -/

section ins
variable {l : List Nat} {k j id e : Nat}

theorem ins_take_le (hjk : j ≤ k) (hk : k ≤ l.length) : (l.take k ++ id :: l.drop k).take j = l.take j := by
  rw [List.take_append_of_le_length (by simp; omega), List.take_take]
  congr 1; omega

theorem ins_drop_le_mem (hjk : j ≤ k) (hk : k ≤ l.length) (he : e ∈ (l.take k ++ id :: l.drop k).drop j) :
    e = id ∨ e ∈ l.drop j := by
  rw [List.drop_append_of_le_length (by simp; omega), List.mem_append] at he
  rcases he with he | he
  · right
    rw [List.drop_take] at he
    exact List.mem_of_mem_take he
  · rcases List.mem_cons.1 he with rfl | he
    · left; rfl
    · right
      have : l.drop k = (l.drop j).drop (k - j) := by rw [List.drop_drop]; congr 1; omega
      rw [this] at he
      exact List.mem_of_mem_drop he

theorem ins_take_gt_mem (hkj : k < j) (hk : k ≤ l.length) (he : e ∈ (l.take k ++ id :: l.drop k).take j) :
    e = id ∨ e ∈ l.take (j - 1) := by
  rw [List.take_append, List.mem_append] at he
  have hlen : (l.take k).length = k := by simp; omega
  rcases he with he | he
  · right
    have h1 := List.mem_of_mem_take he
    have : l.take k = (l.take (j - 1)).take k := by rw [List.take_take]; congr 1; omega
    rw [this] at h1
    exact List.mem_of_mem_take h1
  · rw [hlen] at he
    obtain ⟨m, hm⟩ : ∃ m, j - k = m + 1 := ⟨j - k - 1, by omega⟩
    rw [hm, List.take_succ_cons] at he
    rcases List.mem_cons.1 he with rfl | he
    · left; rfl
    · right
      rw [List.take_drop] at he
      have h1 := List.mem_of_mem_drop he
      have : k + m = j - 1 := by omega
      rw [this] at h1; exact h1

theorem ins_drop_gt (hkj : k < j) (hk : k ≤ l.length) : (l.take k ++ id :: l.drop k).drop j = l.drop (j - 1) := by
  have hlen : (l.take k).length = k := by simp; omega
  rw [List.drop_append, hlen]
  obtain ⟨m, hm⟩ : ∃ m, j - k = m + 1 := ⟨j - k - 1, by omega⟩
  rw [hm, List.drop_succ_cons, List.drop_drop, List.drop_eq_nil_of_le (by omega)]
  simp; congr 1; omega

end ins

/-! ### initial gaps -/

theorem initialGapsFrom_ok (defs : Defs) (l : List Nat) (hs : Sorted defs l) :
    ∀ (rest pre : List Nat) (last : Nat), l = pre ++ rest → (∀ e ∈ pre, stop defs e ≤ last) →
      (∀ g ∈ initialGapsFrom defs rest pre.length last, GapOk defs l g ∧ pre.length ≤ g.idx) ∧
      (initialGapsFrom defs rest pre.length last).Pairwise (fun g h => g.idx < h.idx) := by
  intro rest
  induction rest with
  | nil => intro pre last _ _; simp [initialGapsFrom]
  | cons d rest ih =>
    intro pre last hl hpre
    have hl' : l = (pre ++ [d]) ++ rest := by simp [hl]
    have hsorted : (pre ++ d :: rest).Pairwise (fun a b => stop defs a ≤ off defs b) := hl ▸ hs
    rw [List.pairwise_append, List.pairwise_cons] at hsorted
    have hpre' : ∀ e ∈ pre ++ [d], stop defs e ≤ stop defs d := by
      intro e he
      rcases List.mem_append.1 he with he | he
      · have := hsorted.2.2 e he d List.mem_cons_self
        unfold stop at *; omega
      · simp at he; subst he; exact Nat.le_refl _
    have ih' := ih (pre ++ [d]) (stop defs d) hl' hpre'
    simp only [List.length_append, List.length_singleton] at ih'
    unfold initialGapsFrom
    split
    · rename_i hgt
      refine ⟨?_, ?_⟩
      · intro g hg
        rcases List.mem_cons.1 hg with rfl | hg
        · refine ⟨⟨hgt, ?_, ?_, ?_⟩, Nat.le_refl _⟩
          · simp [hl]
          · intro e he
            simp only [hl, List.take_left'] at he
            exact hpre e he
          · intro e he
            simp only [hl, List.drop_left'] at he
            rcases List.mem_cons.1 he with rfl | he
            · exact Nat.le_refl _
            · have := hsorted.2.1.1 e he
              show off defs d ≤ off defs e
              unfold stop at this; omega
        · have := ih'.1 g hg
          exact ⟨this.1, by omega⟩
      · rw [List.pairwise_cons]
        refine ⟨?_, ih'.2⟩
        intro g hg
        have := (ih'.1 g hg).2
        show pre.length < g.idx
        omega
    · refine ⟨?_, ih'.2⟩
      intro g hg
      have := ih'.1 g hg
      exact ⟨this.1, by omega⟩

theorem initialGaps_ok (defs : Defs) (l : List Nat) (hs : Sorted defs l) : GInv defs l (initialGaps defs l) := by
  have := initialGapsFrom_ok defs l hs l [] 0 (by simp) (by simp)
  exact ⟨fun g hg => (this.1 g hg).1, this.2⟩

/-! ### candidate placements -/

structure FitOk (gaps : List Gap) (dsz dal : Nat) (f : Fitted) : Prop where
  gap     : ∃ g, gaps[f.gi]? = some g ∧ g.start + f.before = f.dstart ∧ f.dend + f.after = g.stop
  dend    : f.dend = f.dstart + dsz
  aligned : dal ∣ f.dstart

theorem collectFits_ok (dsz dal : Nat) (hpos : 0 < dal) (full : List Gap) :
    ∀ (gs pre : List Gap), full = pre ++ gs → ∀ f ∈ collectFits dsz dal gs pre.length, FitOk full dsz dal f := by
  intro gs
  induction gs with
  | nil => intro pre _ f hf; simp [collectFits] at hf
  | cons g gs ih =>
    intro pre hfull f hf
    have hfull' : full = (pre ++ [g]) ++ gs := by simp [hfull]
    have ih' := ih (pre ++ [g]) hfull'
    simp only [List.length_append, List.length_singleton] at ih'
    unfold collectFits at hf
    have hme : FitOk full dsz dal ⟨.startOfGap, pre.length, alignUp g.start dal - g.start,
        g.stop - (alignUp g.start dal + dsz), alignUp g.start dal, alignUp g.start dal + dsz⟩ →
        g.stop ≥ alignUp g.start dal + dsz → True := fun _ _ => trivial
    split at hf
    · exact ih' f hf
    · simp only at hf
      split at hf
      · rename_i hge
        have hmine : FitOk full dsz dal ⟨.startOfGap, pre.length, alignUp g.start dal - g.start,
            g.stop - (alignUp g.start dal + dsz), alignUp g.start dal, alignUp g.start dal + dsz⟩ := by
          refine ⟨⟨g, ?_, ?_, ?_⟩, rfl, alignUp_dvd _ _⟩
          · simp [hfull]
          · have := le_alignUp g.start dal hpos
            show g.start + (alignUp g.start dal - g.start) = alignUp g.start dal
            omega
          · show alignUp g.start dal + dsz + (g.stop - (alignUp g.start dal + dsz)) = g.stop
            omega
        split at hf
        · simp at hf; subst hf; exact hmine
        · rcases List.mem_cons.1 hf with rfl | hf
          · exact hmine
          · exact ih' f hf
      · exact ih' f hf

theorem startOrEnd_ok {gaps : List Gap} {dsz dal : Nat} {f : Fitted} (h : FitOk gaps dsz dal f) :
    FitOk gaps dsz dal (startOrEnd f dal) := by
  unfold startOrEnd
  simp only
  split
  · split
    · exact h
    · obtain ⟨⟨g, hg, h1, h2⟩, hd, ha⟩ := h
      have hle : f.after / dal * dal ≤ f.after := Nat.div_mul_le_self _ _
      refine ⟨⟨g, hg, ?_, ?_⟩, ?_, ?_⟩
      · show g.start + (f.before + f.after / dal * dal) = f.dstart + f.after / dal * dal; omega
      · show f.dend + f.after / dal * dal + (f.after - f.after / dal * dal) = g.stop; omega
      · show f.dend + f.after / dal * dal = f.dstart + f.after / dal * dal + dsz; omega
      · exact Nat.dvd_add ha (Nat.dvd_mul_left _ _)
  · exact h

theorem minGroup_subset (fs : List Fitted) : ∀ f ∈ minGroup fs, f ∈ fs := by
  intro f hf
  unfold minGroup at hf
  split at hf
  · simp at hf
  · exact (List.mem_filter.1 hf).1

theorem foldl_choose_mem (dal : Nat) (fs : List Fitted) : ∀ (init : Fitted),
    let r := fs.foldl (fun prev cur =>
      let sc := startOrEnd cur dal
      if selectFirst prev.selectionValue sc.selectionValue then prev else sc) init
    r = init ∨ ∃ c ∈ fs, r = startOrEnd c dal := by
  induction fs with
  | nil => intro init; left; rfl
  | cons c fs ih =>
    intro init
    simp only [List.foldl_cons]
    split
    · rcases ih init with h | ⟨c', hc', h⟩
      · left; exact h
      · right; exact ⟨c', List.mem_cons_of_mem _ hc', h⟩
    · rcases ih (startOrEnd c dal) with h | ⟨c', hc', h⟩
      · right; exact ⟨c, List.mem_cons_self, h⟩
      · right; exact ⟨c', List.mem_cons_of_mem _ hc', h⟩

theorem chooseFit_ok {gaps : List Gap} {dsz dal : Nat} {fs : List Fitted} (h : ∀ f ∈ fs, FitOk gaps dsz dal f)
    {f : Fitted} (hf : chooseFit dal fs = some f) : FitOk gaps dsz dal f := by
  unfold chooseFit at hf
  split at hf
  · simp at hf
  · rename_i f0 rest
    simp only [Option.some.injEq] at hf
    rcases foldl_choose_mem dal rest (startOrEnd f0 dal) with h1 | ⟨c, hc, h1⟩
    · simp only at h1; rw [h1] at hf; subst hf
      exact startOrEnd_ok (h f0 List.mem_cons_self)
    · simp only at h1; rw [h1] at hf; subst hf
      exact startOrEnd_ok (h c (List.mem_cons_of_mem _ hc))

end Truc
