import TrucModel.Proofs.Memory
/-
  C05 — Converting to the next variant keeps, adds and returns the right values.
  Goal (full statement): for every well-formed definition, adjacent pair, conversion form and state,
  `call (convFn …)` ends without machine error in a record whose carried-over fields hold what they
  held, whose added fields hold the supplied values, returning the removed fields' values; chains by
  induction.  Proved so far (`_partial`, at the level of the buffer operations the generated
  conversion performs, in its program order: read removed fields → bit copy → store added fields):
-/
namespace Truc.Mach
open Truc.Gen

/-- reading a removed field out changes nothing for any other field -/
theorem C05_reading_removed_keeps_others_partial (b : Buf) (removed carried : D)
    (h : ¬(removed.offset = carried.offset ∧ removed.size = carried.size ∧ removed.ty = carried.ty)) :
    (b.markMoved removed).find carried = b.find carried :=
  markMoved_frame b removed carried h

/-- storing all the added fields changes nothing for a carried-over field, provided every added
    field's extent is apart from it — which C01 (on the *new* variant) gives -/
theorem C05_adding_keeps_carried_partial (dr : String → Bool) (carried : D) (added : List (D × Val)) (b b' : Buf)
    (hap : ∀ w ∈ added, w.2.ty = w.1.ty ∧ Apart w.1 carried) (h : storeAll dr b added = .ok b') :
    b'.find carried = b.find carried :=
  storeAll_frame dr carried added b b' hap h

/-- the conversion's program order: every read of a removed field precedes the bit copy, which
    precedes every store of an added field (so an added field may reuse a removed field's bytes) -/
theorem C05_program_order_partial (s : Spec) (uninit andOut : Bool) :
    ∃ pre post, (convFn s uninit andOut).body =
      s.minus.map (fun d => Stmt.readLet ((if andOut then "" else "_") ++ d.name) d "from") ++ pre ++
      [Stmt.manuallyDrop, Stmt.copyBuf ((!uninit && !s.plus.isEmpty) || (uninit && (uninit && s.plus.any (fun d => !d.uninit))))] ++
      (s.plus.filter (fun d => !uninit || !d.uninit)).map (fun d => Stmt.write d "plus") ++ post ∧
      (∀ st ∈ pre, ∃ a b c d, st = Stmt.safeFrom a b c d) ∧
      (∀ st ∈ post, st = Stmt.retSelfData ∨ (∃ c, st = Stmt.letRecord c) ∨ ∃ n fs, st = Stmt.retStruct n fs) := by
  unfold convFn
  simp only
  refine ⟨_, _, rfl, ?_, ?_⟩
  · intro st hst
    split at hst
    · simp at hst; exact ⟨_, _, _, _, hst⟩
    · simp at hst
  · intro st hst
    split at hst
    · simp at hst
      rcases hst with h | h
      · right; left; exact ⟨_, h⟩
      · right; right; exact ⟨_, _, h⟩
    · simp at hst; left; exact hst

/-- non-vacuity: an added field written over the bytes of a removed (already read) field; the
    carried-over field keeps its value -/
example :
    let a : D := ⟨0, "a", "H", 8, 8, 0, false⟩
    let k : D := ⟨1, "k", "P4", 4, 4, 8, false⟩
    let n : D := ⟨2, "n", "P8", 8, 8, 0, false⟩
    let b : Buf := ⟨16, [⟨0, 8, ⟨5, "H"⟩, false⟩, ⟨8, 4, ⟨6, "P4"⟩, false⟩]⟩
    (match storeAll (fun t => t == "H") (b.markMoved a) [(n, ⟨7, "P8"⟩)] with
     | .ok b' => ((b'.find k).map (·.val.id), (b'.find n).map (·.val.id)) == (some 6, some 7)
     | .error _ => false) = true := by decide +kernel

end Truc.Mach
