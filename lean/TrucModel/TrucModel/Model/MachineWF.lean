import TrucModel.Model.Machine
/-
  Executable check of the hypotheses under which the machine theorems (C04–C07) apply to a module:
  evaluated by the driver on every module of channel X, so that the evidence says for how many of
  the generated definitions the theorems' premises actually hold.
-/
namespace Truc.Mach
open Truc.Gen

def apartB (d d' : D) : Bool :=
  (d.offset + d.size ≤ d'.offset || d'.offset + d'.size ≤ d.offset) &&
  !(d.offset == d'.offset && d.size == d'.size && d.ty == d'.ty)

def pairwiseB {α : Type} (r : α → α → Bool) : List α → Bool
  | [] => true
  | x :: xs => xs.all (r x) && pairwiseB r xs

def nodupB : List String → Bool
  | [] => true
  | x :: xs => !xs.contains x && nodupB xs

def wfDataB (cap : Nat) (ds : List D) : Bool :=
  nodupB (ds.map (·.name)) && pairwiseB apartB ds && ds.all (fun d => d.offset + d.size ≤ cap)

/-- order-preserving sublist test (the conversions' field lists are sublists of the variants' lists, in order) -/
def isSublistB : List D → List D → Bool
  | [], _ => true
  | _ :: _, [] => false
  | a :: as, b :: bs => if a = b then isSublistB as bs else isSublistB (a :: as) bs

def convWFB (dr : String → Bool) (cap : Nat) (s0 s : Spec) : Bool :=
  wfDataB cap s0.data && wfDataB cap s.data &&
  isSublistB s.minus s0.data && isSublistB s.plus s.data &&
  s0.data.all (fun d => s.minus.contains d || (s.data.contains d && !s.plus.contains d)) &&
  s.data.all (fun d => s.plus.contains d || (s0.data.contains d && !s.minus.contains d)) &&
  !(s.minus.map (·.name)).contains "record" &&
  s.plus.all (fun p => p.size != 0 || dr p.ty)

def moduleWFB (dr : String → Bool) (cap : Nat) (specs : List Spec) : Bool :=
  specs.all (fun s => wfDataB cap s.data && s.data.all (fun d => !d.uninit || !dr d.ty)) &&
  (specs.zip specs.tail).all (fun p => convWFB dr cap p.1 p.2)

end Truc.Mach
