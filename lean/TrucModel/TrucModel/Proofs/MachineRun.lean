import TrucModel.Proofs.Memory
/-
  Running the generated statement lists: closed forms for the runs of writes and reads.
-/
namespace Truc.Mach
open Truc.Gen

theorem run_append (dr : String → Bool) (cap : Nat) : ∀ (a b : List Stmt) (st : St),
    run dr cap (a ++ b) st = match run dr cap a st with | .error e => .error e | .ok st' => run dr cap b st' := by
  intro a
  induction a with
  | nil => intro b st; simp [run]
  | cons s rest ih =>
    intro b st
    simp only [List.cons_append, run]
    cases step dr cap st s with
    | error e => rfl
    | ok st' => exact ih b st'

/-! ### writes -/

/-- the fields of the argument struct, by name; names are distinct -/
def lookupField (fs : List (String × Val)) (n : String) : Option Val := (fs.find? (fun p => p.1 == n)).map (·.2)

theorem takeField_of_lookup {fs : List (String × Val)} {n : String} {v : Val} (h : lookupField fs n = some v) :
    takeField fs n = some (v, fs.filter (fun q => q.1 != n)) := by
  unfold lookupField at h
  unfold takeField
  cases hf : fs.find? (fun p => p.1 == n) with
  | none => rw [hf] at h; simp at h
  | some p => rw [hf] at h; simp at h; simp [h]

theorem lookup_filter_ne {fs : List (String × Val)} {n m : String} (h : m ≠ n) :
    lookupField (fs.filter (fun q => q.1 != n)) m = lookupField fs m := by
  unfold lookupField
  congr 1
  induction fs with
  | nil => rfl
  | cons p rest ih =>
    simp only [List.filter_cons]
    by_cases hp : p.1 = n
    · have h1 : (p.1 != n) = false := by simp [hp]
      have h2 : (p.1 == m) = false := by simp [hp]; exact fun e => h e.symm
      simp only [h1, Bool.false_eq_true, if_false, List.find?_cons, h2]
      exact ih
    · have h1 : (p.1 != n) = true := by simp [hp]
      simp only [h1, if_true, List.find?_cons]
      cases (p.1 == m)
      · exact ih
      · rfl

/-- the argument struct without the fields named `ns` -/
def removeNames (fs : List (String × Val)) (ns : List String) : List (String × Val) :=
  fs.filter (fun q => !ns.contains q.1)

theorem removeNames_cons (fs : List (String × Val)) (n : String) (ns : List String) :
    removeNames (fs.filter (fun q => q.1 != n)) ns = removeNames fs (n :: ns) := by
  unfold removeNames
  rw [List.filter_filter]
  congr 1
  funext q
  have e1 : (q.1 != n) = !(q.1 == n) := rfl
  have e2 : (n :: ns).contains q.1 = (q.1 == n || ns.contains q.1) := List.contains_cons
  rw [e1, e2]
  cases (q.1 == n) <;> cases ns.contains q.1 <;> rfl

/-- the state after storing the fields `ds` (taken by name from the argument struct `src`) -/
theorem run_writes (dr : String → Bool) (cap : Nat) (src : String) : ∀ (ds : List D) (st : St) (b : Buf) (fs : List (String × Val)),
    st.data = some b → st.args = [(src, fs)] → (ds.map (·.name)).Nodup →
    (∀ d ∈ ds, ∃ v, lookupField fs d.name = some v) →
    ∀ b', storeAll dr b (ds.map fun d => (d, (lookupField fs d.name).getD default)) = .ok b' →
    run dr cap (ds.map fun d => Stmt.write d src) st =
      .ok { st with data := some b', args := [(src, removeNames fs (ds.map (·.name)))],
                    acc := st.acc ++ ds.map fun d => ("write", d.offset, d.ty) } := by
  intro ds
  induction ds with
  | nil =>
    intro st b fs hd ha _ _ b' hs
    simp only [List.map_nil, storeAll, Except.ok.injEq] at hs
    subst hs
    have hf : removeNames fs [] = fs := by simp [removeNames]
    simp only [List.map_nil, run, List.append_nil, hf]
    cases st; simp_all
  | cons d rest ih =>
    intro st b fs hd ha hnd hall b' hs
    obtain ⟨v, hv⟩ := hall d List.mem_cons_self
    simp only [List.map_cons, storeAll, hv, Option.getD_some] at hs
    cases hst : b.store dr d v with
    | error e => rw [hst] at hs; simp at hs
    | ok b1 =>
      rw [hst] at hs
      simp only at hs
      have hnd' := List.nodup_cons.1 hnd
      have hstep : step dr cap st (.write d src) =
          .ok { st with data := some b1, acc := st.acc ++ [("write", d.offset, d.ty)], args := [(src, fs.filter (fun q => q.1 != d.name))] } := by
        simp only [step, hd, ha, List.find?_cons, beq_self_eq_true, takeField_of_lookup hv, hst, List.map_cons, List.map_nil, if_true]
      simp only [List.map_cons, run, hstep]
      have hrest : ∀ d' ∈ rest, lookupField (fs.filter (fun q => q.1 != d.name)) d'.name = lookupField fs d'.name := by
        intro d' hd'
        apply lookup_filter_ne
        intro heq
        exact hnd'.1 (List.mem_map.2 ⟨d', hd', heq⟩)
      have hs' : storeAll dr b1 (rest.map fun d' => (d', (lookupField (fs.filter (fun q => q.1 != d.name)) d'.name).getD default)) = .ok b' := by
        have : (rest.map fun d' => (d', (lookupField (fs.filter (fun q => q.1 != d.name)) d'.name).getD default))
            = rest.map fun d' => (d', (lookupField fs d'.name).getD default) := by
          apply List.map_congr_left
          intro d' hd'; rw [hrest d' hd']
        rw [this]; exact hs
      rw [ih { st with data := some b1, acc := st.acc ++ [("write", d.offset, d.ty)], args := [(src, fs.filter (fun q => q.1 != d.name))] } b1 _ rfl rfl hnd'.2
        (fun d' hd' => by obtain ⟨v', hv'⟩ := hall d' (List.mem_cons_of_mem _ hd'); exact ⟨v', by rw [hrest d' hd']; exact hv'⟩) b' hs']
      simp [List.append_assoc, removeNames_cons]

end Truc.Mach

namespace Truc.Mach
open Truc.Gen

/-! ### reads -/

def loadAll (dr : String → Bool) : Buf → List D → Except MErr (List Val × Buf)
  | b, [] => .ok ([], b)
  | b, d :: ds => match b.load dr d with
    | .error e => .error e
    | .ok (v, b') => match loadAll dr b' ds with
      | .error e => .error e
      | .ok (vs, b'') => .ok (v :: vs, b'')

/-- reading the fields `ds` of `self` into locals named `pre ++ name` -/
theorem run_reads_self (dr : String → Bool) (cap : Nat) (nm : D → String) : ∀ (ds : List D) (st : St) (b : Buf) (vs : List Val) (b' : Buf),
    st.self_ = some b → loadAll dr b ds = .ok (vs, b') →
    run dr cap (ds.map fun d => Stmt.readLet (nm d) d "self") st =
      .ok { st with self_ := some b', locals := st.locals ++ (ds.map fun d => nm d).zip vs,
                    acc := st.acc ++ ds.map fun d => ("read", d.offset, d.ty) } := by
  intro ds
  induction ds with
  | nil =>
    intro st b vs b' hs hl
    simp only [loadAll, Except.ok.injEq, Prod.mk.injEq] at hl
    obtain ⟨rfl, rfl⟩ := hl
    simp only [List.map_nil, run, List.zip_nil_left, List.append_nil]
    cases st; simp_all
  | cons d rest ih =>
    intro st b vs b' hs hl
    unfold loadAll at hl
    cases h1 : b.load dr d with
    | error e => rw [h1] at hl; simp at hl
    | ok p =>
      obtain ⟨v, b1⟩ := p
      rw [h1] at hl
      simp only at hl
      cases h2 : loadAll dr b1 rest with
      | error e => rw [h2] at hl; simp at hl
      | ok q =>
        obtain ⟨vs1, b2⟩ := q
        rw [h2] at hl
        simp only [Except.ok.injEq, Prod.mk.injEq] at hl
        obtain ⟨rfl, rfl⟩ := hl
        have hstep : step dr cap st (.readLet (nm d) d "self") =
            .ok { st with self_ := some b1, locals := st.locals ++ [(nm d, v)], acc := st.acc ++ [("read", d.offset, d.ty)] } := by
          simp [step, St.recvBuf, St.setRecv, hs, h1]
        simp only [List.map_cons, run, hstep]
        rw [ih { st with self_ := some b1, locals := st.locals ++ [(nm d, v)], acc := st.acc ++ [("read", d.offset, d.ty)] } b1 vs1 b2 rfl h2]
        simp [List.append_assoc]

/-- the same for the previous record `from` of a conversion -/
theorem run_reads_from (dr : String → Bool) (cap : Nat) (nm : D → String) : ∀ (ds : List D) (st : St) (b : Buf) (vs : List Val) (b' : Buf),
    st.from_ = some b → loadAll dr b ds = .ok (vs, b') →
    run dr cap (ds.map fun d => Stmt.readLet (nm d) d "from") st =
      .ok { st with from_ := some b', locals := st.locals ++ (ds.map fun d => nm d).zip vs,
                    acc := st.acc ++ ds.map fun d => ("read", d.offset, d.ty) } := by
  intro ds
  induction ds with
  | nil =>
    intro st b vs b' hs hl
    simp only [loadAll, Except.ok.injEq, Prod.mk.injEq] at hl
    obtain ⟨rfl, rfl⟩ := hl
    simp only [List.map_nil, run, List.zip_nil_left, List.append_nil]
    cases st; simp_all
  | cons d rest ih =>
    intro st b vs b' hs hl
    unfold loadAll at hl
    cases h1 : b.load dr d with
    | error e => rw [h1] at hl; simp at hl
    | ok p =>
      obtain ⟨v, b1⟩ := p
      rw [h1] at hl
      simp only at hl
      cases h2 : loadAll dr b1 rest with
      | error e => rw [h2] at hl; simp at hl
      | ok q =>
        obtain ⟨vs1, b2⟩ := q
        rw [h2] at hl
        simp only [Except.ok.injEq, Prod.mk.injEq] at hl
        obtain ⟨rfl, rfl⟩ := hl
        have hne : ("from" == "self") = false := by decide
        have hstep : step dr cap st (.readLet (nm d) d "from") =
            .ok { st with from_ := some b1, locals := st.locals ++ [(nm d, v)], acc := st.acc ++ [("read", d.offset, d.ty)] } := by
          simp [step, St.recvBuf, St.setRecv, hs, h1, hne]
        simp only [List.map_cons, run, hstep]
        rw [ih { st with from_ := some b1, locals := st.locals ++ [(nm d, v)], acc := st.acc ++ [("read", d.offset, d.ty)] } b1 vs1 b2 rfl h2]
        simp [List.append_assoc]

/-- loading a datum that is found -/
theorem load_of_find {dr : String → Bool} {b : Buf} {d : D} {e : Ext} (hc : d.offset + d.size ≤ b.cap) (hf : b.find d = some e) :
    b.load dr d = .ok (e.val, if dr d.ty then b.markMoved d else b) := by
  unfold Buf.load
  rw [if_neg (by omega), hf]

theorem markMoved_cap (b : Buf) (d : D) : (b.markMoved d).cap = b.cap := rfl

/-- different keys -/
def KeyNe (d d' : D) : Prop := ¬(d.offset = d'.offset ∧ d.size = d'.size ∧ d.ty = d'.ty)

/-- reading out a list of data whose keys are pairwise different, all of which are found: every one
    yields the value found, and a datum with yet another key is found afterwards exactly as before -/
theorem loadAll_found (dr : String → Bool) : ∀ (ds : List D) (b : Buf),
    (∀ d ∈ ds, d.offset + d.size ≤ b.cap) → (∀ d ∈ ds, ∃ e, b.find d = some e) → ds.Pairwise KeyNe →
    ∃ b', loadAll dr b ds = .ok (ds.map (fun d => ((b.find d).map (·.val)).getD default), b') ∧ b'.cap = b.cap ∧
      ∀ d', (∀ d ∈ ds, KeyNe d d') → b'.find d' = b.find d' := by
  intro ds
  induction ds with
  | nil => intro b _ _ _; exact ⟨b, rfl, rfl, fun _ _ => rfl⟩
  | cons d rest ih =>
    intro b hcap hfound hpw
    obtain ⟨e, he⟩ := hfound d List.mem_cons_self
    have hl := load_of_find (dr := dr) (hcap d List.mem_cons_self) he
    rw [List.pairwise_cons] at hpw
    -- the buffer after the first load
    have hb1 : ∀ d', KeyNe d d' → (if dr d.ty then b.markMoved d else b).find d' = b.find d' := by
      intro d' hk
      split
      · exact markMoved_frame b d d' hk
      · rfl
    have hcap1 : (if dr d.ty then b.markMoved d else b).cap = b.cap := by split <;> rfl
    obtain ⟨b', hrest, hc', hfr⟩ := ih (if dr d.ty then b.markMoved d else b)
      (fun d' hd' => by rw [hcap1]; exact hcap d' (List.mem_cons_of_mem _ hd'))
      (fun d' hd' => by rw [hb1 d' (hpw.1 d' hd')]; exact hfound d' (List.mem_cons_of_mem _ hd'))
      hpw.2
    refine ⟨b', ?_, by rw [hc', hcap1], ?_⟩
    · unfold loadAll
      rw [hl]
      simp only
      rw [hrest]
      simp only [List.map_cons, he, Option.map_some, Option.getD_some]
      congr 3
      apply List.map_congr_left
      intro d' hd'
      rw [hb1 d' (hpw.1 d' hd')]
    · intro d' hk
      rw [hfr d' (fun x hx => hk x (List.mem_cons_of_mem _ hx)), hb1 d' (hk d List.mem_cons_self)]

end Truc.Mach

namespace Truc.Mach
open Truc.Gen

/-! ### closed form of a run of stores -/

/-- storing `d` clobbers nothing the record still owns -/
def FreeFor (dr : String → Bool) (b : Buf) (d : D) : Prop :=
  ∀ e ∈ b.exts, overlaps e d.offset d.size = true → e.moved = true ∨ dr e.val.ty = false

/-- no stale live extent with `d`'s key survives a store of `d` (only zero-size data can have one) -/
def FreshKey (b : Buf) (d : D) : Prop :=
  ∀ e ∈ b.exts, overlaps e d.offset d.size = false → keyOf d e = false

theorem overlaps_false_of_apart {d d' : D} (v : Val) (h : Apart d d') : overlaps (Ext.mk d.offset d.size v false) d'.offset d'.size = false := by
  unfold overlaps
  simp only
  cases hh : (decide (d.offset < d'.offset + d'.size) && decide (d'.offset < d.offset + d.size) && decide (0 < d'.size) && decide (0 < d.size)) with
  | false => rfl
  | true =>
    exfalso
    simp only [Bool.and_eq_true, decide_eq_true_eq] at hh
    have := h.1
    omega

theorem keyOf_false_of_apart {d d' : D} (v : Val) (hv : v.ty = d.ty) (h : Apart d d') : keyOf d' (Ext.mk d.offset d.size v false) = false := by
  cases hk : keyOf d' (Ext.mk d.offset d.size v false) with
  | false => rfl
  | true =>
    exfalso
    unfold keyOf at hk
    simp only [Bool.and_eq_true, beq_iff_eq, Bool.not_false] at hk
    exact h.2 ⟨hk.1.1.1, hk.1.1.2, by rw [← hv]; exact hk.1.2⟩

theorem Apart.symm {d d' : D} (h : Apart d d') : Apart d' d :=
  ⟨h.1.symm, fun ⟨a, b, c⟩ => h.2 ⟨a.symm, b.symm, c.symm⟩⟩

theorem storeAll_ok (dr : String → Bool) : ∀ (ws : List (D × Val)) (b : Buf),
    (∀ w ∈ ws, w.2.ty = w.1.ty ∧ w.1.offset + w.1.size ≤ b.cap ∧ FreeFor dr b w.1 ∧ FreshKey b w.1) →
    ws.Pairwise (fun w w' => Apart w.1 w'.1) →
    ∃ b', storeAll dr b ws = .ok b' ∧ b'.cap = b.cap ∧
      (∀ w ∈ ws, b'.find w.1 = some (Ext.mk w.1.offset w.1.size w.2 false)) ∧
      (∀ d', (∀ w ∈ ws, Apart w.1 d') → b'.find d' = b.find d') ∧
      (∀ e ∈ b'.exts, e ∈ b.exts ∨ ∃ w ∈ ws, e = Ext.mk w.1.offset w.1.size w.2 false) := by
  intro ws
  induction ws with
  | nil => intro b _ _; exact ⟨b, rfl, rfl, by simp, fun _ _ => rfl, fun e he => Or.inl he⟩
  | cons w rest ih =>
    intro b hall hpw
    obtain ⟨d, v⟩ := w
    obtain ⟨hv, hc, hfree, hfresh⟩ := hall (d, v) List.mem_cons_self
    rw [List.pairwise_cons] at hpw
    obtain ⟨b1, hs, hc1, he1⟩ := store_ok (dr := dr) (v := v) hc hfree
    have hfind1 : b1.find d = some (Ext.mk d.offset d.size v false) := by
      rw [find_eq, he1]
      apply find_after_store_same _ _ _ hv
      intro e hem
      have := List.mem_filter.1 hem
      exact hfresh e this.1 (by simpa using this.2)
    -- the rest still satisfies the side conditions on b1
    have hall1 : ∀ w ∈ rest, w.2.ty = w.1.ty ∧ w.1.offset + w.1.size ≤ b1.cap ∧ FreeFor dr b1 w.1 ∧ FreshKey b1 w.1 := by
      intro w hw
      obtain ⟨hv', hc', hf', hk'⟩ := hall w (List.mem_cons_of_mem _ hw)
      have hap : Apart d w.1 := hpw.1 w hw
      refine ⟨hv', by rw [hc1]; exact hc', ?_, ?_⟩
      · intro e he hov
        rw [he1] at he
        rcases List.mem_append.1 he with he | he
        · exact hf' e (List.mem_filter.1 he).1 hov
        · simp only [List.mem_singleton] at he; subst he
          rw [overlaps_false_of_apart v hap] at hov; simp at hov
      · intro e he hov
        rw [he1] at he
        rcases List.mem_append.1 he with he | he
        · exact hk' e (List.mem_filter.1 he).1 hov
        · simp only [List.mem_singleton] at he; subst he
          exact keyOf_false_of_apart v hv hap
    obtain ⟨b', hrest, hc', hfound, hframe, hexts⟩ := ih b1 hall1 hpw.2
    refine ⟨b', ?_, by rw [hc', hc1], ?_, ?_, ?_⟩
    · simp only [storeAll, hs]; exact hrest
    · intro w hw
      rcases List.mem_cons.1 hw with rfl | hw
      · rw [hframe d (fun w' hw' => (hpw.1 w' hw').symm)]; exact hfind1
      · exact hfound w hw
    · intro d' hap
      rw [hframe d' (fun w hw => hap w (List.mem_cons_of_mem _ hw))]
      rw [find_eq, find_eq, he1]
      exact find_after_store_other _ _ _ _ hv (hap (d, v) List.mem_cons_self)
    · intro e he
      rcases hexts e he with h | ⟨w, hw, rfl⟩
      · rw [he1] at h
        rcases List.mem_append.1 h with h | h
        · left; exact (List.mem_filter.1 h).1
        · right; simp only [List.mem_singleton] at h; exact ⟨(d, v), List.mem_cons_self, h⟩
      · right; exact ⟨w, List.mem_cons_of_mem _ hw, rfl⟩

end Truc.Mach
