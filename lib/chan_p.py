"""Compile probes: perturbed type information / non-Copy uninit fields (C11), auto traits (C14)."""
import json, os, shutil, subprocess, time
from common import *

LABT = os.path.join(WORK, "lab-target")


def run(seed, tier):
    key = f"{repo_hash()}-{machinery_hash()}"
    base = os.path.join(WORK, "cache", key, "P")
    marker = os.path.join(base, "done.json")
    if os.path.exists(marker) and not os.environ.get("VERIF_NO_CACHE"):
        info = json.load(open(marker)); info["cached"] = True
        return info
    if os.path.exists(base):
        shutil.rmtree(base)
    os.makedirs(base)
    ok, out = cargo_build(["chan_p"])
    info = {"errors": [], "probes": [], "cached": False}
    if not ok:
        info["errors"].append("chan_p does not build: " + out[-1500:])
        return info
    crate = os.path.join(WORK, "probe")
    if os.path.exists(crate):
        shutil.rmtree(crate)
    shutil.copytree(os.path.join(HARNESS, "lab_template"), crate)
    shutil.copy(os.path.join(REPO, "Cargo.lock"), crate)
    rc, out, err = sh([harness_bin("chan_p"), crate, os.path.join(base, "req.txt")], timeout=600)
    if rc != 0:
        info["errors"].append("chan_p failed: " + err[-1500:])
        return info
    with open(os.path.join(base, "req.txt")) as fin, open(os.path.join(base, "model.txt"), "w") as fout:
        subprocess.run([DRV], stdin=fin, stdout=fout)
    req = open(os.path.join(base, "req.txt")).read().splitlines()
    mod = open(os.path.join(base, "model.txt")).read().splitlines()
    verdicts = [m for r, m in zip(req, mod) if r in ("static", "autotraits")]
    histories = []
    cur = []
    for r in req:
        cur.append(r)
        if r in ("static", "autotraits"):
            histories.append(cur); cur = []
    env = dict(ENV, CARGO_TARGET_DIR=LABT)
    p = subprocess.run(["cargo", "check", "--offline", "--bins", "--keep-going", "--message-format=json"], cwd=crate, capture_output=True, text=True, env=env, timeout=3600)
    failed = {}
    for line in p.stdout.splitlines():
        try:
            j = json.loads(line)
        except ValueError:
            continue
        if j.get("reason") == "compiler-message" and j["message"].get("level") == "error":
            failed.setdefault(j["target"]["name"], j["message"]["message"][:200])
    for l in open(os.path.join(crate, "probes.tsv")).read().splitlines():
        k, kind, desc = l.split("\t")
        k = int(k)
        info["probes"].append({"k": k, "kind": kind, "desc": desc, "compiles": f"p{k}" not in failed, "error": failed.get(f"p{k}"),
                               "model": verdicts[k] if k < len(verdicts) else "<missing>", "requests": histories[k] if k < len(histories) else []})
    if not info["probes"] or (p.returncode != 0 and not failed):
        info["errors"].append("cargo check of the probe crate failed outright: " + p.stderr[-1500:])
    json.dump(info, open(marker, "w"))
    shutil.rmtree(crate, ignore_errors=True)
    return info
