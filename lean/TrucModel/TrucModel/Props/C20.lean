import TrucModel.Proofs.ReplaySource
import TrucModel.Proofs.ReplayKeys
import TrucModel.Props.Examples
/-
  C20 — Replaying a definition into another builder preserves variants and data.

  `C20_replay`: for every source definition built by a valid history and every target strategy
  (the four native ones and the two generic ones), `convert_record_definition`
    * succeeds (no error from the target builder, no indexing panic, no strategy panic),
    * creates exactly one target variant per source variant and returns the map k ↦ k,
    * leaves the target buildable,
    * relates source and target data by a single injective id map `F r.idMap`: target variant k is a
      permutation of the image of source variant k under that one map, for every k — so a source datum
      corresponds to the same target datum in all the variants it spans,
    * and corresponding data have the same name, type, size, alignment and uninit flag.
  `C20_same_type_information` restates the pairing as equality of the multisets of type information.
  `C20_map_keys_any_source` (older, weaker, but for *any* source): one key per source variant, in order.
  The premise `SrcChain` (ids never reused, consecutive variants differ, names unique per variant) is
  proved for every builder output in `Proofs/ReplaySource.lean`.
-/
namespace Truc

/-- name, type, size, alignment, uninit flag -/
def shapeOf (i : Info) : String × String × Nat × Nat × Bool := (i.name, i.ty, i.size, i.align, i.uninit)

theorem C20_replay (reqs : List Req) (hv : ∀ r ∈ reqs, r.valid) (src : Definition)
    (hb : (run reqs).build = some src) (st : Strategy) :
    ∃ r, replay src st = .ok r ∧
      r.tgt.variants.length = src.variants.length ∧
      r.vMap = (List.range src.variants.length).map (fun k => (k, k)) ∧
      r.tgt.canBuild = true ∧
      (∀ (k : Nat) (t v : List Nat), r.tgt.variants[k]? = some t → src.variants[k]? = some v →
        t.Perm (v.map (F r.idMap))) ∧
      (∀ d ∈ src.variants.flatten, ∃ d', r.idMap.lookup d = some d' ∧ d' < r.tgt.defs.length ∧
        sameShape (info r.tgt.defs d') (info src.defs d)) ∧
      (∀ d1 ∈ src.variants.flatten, ∀ d2 ∈ src.variants.flatten, F r.idMap d1 = F r.idMap d2 → d1 = d2) := by
  obtain ⟨r, hr, hinv⟩ := replay_ok src st (builder_srcChain reqs hv src hb)
  have hlk : ∀ d ∈ src.variants.flatten, ∃ d', r.idMap.lookup d = some d' ∧ d' < r.tgt.defs.length ∧
      sameShape (info r.tgt.defs d') (info src.defs d) := by
    intro d hd
    have := hinv.total d hd
    rw [Option.isSome_iff_exists] at this
    obtain ⟨d', hd'⟩ := this
    exact ⟨d', hd', (hinv.keys d d' hd').2⟩
  refine ⟨r, hr, hinv.len, hinv.vmap, ?_, hinv.vars, hlk, ?_⟩
  · simp [BState.canBuild, hinv.pendA, hinv.pendR]
  · intro d1 h1 d2 h2 e
    obtain ⟨a, ha, _⟩ := hlk d1 h1
    obtain ⟨b, hb', _⟩ := hlk d2 h2
    rw [F_of_lookup ha, F_of_lookup hb'] at e
    subst e
    exact hinv.inj d1 d2 a ha hb'

/-- each pair of variants holds data with the same names and type information -/
theorem C20_same_type_information (reqs : List Req) (hv : ∀ r ∈ reqs, r.valid) (src : Definition)
    (hb : (run reqs).build = some src) (st : Strategy) :
    ∃ r, replay src st = .ok r ∧
      ∀ (k : Nat) (t v : List Nat), r.tgt.variants[k]? = some t → src.variants[k]? = some v →
        (t.map (fun d => shapeOf (info r.tgt.defs d))).Perm (v.map (fun d => shapeOf (info src.defs d))) := by
  obtain ⟨r, hr, _, _, _, hvars, hlk, _⟩ := C20_replay reqs hv src hb st
  refine ⟨r, hr, ?_⟩
  intro k t v ht hv'
  have hp := (hvars k t v ht hv').map (fun d => shapeOf (info r.tgt.defs d))
  refine hp.trans ?_
  rw [List.map_map]
  apply List.Perm.of_eq
  apply List.map_congr_left
  intro d hd
  obtain ⟨d', hd', _, hs⟩ := hlk d (List.mem_flatten_of_mem (List.mem_of_getElem? hv') hd)
  simp only [Function.comp, F_of_lookup hd', shapeOf]
  obtain ⟨h1, h2, h3, h4, h5⟩ := hs
  rw [h1, h2, h3, h4, h5]

theorem C20_map_keys_any_source (src : Definition) (st : Strategy) (r : RState)
    (h : replay src st = .ok r) : r.vMap.map (·.1) = List.range src.variants.length := by
  unfold replay at h
  have := replayVariants_keys src.defs st src.variants {} none 0 r h
  simpa [List.range_eq_range'] using this

/-- the replay leaves the target builder ready: `build()` succeeds on it, and the definition it
    returns has as many variants as the source, each with as many data as its source variant -/
theorem C20_target_builds (reqs : List Req) (hv : ∀ r ∈ reqs, r.valid) (src : Definition)
    (hb : (run reqs).build = some src) (st : Strategy) :
    ∃ r tgtDef, replay src st = .ok r ∧ r.tgt.build = some tgtDef ∧
      tgtDef.variants.length = src.variants.length ∧
      ∀ (k : Nat) (t v : List Nat), tgtDef.variants[k]? = some t → src.variants[k]? = some v →
        t.length = v.length := by
  obtain ⟨r, hr, hlen, _, hcb, hvars, _⟩ := C20_replay reqs hv src hb st
  refine ⟨r, ⟨r.tgt.defs, r.tgt.variants⟩, hr, ?_, hlen, ?_⟩
  · unfold BState.build; simp [hcb]
  · intro k t v ht hv'
    have := (hvars k t v ht hv').length_eq
    simpa using this

/-- non-vacuity: the example history replays, with the identity variant map -/
example : (match (run Ex.h1).build with
    | some d => (match replay d .basic with | .ok r => r.vMap | _ => [])
    | none => []) = [(0, 0), (1, 1), (2, 2)] := by decide +kernel

/-- non-vacuity of the premises: the example history is valid and builds -/
example : (∀ r ∈ Ex.h1, r.valid) ∧ ((run Ex.h1).build).isSome = true := by
  constructor
  · intro r hr
    simp only [Ex.h1, List.mem_cons, List.mem_nil_iff, or_false] at hr
    rcases hr with rfl | rfl | rfl | rfl | rfl | rfl | rfl | rfl | rfl | rfl <;> simp [Req.valid, Ex.I, Strategy.isNative]
  · decide +kernel

end Truc
