import TrucModel.Proofs.MachineRun
/-
  The generated functions, run on the abstract machine, do what the abstract record says:
  constructor, accessors, unpack, drop, conversions.  (Refinement layer for C04–C07.)
-/
namespace Truc.Mach
open Truc.Gen

/-- a variant's fields are usable by the generated code: distinct names, pairwise apart extents
    (C01 + distinct keys for zero-size data), inside the capacity (C02) -/
structure WFData (cap : Nat) (ds : List D) : Prop where
  names : (ds.map (·.name)).Nodup
  apart : ds.Pairwise Apart
  inCap : ∀ d ∈ ds, d.offset + d.size ≤ cap

/-- the unpacked struct handed to a constructor -/
def fieldsOf (ds : List D) (vals : List Val) : List (String × Val) := (ds.zip vals).map fun p => (p.1.name, p.2)

theorem lookup_fieldsOf : ∀ (ds : List D) (vals : List Val), (ds.map (·.name)).Nodup →
    ∀ p ∈ ds.zip vals, lookupField (fieldsOf ds vals) p.1.name = some p.2 := by
  intro ds
  induction ds with
  | nil => intro vals _ p hp; simp at hp
  | cons d rest ih =>
    intro vals hnd p hp
    cases vals with
    | nil => simp at hp
    | cons v vs =>
      simp only [List.zip_cons_cons, List.mem_cons] at hp
      have hnd' : d.name ∉ rest.map (·.name) ∧ (rest.map (·.name)).Nodup := List.nodup_cons.1 hnd
      unfold lookupField fieldsOf
      simp only [List.zip_cons_cons, List.map_cons, List.find?_cons]
      rcases hp with rfl | hp
      · simp
      · have hne : (d.name == p.1.name) = false := by
          simp only [beq_eq_false_iff_ne, ne_eq]
          intro heq
          exact hnd'.1 (List.mem_map.2 ⟨p.1, (List.of_mem_zip hp).1, heq.symm⟩)
        simp only [hne]
        exact ih vs hnd'.2 p hp

theorem map_lookup_eq_zip (ds : List D) (vals : List Val) (hnd : (ds.map (·.name)).Nodup) (hl : vals.length = ds.length) :
    (ds.map fun d => (d, (lookupField (fieldsOf ds vals) d.name).getD default)) = ds.zip vals := by
  apply List.ext_getElem
  · simp [hl]
  · intro i h1 h2
    simp only [List.getElem_map, List.getElem_zip]
    have hmem : (ds[i]'(by simpa using h1), vals[i]'(by simp at h2; omega)) ∈ ds.zip vals := by
      rw [List.mem_iff_getElem]
      exact ⟨i, by simp [hl]; simpa using h1, by simp⟩
    rw [lookup_fieldsOf ds vals hnd _ hmem]
    rfl

theorem removeNames_fieldsOf (ds : List D) (vals : List Val) : removeNames (fieldsOf ds vals) (ds.map (·.name)) = [] := by
  unfold removeNames fieldsOf
  rw [List.filter_eq_nil_iff]
  intro q hq
  obtain ⟨p, hp, rfl⟩ := List.mem_map.1 hq
  simp only [Bool.not_eq_eq_eq_not, Bool.not_true, Bool.not_eq_false, List.contains_eq_mem, decide_eq_true_eq]
  exact List.mem_map.2 ⟨p.1, (List.of_mem_zip hp).1, rfl⟩

/-- nothing overlaps / collides in an empty buffer -/
theorem freeFor_empty (dr : String → Bool) (cap : Nat) (d : D) : FreeFor dr ⟨cap, []⟩ d := by intro e he; simp at he
theorem freshKey_empty (cap : Nat) (d : D) : FreshKey ⟨cap, []⟩ d := by intro e he; simp at he

theorem zip_pairwise_apart {ds : List D} {vals : List Val} (h : ds.Pairwise Apart) : (ds.zip vals).Pairwise (fun w w' => Apart w.1 w'.1) := by
  induction ds generalizing vals with
  | nil => simp
  | cons d rest ih =>
    cases vals with
    | nil => simp
    | cons v vs =>
      rw [List.pairwise_cons] at h
      simp only [List.zip_cons_cons, List.pairwise_cons]
      exact ⟨fun w hw => h.1 w.1 (List.of_mem_zip hw).1, ih h.2⟩

/-- **constructor** (`new`): ends without machine error in a record in which every field is found
    with exactly the value supplied; nothing is dropped; the accesses are the stores, in field order -/
theorem ctorNew_ok (dr : String → Bool) (cap : Nat) (s : Spec) (hwf : WFData cap s.data) (vals : List Val)
    (hl : vals.length = s.data.length) (hty : ∀ p ∈ s.data.zip vals, p.2.ty = p.1.ty) :
    ∃ b st, call dr cap (ctorNew s) { args := [("from", fieldsOf s.data vals)] } = .ok st ∧
      st.result = .record b ∧ b.cap = cap ∧ st.drops = [] ∧
      st.acc = s.data.map (fun d => ("write", d.offset, d.ty)) ∧
      (∀ p ∈ s.data.zip vals, b.find p.1 = some (Ext.mk p.1.offset p.1.size p.2 false)) ∧
      (∀ e ∈ b.exts, ∃ p ∈ s.data.zip vals, e = Ext.mk p.1.offset p.1.size p.2 false) ∧
      storeAll dr ⟨cap, []⟩ (s.data.zip vals) = .ok b := by
  obtain ⟨b, hs, hc, hfound, _, hexts⟩ := storeAll_ok dr (s.data.zip vals) ⟨cap, []⟩
    (fun w hw => ⟨hty w hw, hwf.inCap w.1 (List.of_mem_zip hw).1, freeFor_empty dr cap w.1, freshKey_empty cap w.1⟩)
    (zip_pairwise_apart hwf.apart)
  have hws := map_lookup_eq_zip s.data vals hwf.names hl
  have hrun := run_writes dr cap "from" s.data
    { args := [("from", fieldsOf s.data vals)], data := some ⟨cap, []⟩ } ⟨cap, []⟩ (fieldsOf s.data vals) rfl rfl hwf.names
    (fun d hd => by
      obtain ⟨i, hi, rfl⟩ := List.mem_iff_getElem.1 hd
      have hmem : (s.data[i], vals[i]'(by omega)) ∈ s.data.zip vals := by
        rw [List.mem_iff_getElem]; exact ⟨i, by simp [hl]; exact hi, by simp⟩
      exact ⟨_, lookup_fieldsOf s.data vals hwf.names _ hmem⟩)
    b (by rw [hws]; exact hs)
  refine ⟨b, { args := [], data := none, result := .record b, acc := [] ++ s.data.map (fun d => ("write", d.offset, d.ty)) }, ?_, rfl, hc, rfl, by simp, hfound, ?_, hs⟩
  · unfold call ctorNew
    simp only
    rw [List.append_assoc, run_append]
    simp only [run, step]
    rw [run_append, hrun]
    simp [run, step, finish, removeNames_fieldsOf]
  · intro e he
    rcases hexts e he with h | h
    · simp at h
    · exact h

end Truc.Mach

namespace Truc.Mach
open Truc.Gen

/-- **read accessor**: returns the value stored for the field -/
theorem get_ok (dr : String → Bool) (cap : Nat) (sig : String) (b : Buf) (d : D) (e : Ext)
    (hc : d.offset + d.size ≤ b.cap) (hf : b.find d = some e) :
    call dr cap ⟨sig, [.get d]⟩ { self_ := some b } =
      .ok { self_ := some b, result := .ref e.val, acc := [("get", d.offset, d.ty)] } := by
  simp [call, run, step, finish, hf, Nat.not_lt.2 hc]

/-- **mutable accessor**: hands out the same place -/
theorem getMut_ok (dr : String → Bool) (cap : Nat) (sig : String) (b : Buf) (d : D) (e : Ext)
    (hc : d.offset + d.size ≤ b.cap) (hf : b.find d = some e) :
    call dr cap ⟨sig, [.getMut d]⟩ { self_ := some b } =
      .ok { self_ := some b, result := .ref e.val, acc := [("get_mut", d.offset, d.ty)] } := by
  simp [call, run, step, finish, hf, Nat.not_lt.2 hc]

/-- assignment through the mutable accessor: the field now holds the new value, every other field is
    found as before, and the old value (if droppable) is what gets dropped -/
theorem assign_ok (dr : String → Bool) (b : Buf) (d : D) (e : Ext) (v : Val) (hv : v.ty = d.ty) (hf : b.find d = some e) :
    (b.assign dr d v).2 = (if dr d.ty then [e.val] else []) ∧
    (b.assign dr d v).1.find d = some { e with val := v } ∧
    (∀ d', KeyNe d d' → (b.assign dr d v).1.find d' = b.find d') := by
  unfold Buf.assign
  rw [hf]
  simp only
  refine ⟨trivial, ?_, ?_⟩
  · rw [find_eq] at hf ⊢
    simp only
    generalize b.exts = l at hf ⊢
    induction l with
    | nil => simp at hf
    | cons x xs ih =>
      simp only [List.find?_cons] at hf
      unfold setFirst
      cases hkx : keyOf d x with
      | true =>
        rw [hkx] at hf
        simp only [Option.some.injEq] at hf
        subst hf
        have hk' : (x.off == d.offset && x.size == d.size && x.val.ty == d.ty && !x.moved) = true := hkx
        simp only [hk', if_true, List.find?_cons]
        have : keyOf d { x with val := v } = true := by
          unfold keyOf at hkx ⊢
          simp only [Bool.and_eq_true, beq_iff_eq, Bool.not_eq_eq_eq_not, Bool.not_true] at hkx ⊢
          exact ⟨⟨⟨hkx.1.1.1, hkx.1.1.2⟩, hv⟩, hkx.2⟩
        simp [this]
      | false =>
        rw [hkx] at hf
        have hk' : (x.off == d.offset && x.size == d.size && x.val.ty == d.ty && !x.moved) = false := hkx
        simp only [hk', Bool.false_eq_true, if_false, List.find?_cons, hkx]
        exact ih hf
  · intro d' hk'
    rw [find_eq, find_eq]
    simp only
    generalize b.exts = l
    induction l with
    | nil => rfl
    | cons x xs ih =>
      unfold setFirst
      cases hkx : keyOf d x with
      | true =>
        have hk2 : (x.off == d.offset && x.size == d.size && x.val.ty == d.ty && !x.moved) = true := hkx
        simp only [hk2, if_true, List.find?_cons]
        have h1 : keyOf d' x = false := by
          cases hq : keyOf d' x with
          | false => rfl
          | true =>
            exfalso
            unfold keyOf at hkx hq
            simp only [Bool.and_eq_true, beq_iff_eq, Bool.not_eq_eq_eq_not, Bool.not_true] at hkx hq
            exact hk' ⟨hkx.1.1.1.symm.trans hq.1.1.1, hkx.1.1.2.symm.trans hq.1.1.2, hkx.1.2.symm.trans hq.1.2⟩
        have h2 : keyOf d' { x with val := v } = false := by
          cases hq : keyOf d' { x with val := v } with
          | false => rfl
          | true =>
            exfalso
            unfold keyOf at hkx hq
            simp only [Bool.and_eq_true, beq_iff_eq, Bool.not_eq_eq_eq_not, Bool.not_true] at hkx hq
            exact hk' ⟨hkx.1.1.1.symm.trans hq.1.1.1, hkx.1.1.2.symm.trans hq.1.1.2, by rw [← hv]; exact hq.1.2⟩
        simp [h1, h2]
      | false =>
        have hk2 : (x.off == d.offset && x.size == d.size && x.val.ty == d.ty && !x.moved) = false := hkx
        simp only [hk2, Bool.false_eq_true, if_false, List.find?_cons]
        cases keyOf d' x
        · exact ih
        · rfl

end Truc.Mach

namespace Truc.Mach
open Truc.Gen

/-- picking locals by name: when every wanted name is bound (first binding) to the wanted value -/
theorem filterMap_find (all : List (String × Val)) : ∀ (names : List String) (vs : List Val), vs.length = names.length →
    (∀ p ∈ names.zip vs, all.find? (fun q => q.1 == p.1) = some p) →
    names.filterMap (fun n => (all.find? (fun q => q.1 == n)).map (fun q => (n, q.2))) = names.zip vs := by
  intro names
  induction names with
  | nil => intro vs _ _; simp
  | cons n rest ih =>
    intro vs hl h
    cases vs with
    | nil => simp at hl
    | cons v vs' =>
      have h0 := h (n, v) (by simp)
      simp only at h0
      simp only [List.filterMap_cons, h0, Option.map_some, List.zip_cons_cons]
      rw [ih vs' (by simpa using hl) (fun p hp => h p (by simp [hp]))]

theorem find_zip_names : ∀ (names : List String) (vs : List Val), names.Nodup →
    ∀ p ∈ names.zip vs, (names.zip vs).find? (fun q => q.1 == p.1) = some p := by
  intro names
  induction names with
  | nil => intro vs _ p hp; simp at hp
  | cons n rest ih =>
    intro vs hnd p hp
    cases vs with
    | nil => simp at hp
    | cons v vs' =>
      have hnd' := List.nodup_cons.1 hnd
      simp only [List.zip_cons_cons, List.mem_cons] at hp
      simp only [List.zip_cons_cons, List.find?_cons]
      rcases hp with rfl | hp
      · simp
      · have : (n == p.1) = false := by
          simp only [beq_eq_false_iff_ne, ne_eq]
          intro heq
          exact hnd'.1 (heq ▸ (List.of_mem_zip hp).1)
        simp only [this]
        exact ih vs' hnd'.2 p hp

/-- the record invariant the generated functions rely on and maintain: every field that needs it has
    its live extent; a datum's key is carried by at most one live extent -/
structure AllFound (b : Buf) (ds : List D) : Prop where
  found : ∀ d ∈ ds, ∃ e, b.find d = some e

/-- **unpack**: hands back exactly the values found for the fields, in field order; the record is
    forgotten (its drop glue does not run); nothing is dropped -/
theorem unpack_ok (dr : String → Bool) (cap : Nat) (s : Spec) (b : Buf) (hcap : b.cap = cap) (hwf : WFData cap s.data)
    (hrec : "record" ∉ s.data.map (·.name)) (hfound : ∀ d ∈ s.data, ∃ e, b.find d = some e) :
    ∃ st, call dr cap (unpackFn s) { self_ := some b, selfGlue := some s.data } = .ok st ∧
      st.result = .struct ((s.data.map (·.name)).zip (s.data.map fun d => ((b.find d).map (·.val)).getD default)) none ∧
      st.drops = [] ∧ st.acc = s.data.map (fun d => ("read", d.offset, d.ty)) := by
  have hkeys : s.data.Pairwise KeyNe := hwf.apart.imp (fun h => h.2)
  obtain ⟨b', hload, _, _⟩ := loadAll_found dr s.data b (fun d hd => by rw [hcap]; exact hwf.inCap d hd) hfound hkeys
  have hreads := run_reads_self dr cap (fun d => d.name) s.data { self_ := some b, selfGlue := some s.data } b _ b' rfl hload
  let vals := s.data.map fun d => ((b.find d).map (·.val)).getD default
  have hlen : vals.length = (s.data.map (·.name)).length := by simp [vals]
  have hnames : (s.data.map (·.name)).filter (· != "record") = s.data.map (·.name) := by
    rw [List.filter_eq_self]
    intro n hn
    simp only [bne_iff_ne, ne_eq]
    intro heq; exact hrec (heq ▸ hn)
  have hpick := filterMap_find ((s.data.map (·.name)).zip vals) (s.data.map (·.name)) vals hlen (find_zip_names _ vals hwf.names)
  have hleft : ((s.data.map (·.name)).zip vals).filter (fun p => !(s.data.map (·.name)).contains p.1) = [] := by
    rw [List.filter_eq_nil_iff]
    intro p hp
    simp only [Bool.not_eq_eq_eq_not, Bool.not_true, Bool.not_eq_false, List.contains_eq_mem, decide_eq_true_eq]
    exact (List.of_mem_zip hp).1
  refine ⟨{ self_ := some b', selfGlue := none, locals := [], args := [],
            result := .struct ((s.data.map (·.name)).zip vals) none,
            acc := [] ++ s.data.map (fun d => ("read", d.offset, d.ty)) }, ?_, rfl, rfl, by simp⟩
  unfold call unpackFn
  simp only
  rw [run_append, hreads]
  simp only [run, step, List.nil_append, hnames]
  rw [hpick]
  simp [finish, vals]
  intro a x hx hn
  exfalso
  obtain ⟨d, hd, hdn⟩ := List.mem_map.1 (List.of_mem_zip hx).1
  exact hn d hd hdn

end Truc.Mach

namespace Truc.Mach
open Truc.Gen

/-- **Drop**: reads every field back into a local; exactly the droppable values found for the fields
    are destroyed, each once, and nothing else -/
theorem drop_ok (dr : String → Bool) (cap : Nat) (s : Spec) (b : Buf) (hcap : b.cap = cap) (hwf : WFData cap s.data)
    (hfound : ∀ d ∈ s.data, ∃ e, b.find d = some e) :
    ∃ st, call dr cap (dropFn s) { self_ := some b } = .ok st ∧
      st.drops = (s.data.map fun d => ((b.find d).map (·.val)).getD default).filter (fun v => dr v.ty) ∧
      st.acc = s.data.map (fun d => ("read", d.offset, d.ty)) := by
  have hkeys : s.data.Pairwise KeyNe := hwf.apart.imp (fun h => h.2)
  obtain ⟨b', hload, _, _⟩ := loadAll_found dr s.data b (fun d hd => by rw [hcap]; exact hwf.inCap d hd) hfound hkeys
  have hreads := run_reads_self dr cap (fun d => "_" ++ d.name) s.data { self_ := some b } b _ b' rfl hload
  refine ⟨{ self_ := some b', locals := [], args := [],
            drops := [] ++ (((s.data.map fun d => "_" ++ d.name).zip (s.data.map fun d => ((b.find d).map (·.val)).getD default)).map (·.2)).filter (fun v => dr v.ty) ++ [] ++ [] ++ [],
            acc := [] ++ s.data.map (fun d => ("read", d.offset, d.ty)) }, ?_, ?_, by simp⟩
  · unfold call dropFn
    simp only
    rw [hreads]
    simp [finish]
  · simp only [List.nil_append, List.append_nil]
    congr 1
    rw [List.map_snd_zip]
    simp

end Truc.Mach

namespace Truc.Mach
open Truc.Gen

theorem WFData.filter {cap : Nat} {ds : List D} (h : WFData cap ds) (p : D → Bool) : WFData cap (ds.filter p) :=
  ⟨(h.names.sublist ((List.filter_sublist (l := ds)).map _)), h.apart.sublist List.filter_sublist,
   fun d hd => h.inCap d (List.mem_filter.1 hd).1⟩

/-- storing the fields `ds` (values `vals`, taken from the argument struct `src`) into a buffer `b0` in
    which they clobber nothing owned: closed form of the run, and what is found afterwards -/
theorem writes_ok (dr : String → Bool) (cap : Nat) (src : String) (ds : List D) (hwf : WFData cap ds) (vals : List Val)
    (hl : vals.length = ds.length) (hty : ∀ p ∈ ds.zip vals, p.2.ty = p.1.ty) (b0 : Buf) (hc0 : b0.cap = cap)
    (hfree : ∀ d ∈ ds, FreeFor dr b0 d ∧ FreshKey b0 d) :
    ∃ b, b.cap = cap ∧
      (∀ p ∈ ds.zip vals, b.find p.1 = some (Ext.mk p.1.offset p.1.size p.2 false)) ∧
      (∀ d', (∀ d ∈ ds, Apart d d') → b.find d' = b0.find d') ∧
      (∀ e ∈ b.exts, e ∈ b0.exts ∨ ∃ p ∈ ds.zip vals, e = Ext.mk p.1.offset p.1.size p.2 false) ∧
      storeAll dr b0 (ds.zip vals) = .ok b ∧
      ∀ st : St, st.data = some b0 → st.args = [(src, fieldsOf ds vals)] →
        run dr cap (ds.map fun d => Stmt.write d src) st =
          .ok { st with data := some b, args := [(src, [])], acc := st.acc ++ ds.map fun d => ("write", d.offset, d.ty) } := by
  obtain ⟨b, hs, hc, hfound, hframe, hexts⟩ := storeAll_ok dr (ds.zip vals) b0
    (fun w hw => ⟨hty w hw, by rw [hc0]; exact hwf.inCap w.1 (List.of_mem_zip hw).1,
      (hfree w.1 (List.of_mem_zip hw).1).1, (hfree w.1 (List.of_mem_zip hw).1).2⟩)
    (zip_pairwise_apart hwf.apart)
  refine ⟨b, by rw [hc, hc0], hfound, ?_, hexts, hs, ?_⟩
  · intro d' hap
    apply hframe
    intro w hw
    exact hap w.1 (List.of_mem_zip hw).1
  · intro st hd ha
    have hws := map_lookup_eq_zip ds vals hwf.names hl
    have hrun := run_writes dr cap src ds st b0 (fieldsOf ds vals) hd ha hwf.names
      (fun d hd' => by
        obtain ⟨i, hi, rfl⟩ := List.mem_iff_getElem.1 hd'
        have hmem : (ds[i], vals[i]'(by omega)) ∈ ds.zip vals := by
          rw [List.mem_iff_getElem]; exact ⟨i, by simp [hl]; exact hi, by simp⟩
        exact ⟨_, lookup_fieldsOf ds vals hwf.names _ hmem⟩)
      b (by rw [hws]; exact hs)
    rw [hrun, removeNames_fieldsOf]

/-- **uninit constructor** (`new_uninit`): every mandatory field is found with the value supplied;
    fields that may stay uninitialised are simply not there yet (a later write through the mutable
    accessor creates them, `assign_new_ok`) -/
theorem ctorNewUninit_ok (dr : String → Bool) (cap : Nat) (s : Spec) (hwf : WFData cap s.data) (vals : List Val)
    (hl : vals.length = (s.data.filter (fun d => !d.uninit)).length)
    (hty : ∀ p ∈ (s.data.filter (fun d => !d.uninit)).zip vals, p.2.ty = p.1.ty) :
    ∃ b st, call dr cap (ctorNewUninit s) { args := [("from", fieldsOf (s.data.filter (fun d => !d.uninit)) vals)] } = .ok st ∧
      st.result = .record b ∧ b.cap = cap ∧ st.drops = [] ∧
      (∀ p ∈ (s.data.filter (fun d => !d.uninit)).zip vals, b.find p.1 = some (Ext.mk p.1.offset p.1.size p.2 false)) ∧
      (∀ e ∈ b.exts, ∃ p ∈ (s.data.filter (fun d => !d.uninit)).zip vals, e = Ext.mk p.1.offset p.1.size p.2 false) ∧
      storeAll dr ⟨cap, []⟩ ((s.data.filter (fun d => !d.uninit)).zip vals) = .ok b := by
  obtain ⟨b, hc, hfound, _, hexts, hsAll, hrun⟩ := writes_ok dr cap "from" (s.data.filter (fun d => !d.uninit)) (hwf.filter _) vals hl hty
    ⟨cap, []⟩ rfl (fun d _ => ⟨freeFor_empty dr cap d, freshKey_empty cap d⟩)
  refine ⟨b, { args := [], data := none, result := .record b,
               acc := [] ++ (s.data.filter (fun d => !d.uninit)).map (fun d => ("write", d.offset, d.ty)) }, ?_, rfl, hc, rfl, hfound, ?_, hsAll⟩
  · unfold call ctorNewUninit
    simp only
    by_cases hany : s.data.any (fun d => !d.uninit) = true
    · -- there are mandatory fields: the argument keeps its name
      simp only [hany, if_true]
      have hstate := hrun { args := [("from", fieldsOf (s.data.filter (fun d => !d.uninit)) vals)], data := some ⟨cap, []⟩ } rfl rfl
      simp only [List.cons_append, List.nil_append, run, step, beq_self_eq_true, List.map_cons, List.map_nil, if_true]
      rw [run_append, hstate]
      simp [run, step, finish]
    · -- none: the argument is bound to `_from`, nothing is written
      have hnil : s.data.filter (fun d => !d.uninit) = [] := by
        rw [List.filter_eq_nil_iff]
        intro d hd hb
        exact hany (List.any_eq_true.2 ⟨d, hd, hb⟩)
      have hf : s.data.any (fun d => !d.uninit) = false := by simpa using hany
      simp only [hf, Bool.false_eq_true, if_false]
      have hb : b = ⟨cap, []⟩ := by
        have := hrun { data := some ⟨cap, []⟩, args := [("from", fieldsOf (s.data.filter (fun d => !d.uninit)) vals)] } rfl rfl
        rw [hnil] at this
        simp only [List.map_nil, run, Except.ok.injEq] at this
        have h2 := congrArg St.data this
        simp at h2
        exact h2.symm
      rw [hnil] at *
      simp [run, step, finish, fieldsOf, hb]
  · intro e he
    rcases hexts e he with h | h
    · simp at h
    · exact h

/-- assigning (through the mutable accessor) a field that is not there yet creates it, and disturbs
    no field with another key -/
theorem assign_new_ok (dr : String → Bool) (b : Buf) (d : D) (v : Val) (hv : v.ty = d.ty) (hf : b.find d = none) :
    (b.assign dr d v).2 = [] ∧
    (b.assign dr d v).1.find d = some (Ext.mk d.offset d.size v false) ∧
    (∀ d', KeyNe d d' → (b.assign dr d v).1.find d' = b.find d') := by
  unfold Buf.assign
  rw [hf]
  simp only
  refine ⟨trivial, ?_, ?_⟩
  · rw [find_eq] at hf ⊢
    simp only
    rw [List.find?_append, hf]
    simp [keyOf, hv]
  · intro d' hk
    rw [find_eq, find_eq]
    simp only
    rw [List.find?_append]
    have : keyOf d' (Ext.mk d.offset d.size v false) = false := by
      cases hq : keyOf d' (Ext.mk d.offset d.size v false) with
      | false => rfl
      | true =>
        exfalso
        unfold keyOf at hq
        simp only [Bool.and_eq_true, beq_iff_eq, Bool.not_false] at hq
        exact hk ⟨hq.1.1.1, hq.1.1.2, by rw [← hv]; exact hq.1.2⟩
    cases h : b.exts.find? (keyOf d') with
    | some e => simp
    | none => simp [this]

end Truc.Mach
