import TrucModel.Model.Definition
/- Concrete histories used by the non-vacuity examples of the property files. -/
namespace Truc.Ex

def I (n : String) (s a : Nat) : Info := ⟨n, "t", s, a, UNSET, false⟩

/-- three variants, a zero-size datum, a `[u8;3]`, a 12/4 datum, three different strategies -/
def h1 : List Req :=
  [.add (I "a" 4 4), .add (I "z" 0 2), .add (I "b" 3 1), .close .simple,
   .remove 0, .add (I "c" 12 4), .add (I "d" 1 1), .close .basic,
   .add (I "e" 2 2), .close .appendRev]

end Truc.Ex
