import TrucModel.Proofs.Memory
import TrucModel.Proofs.Refine
import TrucModel.Proofs.Reachable
/-
  C06 — Everything stored in a record is destroyed exactly once.
  Goal (full statement): ledger balance over every API operation sequence.  Proved so far
  (`_partial`, the two machine facts the balance rests on): a droppable value that has been read out
  of a record can never be read out again (the second attempt is a machine error, not a silent
  double drop), and reading it out does not disturb any other field.
-/
namespace Truc.Mach
open Truc.Gen

/-- once read out, a value is gone: when the datum's key is unique in the buffer, a second load of a
    droppable datum fails -/
theorem C06_no_second_read_partial (dr : String → Bool) (b b' : Buf) (d : D) (v : Val) (hd : dr d.ty = true)
    (huniq : ∀ e1 ∈ b.exts, ∀ e2 ∈ b.exts, keyOf d e1 = true → keyOf d e2 = true → e1 = e2)
    (hnodup : b.exts.Nodup)
    (h : b.load dr d = .ok (v, b')) : b'.load dr d = .error .readMoved ∨ b'.load dr d = .error .oob := by
  unfold Buf.load at h
  split at h
  · simp at h
  · rename_i hcap
    cases hf : b.find d with
    | none => rw [hf] at h; simp [hd] at h
    | some e =>
      rw [hf] at h
      simp only [hd, if_true, Except.ok.injEq, Prod.mk.injEq] at h
      obtain ⟨_, rfl⟩ := h
      left
      have hnone : (b.markMoved d).find d = none := by
        rw [find_eq]
        unfold Buf.markMoved
        simp only
        rw [List.find?_eq_none]
        intro x hx
        -- every extent of the marked list either is not keyed by d or was the unique keyed one, now moved
        have key : ∀ (l : List Ext), (∀ e1 ∈ l, ∀ e2 ∈ l, keyOf d e1 = true → keyOf d e2 = true → e1 = e2) → l.Nodup →
            ∀ x ∈ markFirst d l, keyOf d x = false := by
          intro l
          induction l with
          | nil => intro _ _ x hx; simp [markFirst] at hx
          | cons e es ih =>
            intro hu hn x hx
            unfold markFirst at hx
            split at hx
            · rename_i hk
              rcases List.mem_cons.1 hx with rfl | hx
              · simp [keyOf]
              · cases hq : keyOf d x with
                | false => rfl
                | true =>
                  exfalso
                  have hke : keyOf d e = true := by simpa [keyOf] using hk
                  have := hu e List.mem_cons_self x (List.mem_cons_of_mem _ hx) hke hq
                  subst this
                  exact (List.nodup_cons.1 hn).1 hx
            · rename_i hk
              rcases List.mem_cons.1 hx with rfl | hx
              · cases hq : keyOf d x with
                | false => rfl
                | true => exfalso; apply hk; simpa [keyOf] using hq
              · exact ih (fun e1 h1 e2 h2 => hu e1 (List.mem_cons_of_mem _ h1) e2 (List.mem_cons_of_mem _ h2))
                  (List.nodup_cons.1 hn).2 x hx
        simpa using key b.exts huniq hnodup x hx
      unfold Buf.load
      have hc : (b.markMoved d).cap = b.cap := rfl
      rw [if_neg (by rw [hc]; exact hcap), hnone]
      simp [hd]

/-- reading a field out leaves every other field as it was -/
theorem C06_read_frame_partial (b : Buf) (d d' : D)
    (h : ¬(d.offset = d'.offset ∧ d.size = d'.size ∧ d.ty = d'.ty)) : (b.markMoved d).find d' = b.find d' :=
  markMoved_frame b d d' h

/-- **program level, simplest life cycle.** A record built by the generated constructor and then
    dropped destroys exactly the droppable values that were moved into it — each once (the list has
    one entry per field) — and the constructor itself destroys nothing. -/
theorem C06_new_then_drop (dr : String → Bool) (cap : Nat) (s : Spec) (hwf : WFData cap s.data) (vals : List Val)
    (hl : vals.length = s.data.length) (hty : ∀ p ∈ s.data.zip vals, p.2.ty = p.1.ty) :
    ∃ b st st', call dr cap (ctorNew s) { args := [("from", fieldsOf s.data vals)] } = .ok st ∧ st.result = .record b ∧ st.drops = [] ∧
      call dr cap (dropFn s) { self_ := some b } = .ok st' ∧ st'.drops = vals.filter (fun v => dr v.ty) := by
  obtain ⟨b, st, hcall, hres, hcap, hdrops, _, hfound, _, _⟩ := ctorNew_ok dr cap s hwf vals hl hty
  have hf : ∀ d ∈ s.data, ∃ e, b.find d = some e := fun d hd => by
    obtain ⟨i, hi, rfl⟩ := List.mem_iff_getElem.1 hd
    exact ⟨_, hfound (s.data[i], vals[i]'(by omega)) (by rw [List.mem_iff_getElem]; exact ⟨i, by simp [hl]; exact hi, by simp⟩)⟩
  obtain ⟨st', hd, hdr, _⟩ := drop_ok dr cap s b hcap hwf hf
  refine ⟨b, st, st', hcall, hres, hdrops, hd, ?_⟩
  rw [hdr]
  congr 1
  apply List.ext_getElem
  · simp [hl]
  · intro i h1 h2
    simp only [List.getElem_map]
    have hi : i < s.data.length := by simpa using h1
    rw [hfound (s.data[i], vals[i]'(by omega)) (by rw [List.mem_iff_getElem]; exact ⟨i, by simp [hl]; exact hi, by simp⟩)]
    rfl

/-- … and when it is unpacked instead, nothing at all is destroyed: every value is handed back -/
theorem C06_new_then_unpack (dr : String → Bool) (cap : Nat) (s : Spec) (hwf : WFData cap s.data) (hrec : "record" ∉ s.data.map (·.name))
    (vals : List Val) (hl : vals.length = s.data.length) (hty : ∀ p ∈ s.data.zip vals, p.2.ty = p.1.ty) :
    ∃ b st st', call dr cap (ctorNew s) { args := [("from", fieldsOf s.data vals)] } = .ok st ∧ st.result = .record b ∧ st.drops = [] ∧
      call dr cap (unpackFn s) { self_ := some b, selfGlue := some s.data } = .ok st' ∧ st'.drops = [] ∧
      st'.result = .struct ((s.data.map (·.name)).zip vals) none := by
  obtain ⟨b, st, hcall, hres, hcap, hdrops, _, hfound, _, _⟩ := ctorNew_ok dr cap s hwf vals hl hty
  have hf : ∀ d ∈ s.data, ∃ e, b.find d = some e := fun d hd => by
    obtain ⟨i, hi, rfl⟩ := List.mem_iff_getElem.1 hd
    exact ⟨_, hfound (s.data[i], vals[i]'(by omega)) (by rw [List.mem_iff_getElem]; exact ⟨i, by simp [hl]; exact hi, by simp⟩)⟩
  obtain ⟨st', hu, hr, hd, _⟩ := unpack_ok dr cap s b hcap hwf hrec hf
  refine ⟨b, st, st', hcall, hres, hdrops, hu, hd, ?_⟩
  rw [hr]
  congr 2
  apply List.ext_getElem
  · simp [hl]
  · intro i h1 h2
    simp only [List.getElem_map]
    have hi : i < s.data.length := by simpa using h1
    rw [hfound (s.data[i], vals[i]'(by omega)) (by rw [List.mem_iff_getElem]; exact ⟨i, by simp [hl]; exact hi, by simp⟩)]
    rfl

/-- **any life cycle.** A record reached by any sequence of constructor / conversions / writes, when
    finally dropped, destroys exactly the droppable values its fields hold (one per droppable field,
    none twice: `RecInv.atMost`), without machine error; when unpacked it destroys nothing and hands
    every field value back. Together with `C05_convert` (a conversion destroys exactly the removed
    droppable values, or returns them) every value moved in is destroyed or handed back exactly once. -/
theorem C06_end_of_life (dr : String → Bool) (cap : Nat) (specs : List Spec) (hm : ModuleWF dr cap specs)
    (k : Nat) (b : Buf) (h : Reach dr cap specs k b) :
    ∃ s, specs[k]? = some s ∧
      (∃ st, call dr cap (dropFn s) { self_ := some b } = .ok st ∧ st.drops = (s.data.map (valOf b)).filter (fun v => dr v.ty)) ∧
      ("record" ∉ s.data.map (·.name) →
        ∃ st, call dr cap (unpackFn s) { self_ := some b, selfGlue := some s.data } = .ok st ∧ st.drops = [] ∧
          st.result = .struct ((s.data.map (·.name)).zip (s.data.map (valOf b))) none) := by
  obtain ⟨s, hs, hc, hinv⟩ := reach_inv dr cap specs hm k b h
  have hwf := hm.data s (List.mem_of_getElem? hs)
  refine ⟨s, hs, ?_, ?_⟩
  · obtain ⟨st, h1, h2, _⟩ := drop_inv_ok dr cap s b hc hwf hinv
    exact ⟨st, h1, h2⟩
  · intro hrec
    obtain ⟨st, h1, h2, h3⟩ := unpack_inv_ok dr cap s b hc hwf hrec hinv
    exact ⟨st, h1, h3, h2⟩

/-- fields removed by a conversion that does not return them are destroyed by that conversion -/
theorem C06_removed_dropped (dr : String → Bool) (cap : Nat) (sp0 sp : Spec) (uninit : Bool)
    (hw : ConvWF cap sp0.data sp.data sp.minus sp.plus) (b0 : Buf) (hcap : b0.cap = cap) (hinv : RecInv dr b0 sp0.data)
    (hrec : "record" ∉ sp.minus.map (·.name)) (hpod : ∀ d ∈ sp.plus, d.uninit = true → dr d.ty = false)
    (hz : ∀ p ∈ sp.plus, p.size = 0 → dr p.ty = true)
    (vals : List Val) (hl : vals.length = (plusWritten sp uninit).length)
    (hty : ∀ p ∈ (plusWritten sp uninit).zip vals, p.2.ty = p.1.ty) :
    ∃ st, call dr cap (convFn sp uninit false)
        { from_ := some b0, fromGlue := some sp0.data, args := [("plus", fieldsOf (plusWritten sp uninit) vals)] } = .ok st ∧
      st.drops = (minusVals sp b0).filter (fun v => dr v.ty) := by
  obtain ⟨b2, st, hcall, _, hres, _⟩ := conv_ok dr cap sp0 sp uninit false hw b0 hcap hinv hrec hpod hz vals hl hty
  simp only [Bool.false_eq_true, if_false] at hres
  exact ⟨st, hcall, hres.2⟩

/-- non-vacuity -/
example :
    let a : D := ⟨0, "a", "H", 8, 8, 0, false⟩
    let b : Buf := ⟨16, [⟨0, 8, ⟨5, "H"⟩, false⟩]⟩
    (match b.load (fun t => t == "H") a with
     | .ok (v, b') => (v.id == 5) && (match b'.load (fun t => t == "H") a with | .error .readMoved => true | _ => false)
     | .error _ => false) = true := by decide +kernel

end Truc.Mach
