import TrucModel.Model.TypeName
/-
  The lexer of the type-name model ignores whitespace: any two spellings with the same token sequence
  lex identically (C17, second sentence).
-/
namespace Truc.TN

inductive Tok where
  | ident (cs : List Char)
  | colons
  | punct (c : Char)

def Tok.chars : Tok → List Char
  | .ident cs => cs
  | .colons => [':', ':']
  | .punct c => [c]

def Tok.str (t : Tok) : String := String.ofList t.chars

def Tok.isIdent : Tok → Bool
  | .ident _ => true
  | _ => false

/-- identifiers are non-empty runs of identifier characters; punctuation is a single character that
    is neither an identifier character, nor whitespace, nor `:` -/
def Tok.wf : Tok → Prop
  | .ident cs => cs ≠ [] ∧ ∀ c ∈ cs, isIdentChar c = true
  | .colons => True
  | .punct c => isIdentChar c = false ∧ c.isWhitespace = false ∧ c ≠ ':'

def allWs (l : List Char) : Prop := ∀ c ∈ l, c.isWhitespace = true

theorem ws_not_ident {c : Char} (h : c.isWhitespace = true) : isIdentChar c = false ∧ c ≠ ':' := by
  simp only [Char.isWhitespace, Bool.or_eq_true, decide_eq_true_eq] at h
  rcases h with ((rfl | rfl) | rfl) | rfl <;> exact ⟨by decide, by decide⟩

theorem ident_not_colon {c : Char} (h : isIdentChar c = true) : c ≠ ':' := by
  intro hc; subst hc; revert h; decide

theorem lex_ws (ws rest : List Char) (cur : List Char) (acc : List String) (h : allWs ws) (hne : ws ≠ []) :
    lex (ws ++ rest) cur acc = lex rest [] (flushCur cur acc) := by
  induction ws generalizing cur acc with
  | nil => exact absurd rfl hne
  | cons w ws ih =>
    have hw := h w List.mem_cons_self
    obtain ⟨hni, hnc⟩ := ws_not_ident hw
    rw [List.cons_append, lex.eq_3 _ _ _ _ (fun _ hc _ => hnc hc)]
    simp only [hni, Bool.false_eq_true, if_false, hw, if_true]
    by_cases hws : ws = []
    · subst hws; rfl
    · rw [ih [] (flushCur cur acc) (fun c hc => h c (List.mem_cons_of_mem _ hc)) hws]
      simp [flushCur]

theorem lex_ident (cs rest : List Char) (cur : List Char) (acc : List String) (h : ∀ c ∈ cs, isIdentChar c = true) :
    lex (cs ++ rest) cur acc = lex rest (cur ++ cs) acc := by
  induction cs generalizing cur with
  | nil => simp
  | cons c cs ih =>
    have hc := h c List.mem_cons_self
    rw [List.cons_append, lex.eq_3 _ _ _ _ (fun _ hcc _ => ident_not_colon hc hcc)]
    simp only [hc, if_true]
    rw [ih (cur ++ [c]) (fun x hx => h x (List.mem_cons_of_mem _ hx))]
    simp

theorem lex_punct (c : Char) (rest cur : List Char) (acc : List String)
    (h : isIdentChar c = false ∧ c.isWhitespace = false ∧ c ≠ ':') :
    lex (c :: rest) cur acc = lex rest [] (flushCur cur acc ++ [String.ofList [c]]) := by
  rw [lex.eq_3 _ _ _ _ (fun _ hcc _ => h.2.2 hcc)]
  simp [h.1, h.2.1]

/-- a spelling: separator, token, separator, token, …, trailing separator -/
def render : List (List Char × Tok) → List Char → List Char
  | [], trailing => trailing
  | (sep, t) :: more, trailing => sep ++ t.chars ++ render more trailing

/-- separators are whitespace; two identifiers in a row are separated by at least one character -/
def Spaced : Bool → List (List Char × Tok) → Prop
  | _, [] => True
  | prevIdent, (sep, t) :: more =>
    allWs sep ∧ t.wf ∧ (prevIdent = true → t.isIdent = true → sep ≠ []) ∧ Spaced t.isIdent more

theorem flushCur_nil (acc : List String) : flushCur [] acc = acc := by simp [flushCur]

theorem lex_render : ∀ (items : List (List Char × Tok)) (trailing cur : List Char) (acc : List String),
    allWs trailing → Spaced (!cur.isEmpty) items →
    lex (render items trailing) cur acc = flushCur cur acc ++ items.map (fun p => p.2.str) := by
  intro items
  induction items with
  | nil =>
    intro trailing cur acc htr _
    simp only [render, List.map_nil, List.append_nil]
    by_cases ht : trailing = []
    · subst ht; rfl
    · have := lex_ws trailing [] cur acc htr ht
      simp only [List.append_nil] at this
      rw [this, lex.eq_1, flushCur_nil]
  | cons p more ih =>
    intro trailing cur acc htr hsp
    obtain ⟨sep, t⟩ := p
    obtain ⟨hsep, hwf, hadj, hmore⟩ := hsp
    simp only [render, List.map_cons, List.append_assoc]
    -- after the separator: either nothing pending, or (empty separator) the pending identifier and a non-identifier token
    have key : ∀ (cur' : List Char) (acc' : List String), (cur' ≠ [] → t.isIdent = false) →
        lex (t.chars ++ render more trailing) cur' acc' = flushCur cur' acc' ++ t.str :: more.map (fun p => p.2.str) := by
      intro cur' acc' hc
      cases t with
      | ident cs =>
        have hcur : cur' = [] := by
          apply Classical.byContradiction
          intro hne; have := hc hne; simp [Tok.isIdent] at this
        subst hcur
        simp only [Tok.chars]
        rw [lex_ident cs _ [] acc' hwf.2]
        simp only [List.nil_append]
        have hne : (!cs.isEmpty) = true := by
          cases cs with
          | nil => exact absurd rfl hwf.1
          | cons _ _ => rfl
        rw [ih trailing cs acc' htr (by rw [hne]; exact hmore)]
        have : flushCur cs acc' = acc' ++ [String.ofList cs] := by
          unfold flushCur
          cases cs with
          | nil => exact absurd rfl hwf.1
          | cons _ _ => rfl
        rw [this, flushCur_nil]
        simp [Tok.str, Tok.chars]
      | colons =>
        simp only [Tok.chars, List.cons_append, List.nil_append]
        rw [lex.eq_2, ih trailing [] _ htr (by simpa [Tok.isIdent] using hmore), flushCur_nil]
        simp [Tok.str, Tok.chars]
      | punct c =>
        simp only [Tok.chars, List.cons_append, List.nil_append]
        rw [lex_punct c _ _ _ hwf, ih trailing [] _ htr (by simpa [Tok.isIdent] using hmore), flushCur_nil]
        simp [Tok.str, Tok.chars]
    by_cases hs : sep = []
    · subst hs
      simp only [List.nil_append]
      apply key
      intro hne
      cases hti : t.isIdent with
      | false => rfl
      | true =>
        have hp : (!cur.isEmpty) = true := by
          cases cur with
          | nil => exact absurd rfl hne
          | cons _ _ => rfl
        exact absurd rfl (hadj hp hti)
    · rw [lex_ws sep _ cur acc hsep hs, key [] _ (fun h => absurd rfl h), flushCur_nil]

end Truc.TN
