import TrucModel.Proofs.SimpleStep
/-
  Every shipped strategy satisfies `CloseOk` / `CloseFrame`.
-/
namespace Truc

theorem Fresh.of_perm {defs : Defs} {base add add' : List Nat} (hf : Fresh defs base add) (hp : add'.Perm add) :
    Fresh defs base add' :=
  ⟨fun a ha => hf.notin a (hp.mem_iff.1 ha), fun a ha => hf.inRange a (hp.mem_iff.1 ha),
   hp.nodup_iff.2 hf.nodup, fun a ha => hf.alignPos a (hp.mem_iff.1 ha)⟩

theorem CloseOk.of_perm {defs : Defs} {l add add' : List Nat} {defs' : Defs} {l' : List Nat}
    (h : CloseOk defs l add' defs' l') (hp : add'.Perm add) : CloseOk defs l add defs' l' :=
  { inv := h.inv
    perm := h.perm.trans (List.Perm.append_left l hp)
    len := h.len
    frame := fun id hid => h.frame id (fun hm => hid (hp.mem_iff.1 hm))
    shape := h.shape }

theorem insertBySize_perm (defs : Defs) (id : Nat) (acc : List Nat) : (insertBySize defs id acc).Perm (id :: acc) := by
  induction acc with
  | nil => simp [insertBySize]
  | cons x xs ih =>
    unfold insertBySize
    split
    · exact List.Perm.refl _
    · exact (List.Perm.cons x ih).trans (List.Perm.swap id x xs)

theorem sortBySizeDesc_perm (defs : Defs) (add : List Nat) : (sortBySizeDesc defs add).Perm add := by
  unfold sortBySizeDesc
  suffices h : ∀ acc, (add.foldl (fun acc id => insertBySize defs id acc) acc).Perm (acc ++ add) by
    simpa using h []
  induction add with
  | nil => intro acc; simp
  | cons a rest ih =>
    intro acc
    simp only [List.foldl_cons]
    refine (ih _).trans ?_
    refine (List.Perm.append_right rest (insertBySize_perm defs a acc)).trans ?_
    simpa using (List.perm_middle (l₁ := acc) (l₂ := rest) (a := a)).symm

theorem simpleLoop_ok (ids : List Nat) : ∀ (s : SState), LInv s.defs s.data → GInv s.defs s.data s.gaps →
    Fresh s.defs s.data ids →
    ∃ s', simpleLoop s ids = some s' ∧ CloseOk s.defs s.data ids s'.defs s'.data := by
  induction ids with
  | nil => intro s hl _ _; exact ⟨s, rfl, { CloseFrame.nil s.defs s.data with inv := hl }⟩
  | cons id rest ih =>
    intro s hl hg hf
    have hid : id ∉ s.data := hf.notin id List.mem_cons_self
    have hlt : id < s.defs.length := hf.inRange id List.mem_cons_self
    have hpos : 0 < al s.defs id := hf.alignPos id List.mem_cons_self
    obtain ⟨s1, hstep, hl1, hg1, ⟨o, hdefs⟩, hperm⟩ := simpleStep_ok hl hg hid hlt hpos
    have hf1 : Fresh s1.defs s1.data rest := hdefs ▸ hf.tail o hperm
    obtain ⟨s', hloop, hok⟩ := ih s1 hl1 hg1 hf1
    refine ⟨s', ?_, ?_⟩
    · unfold simpleLoop; rw [hstep]; exact hloop
    · have hfr := hok.toCloseFrame
      rw [hdefs] at hfr
      exact { CloseFrame.cons hperm hfr with inv := hok.inv }

theorem simple_ok {defs : Defs} {data add rm : List Nat} (hl : LInv defs data)
    (hf : Fresh defs (removeData data rm) add) :
    ∃ defs' l', simple defs data add rm = some (defs', l') ∧ CloseOk defs (removeData data rm) add defs' l' := by
  have hl0 := hl.removeData rm
  have hp := sortBySizeDesc_perm defs add
  obtain ⟨s', hloop, hok⟩ := simpleLoop_ok (sortBySizeDesc defs add)
    ⟨defs, removeData data rm, initialGaps defs (removeData data rm)⟩ hl0 (initialGaps_ok _ _ hl0.sorted) (hf.of_perm hp)
  refine ⟨s'.defs, s'.data, ?_, hok.of_perm hp⟩
  unfold simple
  simp only [hloop]

theorem basic_ok {defs : Defs} {data add rm : List Nat} (hl : LInv defs data)
    (hf : Fresh defs (removeData data rm) add) :
    ∃ defs' l', basic defs data add rm = some (defs', l') ∧ CloseOk defs (removeData data rm) add defs' l' := by
  unfold basic
  exact basicLoop_ok add defs (removeData data rm) 0 0 (hl.removeData rm) hf ⟨Nat.zero_le _, by simp⟩

theorem appendData_ok {defs : Defs} {data add rm : List Nat} (hl : LInv defs data)
    (hf : Fresh defs (removeData data rm) add) :
    CloseOk defs (removeData data rm) add (appendData defs data add rm).1 (appendData defs data add rm).2 :=
  pushAll_ok add defs _ (hl.removeData rm) hf

theorem appendDataReverse_ok {defs : Defs} {data add rm : List Nat} (hl : LInv defs data)
    (hf : Fresh defs (removeData data rm) add) :
    CloseOk defs (removeData data rm) add (appendDataReverse defs data add rm).1 (appendDataReverse defs data add rm).2 :=
  (pushAll_ok add.reverse defs _ (hl.removeData rm) hf.reverse).of_reverse

/-- all four native strategies: never panic, keep the layout invariant -/
theorem runStrategy_ok {st : Strategy} (hn : st.isNative = true) {defs : Defs} {data add rm : List Nat}
    (hl : LInv defs data) (hf : Fresh defs (removeData data rm) add) :
    ∃ defs' l', runStrategy st defs data add rm = some (defs', l') ∧ CloseOk defs (removeData data rm) add defs' l' := by
  have hany : add.any (fun d => decide (al defs d = 0)) = false := by
    rw [List.any_eq_false]
    intro a ha
    have := hf.alignPos a ha
    simp; omega
  unfold runStrategy
  rw [hany]
  simp only [Bool.and_false, Bool.false_eq_true, if_false]
  cases st with
  | simple => exact simple_ok hl hf
  | basic => exact basic_ok hl hf
  | append => exact ⟨_, _, rfl, appendData_ok hl hf⟩
  | appendRev => exact ⟨_, _, rfl, appendDataReverse_ok hl hf⟩
  | gAppend => simp [Strategy.isNative] at hn
  | gAppendRev => simp [Strategy.isNative] at hn

/-- the generic strategies: membership and frame, no layout -/
theorem runStrategy_generic {st : Strategy} (hn : st.isNative = false) (defs : Defs) (data add rm : List Nat) :
    ∃ l', runStrategy st defs data add rm = some (defs, l') ∧ CloseFrame defs (removeData data rm) add defs l' := by
  unfold runStrategy
  rw [hn]
  simp only [Bool.false_and, Bool.false_eq_true, if_false]
  cases st with
  | gAppend => exact ⟨_, rfl, ⟨List.Perm.refl _, rfl, fun _ _ => rfl, fun _ => sameShape_refl _⟩⟩
  | gAppendRev =>
    exact ⟨_, rfl, ⟨List.Perm.append_left _ (List.reverse_perm add), rfl, fun _ _ => rfl, fun _ => sameShape_refl _⟩⟩
  | simple => simp [Strategy.isNative] at hn
  | basic => simp [Strategy.isNative] at hn
  | append => simp [Strategy.isNative] at hn
  | appendRev => simp [Strategy.isNative] at hn

end Truc
