import TrucModel.Proofs.Simple
/-
  `simple`: one iteration preserves `LInv` and `GInv`; the loop; the whole strategy.
-/
namespace Truc

theorem ins_length {l : List Nat} {k id : Nat} (hk : k ≤ l.length) :
    (l.take k ++ id :: l.drop k).length = l.length + 1 := by
  simp; omega

section gapins
variable {defs : Defs} {l : List Nat} {id k o : Nat}

theorem GapOk.ins_before {g' : Gap} (h : GapOk defs l g') (hk : k ≤ l.length) (hid : id ∉ l) (hlt : id < defs.length)
    (hidx : g'.idx < k) (hstop : g'.stop ≤ o) :
    GapOk (setOffset defs id o) (l.take k ++ id :: l.drop k) g' := by
  have hne : ∀ e ∈ l, e ≠ id := fun e he heq => hid (heq ▸ he)
  refine ⟨h.pos, by rw [ins_length hk]; have := h.idx; omega, ?_, ?_⟩
  · intro e he
    rw [ins_take_le (by omega) hk] at he
    rw [stop_setOffset_ne _ _ _ _ (hne e (List.mem_of_mem_take he))]
    exact h.before e he
  · intro e he
    rcases ins_drop_le_mem (by omega) hk he with rfl | he
    · rw [off_setOffset_self _ _ _ hlt]; exact hstop
    · rw [off_setOffset_ne _ _ _ _ (hne e (List.mem_of_mem_drop he))]
      exact h.after e he

theorem GapOk.ins_after {g0 : Gap} (h : GapOk defs l g0) (hk : k ≤ l.length) (hid : id ∉ l) (hlt : id < defs.length)
    (hidx : k < g0.idx) (hstart : o + sz defs id ≤ g0.start) :
    GapOk (setOffset defs id o) (l.take k ++ id :: l.drop k) { g0 with idx := g0.idx + 1 } := by
  have hne : ∀ e ∈ l, e ≠ id := fun e he heq => hid (heq ▸ he)
  refine ⟨h.pos, by rw [ins_length hk]; have := h.idx; show g0.idx + 1 < _; omega, ?_, ?_⟩
  · intro e he
    rcases ins_take_gt_mem (j := g0.idx + 1) (by omega) hk he with rfl | he
    · rw [stop_setOffset_self _ _ _ hlt]; exact hstart
    · simp only [Nat.add_sub_cancel] at he
      rw [stop_setOffset_ne _ _ _ _ (hne e (List.mem_of_mem_take he))]
      exact h.before e he
  · intro e he
    rw [ins_drop_gt (j := g0.idx + 1) (by omega) hk] at he
    simp only [Nat.add_sub_cancel] at he
    rw [off_setOffset_ne _ _ _ _ (hne e (List.mem_of_mem_drop he))]
    exact h.after e he

/-- the part of the old gap left before the datum -/
theorem GapOk.ins_gb {g : Gap} (h : GapOk defs l g) (hid : id ∉ l) (hlt : id < defs.length)
    {b : Nat} (hb : 0 < b) (ho : g.start + b = o) (hfit : o + sz defs id ≤ g.stop) :
    GapOk (setOffset defs id o) (l.take g.idx ++ id :: l.drop g.idx) ⟨g.start, g.start + b, g.idx⟩ := by
  have hk : g.idx ≤ l.length := Nat.le_of_lt h.idx
  have hne : ∀ e ∈ l, e ≠ id := fun e he heq => hid (heq ▸ he)
  refine ⟨by show g.start < g.start + b; omega, by rw [ins_length hk]; have := h.idx; show g.idx < _; omega, ?_, ?_⟩
  · intro e he
    rw [ins_take_le (Nat.le_refl _) hk] at he
    rw [stop_setOffset_ne _ _ _ _ (hne e (List.mem_of_mem_take he))]
    exact h.before e he
  · intro e he
    rcases ins_drop_le_mem (Nat.le_refl _) hk he with rfl | he
    · rw [off_setOffset_self _ _ _ hlt]; show g.start + b ≤ o; omega
    · rw [off_setOffset_ne _ _ _ _ (hne e (List.mem_of_mem_drop he))]
      have := h.after e he
      show g.start + b ≤ off defs e
      omega

/-- the part of the old gap left after the datum -/
theorem GapOk.ins_ga {g : Gap} (h : GapOk defs l g) (hid : id ∉ l) (hlt : id < defs.length)
    {a : Nat} (ha : 0 < a) (hstart : g.start ≤ o) (hfit : o + sz defs id + a = g.stop) :
    GapOk (setOffset defs id o) (l.take g.idx ++ id :: l.drop g.idx) ⟨o + sz defs id, g.stop, g.idx + 1⟩ := by
  have hk : g.idx ≤ l.length := Nat.le_of_lt h.idx
  have hne : ∀ e ∈ l, e ≠ id := fun e he heq => hid (heq ▸ he)
  refine ⟨by show o + sz defs id < g.stop; omega, by rw [ins_length hk]; have := h.idx; show g.idx + 1 < _; omega, ?_, ?_⟩
  · intro e he
    rcases ins_take_gt_mem (j := g.idx + 1) (by omega) hk he with rfl | he
    · rw [stop_setOffset_self _ _ _ hlt]; exact Nat.le_refl _
    · simp only [Nat.add_sub_cancel] at he
      rw [stop_setOffset_ne _ _ _ _ (hne e (List.mem_of_mem_take he))]
      have := h.before e he
      show stop defs e ≤ o + sz defs id
      omega
  · intro e he
    rw [ins_drop_gt (j := g.idx + 1) (by omega) hk] at he
    simp only [Nat.add_sub_cancel] at he
    rw [off_setOffset_ne _ _ _ _ (hne e (List.mem_of_mem_drop he))]
    exact h.after e he

theorem GapOk.push {g' : Gap} (h : GapOk defs l g') (hs : Sorted defs l) (hid : id ∉ l) (hlt : id < defs.length)
    (ho : endOf defs l ≤ o) :
    GapOk (setOffset defs id o) (l ++ [id]) g' := by
  have hne : ∀ e ∈ l, e ≠ id := fun e he heq => hid (heq ▸ he)
  refine ⟨h.pos, by have := h.idx; simp; omega, ?_, ?_⟩
  · intro e he
    rw [List.take_append_of_le_length (Nat.le_of_lt h.idx)] at he
    rw [stop_setOffset_ne _ _ _ _ (hne e (List.mem_of_mem_take he))]
    exact h.before e he
  · intro e he
    rw [List.drop_append_of_le_length (Nat.le_of_lt h.idx), List.mem_append] at he
    rcases he with he | he
    · rw [off_setOffset_ne _ _ _ _ (hne e (List.mem_of_mem_drop he))]
      exact h.after e he
    · simp at he; subst he
      rw [off_setOffset_self _ _ _ hlt]
      have hx : l[g'.idx]'h.idx ∈ l.drop g'.idx := by
        rw [List.mem_drop_iff_getElem]; exact ⟨0, by simpa using h.idx, by simp⟩
      have h1 := h.after _ hx
      have h2 := stop_le_endOf hs (List.mem_of_mem_drop hx)
      unfold stop at h2
      omega

end gapins

/-- decomposition of the gap list around the chosen gap -/
theorem gaps_split {gaps : List Gap} {gi : Nat} {g : Gap} (h : gaps[gi]? = some g) :
    gaps = gaps.take gi ++ g :: gaps.drop (gi + 1) := by
  obtain ⟨hlt, hg⟩ := List.getElem?_eq_some_iff.1 h
  conv => lhs; rw [← List.take_append_drop gi gaps, List.drop_eq_getElem_cons hlt, hg]

theorem simpleStep_ok {s : SState} {id : Nat} (hl : LInv s.defs s.data) (hg : GInv s.defs s.data s.gaps)
    (hid : id ∉ s.data) (hlt : id < s.defs.length) (hpos : 0 < al s.defs id) :
    ∃ s', simpleStep s id = some s' ∧ LInv s'.defs s'.data ∧ GInv s'.defs s'.data s'.gaps ∧
      (∃ o, s'.defs = setOffset s.defs id o) ∧ s'.data.Perm (id :: s.data) := by
  obtain ⟨defs, l, gaps⟩ := s
  simp only at hl hg hid hlt hpos
  unfold simpleStep
  simp only
  cases hch : chooseFit (al defs id) (minGroup (collectFits (sz defs id) (al defs id) gaps 0)) with
  | some f =>
    have hfit : FitOk gaps (sz defs id) (al defs id) f := by
      refine chooseFit_ok ?_ hch
      intro f' hf'
      exact collectFits_ok _ _ hpos gaps gaps [] rfl f' (minGroup_subset _ f' hf')
    obtain ⟨⟨g, hgi, hstart, hstop⟩, hdend, hal⟩ := hfit
    simp only [hgi]
    have hgmem : g ∈ gaps := List.mem_of_getElem? hgi
    have hgok := hg.ok g hgmem
    have hk : g.idx ≤ l.length := Nat.le_of_lt hgok.idx
    rw [insertAt?_of_le hk]
    simp only
    have hsplit := gaps_split hgi
    have hinc := hg.inc
    rw [hsplit, List.pairwise_append, List.pairwise_cons] at hinc
    obtain ⟨hincA, ⟨hgB, hincB⟩, hAgB⟩ := hinc
    have hAk : ∀ a ∈ gaps.take f.gi, a.idx < g.idx := fun a ha => hAgB a ha g List.mem_cons_self
    have hAB : ∀ a ∈ gaps.take f.gi, ∀ b ∈ gaps.drop (f.gi + 1), a.idx < b.idx :=
      fun a ha b hb => hAgB a ha b (List.mem_cons_of_mem _ hb)
    -- the inserted datum
    have hbefore : ∀ e ∈ l.take g.idx, stop defs e ≤ f.dstart := fun e he => by
      have := hgok.before e he; omega
    have hafter : ∀ e ∈ l.drop g.idx, f.dstart + sz defs id ≤ off defs e := fun e he => by
      have := hgok.after e he; omega
    have hl' := hl.insert (k := g.idx) (o := f.dstart) hid hlt hbefore hafter hal
    refine ⟨_, rfl, hl', ?_, ⟨f.dstart, rfl⟩, perm_insert l g.idx id⟩
    simp only
    -- the middle part
    have hmid_ok : ∀ m ∈ (if f.before > 0 then [(⟨g.start, g.start + f.before, g.idx⟩ : Gap)] else []) ++
        (if f.after > 0 then [(⟨f.dend, g.stop, g.idx + 1⟩ : Gap)] else []),
        GapOk (setOffset defs id f.dstart) (l.take g.idx ++ id :: l.drop g.idx) m ∧ g.idx ≤ m.idx ∧ m.idx ≤ g.idx + 1 := by
      intro m hm
      rcases List.mem_append.1 hm with hm | hm
      · split at hm
        · rename_i hb
          simp at hm; subst hm
          exact ⟨hgok.ins_gb hid hlt hb hstart (by omega), Nat.le_refl _, Nat.le_succ _⟩
        · simp at hm
      · split at hm
        · rename_i ha
          simp at hm; subst hm
          have := hgok.ins_ga (o := f.dstart) hid hlt ha (by omega) (by omega)
          rw [← hdend] at this
          exact ⟨this, Nat.le_succ _, Nat.le_refl _⟩
        · simp at hm
    have hmid_inc : ((if f.before > 0 then [(⟨g.start, g.start + f.before, g.idx⟩ : Gap)] else []) ++
        (if f.after > 0 then [(⟨f.dend, g.stop, g.idx + 1⟩ : Gap)] else [])).Pairwise (fun a b => a.idx < b.idx) := by
      split <;> split <;> simp
    constructor
    · intro m hm
      simp only [List.append_assoc, List.mem_append] at hm
      rcases hm with hm | hm | hm | hm
      · -- a gap before the chosen one
        have hmok := hg.ok m (List.mem_of_mem_take hm)
        have hmk := hAk m hm
        refine hmok.ins_before hk hid hlt hmk ?_
        have hx1 : l[m.idx]'hmok.idx ∈ l.drop m.idx := by
          rw [List.mem_drop_iff_getElem]; exact ⟨0, by simpa using hmok.idx, by simp⟩
        have hx2 : l[m.idx]'hmok.idx ∈ l.take g.idx := by
          rw [List.mem_take_iff_getElem]; exact ⟨m.idx, by have := hmok.idx; omega, rfl⟩
        have h1 := hmok.after _ hx1
        have h2 := hgok.before _ hx2
        unfold stop at h2
        omega
      · exact (hmid_ok m (List.mem_append_left _ hm)).1
      · exact (hmid_ok m (List.mem_append_right _ hm)).1
      · -- a gap after the chosen one
        unfold bumpIdx at hm
        obtain ⟨m0, hm0, rfl⟩ := List.mem_map.1 hm
        have hm0ok := hg.ok m0 (List.mem_of_mem_drop hm0)
        have hkm : g.idx < m0.idx := hgB m0 hm0
        refine hm0ok.ins_after hk hid hlt hkm ?_
        have hx1 : l[g.idx]'hgok.idx ∈ l.drop g.idx := by
          rw [List.mem_drop_iff_getElem]; exact ⟨0, by simpa using hgok.idx, by simp⟩
        have hx2 : l[g.idx]'hgok.idx ∈ l.take m0.idx := by
          rw [List.mem_take_iff_getElem]; exact ⟨g.idx, by have := hm0ok.idx; omega, rfl⟩
        have h1 := hgok.after _ hx1
        have h2 := hm0ok.before _ hx2
        unfold stop at h2
        omega
    · have hB' : (bumpIdx (gaps.drop (f.gi + 1))).Pairwise (fun a b => a.idx < b.idx) := by
        unfold bumpIdx
        rw [List.pairwise_map]
        exact hincB.imp (fun h => by simpa using h)
      have hB'k : ∀ b ∈ bumpIdx (gaps.drop (f.gi + 1)), g.idx + 1 < b.idx := by
        intro b hb
        unfold bumpIdx at hb
        obtain ⟨b0, hb0, rfl⟩ := List.mem_map.1 hb
        have := hgB b0 hb0
        show g.idx + 1 < b0.idx + 1
        omega
      rw [List.append_assoc, List.append_assoc, List.pairwise_append]
      refine ⟨hincA, ?_, ?_⟩
      · rw [← List.append_assoc, List.pairwise_append]
        refine ⟨hmid_inc, hB', ?_⟩
        intro m hm b hb
        have := (hmid_ok m hm).2.2
        have := hB'k b hb
        omega
      · intro a ha b hb
        have hak := hAk a ha
        rw [← List.append_assoc] at hb
        rcases List.mem_append.1 hb with hb | hb
        · have := (hmid_ok b hb).2.1; omega
        · have := hB'k b hb; omega
  | none =>
    simp only
    unfold pushDatum
    simp only
    have hle := le_alignUp (endOf defs l) (al defs id) hpos
    have hl' := hl.push hid hlt hpos
    unfold pushDatum at hl'; simp only at hl'
    have hperm : (l ++ [id]).Perm (id :: l) := by simpa using (List.perm_append_singleton id l)
    refine ⟨_, rfl, hl', ?_, ⟨_, rfl⟩, hperm⟩
    simp only
    have hold : ∀ g' ∈ gaps, GapOk (setOffset defs id (alignUp (endOf defs l) (al defs id))) (l ++ [id]) g' :=
      fun g' hg' => (hg.ok g' hg').push hl.sorted hid hlt hle
    split
    · rename_i hgt
      constructor
      · intro m hm
        rcases List.mem_append.1 hm with hm | hm
        · exact hold m hm
        · simp at hm; subst hm
          have hne : ∀ e ∈ l, e ≠ id := fun e he heq => hid (heq ▸ he)
          refine ⟨hgt, by simp, ?_, ?_⟩
          · intro e he
            simp only [List.take_left'] at he
            rw [stop_setOffset_ne _ _ _ _ (hne e he)]
            exact stop_le_endOf hl.sorted he
          · intro e he
            simp only [List.drop_left'] at he
            simp at he; subst he
            rw [off_setOffset_self _ _ _ hlt]
            exact Nat.le_refl _
      · rw [List.pairwise_append]
        refine ⟨hg.inc, by simp, ?_⟩
        intro a ha b hb
        simp at hb; subst hb
        have := (hg.ok a ha).idx
        show a.idx < l.length
        omega
    · exact ⟨hold, hg.inc⟩

end Truc
