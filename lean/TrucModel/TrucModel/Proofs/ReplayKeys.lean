import TrucModel.Model.Replay
/-
  The variant map returned by `convert_record_definition` has one key per source variant, in order
  (for any source definition, whenever the replay succeeds).
-/
namespace Truc

theorem replayRemovals_vMap : ∀ (l : List Nat) (r r' : RState), replayRemovals r l = .ok r' → r'.vMap = r.vMap := by
  intro l
  induction l with
  | nil => intro r r' h; simp only [replayRemovals, Outcome.ok.injEq] at h; rw [← h]
  | cons d rest ih =>
    intro r r' h
    unfold replayRemovals at h
    split at h <;> try (simp at h; done)
    split at h <;> try (simp at h; done)
    exact (ih _ _ h).trans rfl

theorem replayAdditions_vMap (src : Defs) : ∀ (l : List Nat) (r r' : RState), replayAdditions src r l = .ok r' → r'.vMap = r.vMap := by
  intro l
  induction l with
  | nil => intro r r' h; simp only [replayAdditions, Outcome.ok.injEq] at h; rw [← h]
  | cons d rest ih =>
    intro r r' h
    unfold replayAdditions at h
    split at h <;> try (simp at h; done)
    split at h <;> try (simp at h; done)
    exact (ih _ _ h).trans rfl

theorem replayVariants_keys (src : Defs) (st : Strategy) :
    ∀ (vs : List (List Nat)) (r : RState) (prev : Option (List Nat)) (k : Nat) (r' : RState),
      replayVariants src st r prev vs k = .ok r' →
      r'.vMap.map (·.1) = r.vMap.map (·.1) ++ List.range' k vs.length := by
  intro vs
  induction vs with
  | nil =>
    intro r prev k r' h
    simp only [replayVariants, Outcome.ok.injEq] at h
    subst h; simp
  | cons v vs ih =>
    intro r prev k r' h
    unfold replayVariants at h
    simp only at h
    split at h <;> try (simp at h; done)
    split at h <;> try (simp at h; done)
    split at h <;> try (simp at h; done)
    rename_i _ ra hra _ rb hrb _ t vid _
    have := ih _ _ _ _ h
    rw [this]
    simp only [List.map_append, List.map_cons, List.map_nil, List.length_cons, List.range'_succ, List.append_assoc,
      List.singleton_append]
    rw [replayAdditions_vMap _ _ _ _ hrb, replayRemovals_vMap _ _ _ hra]

end Truc
