#!/bin/sh
# builds the framework from files on disk only (offline)
set -e
python3 /verif/translators/translate.py
cd /verif/lean/TrucModel && lake build TrucModel trucdrv 2>&1 | tail -3
cd /verif/harness && CARGO_NET_OFFLINE=true cargo build --offline --release 2>&1 | tail -2
