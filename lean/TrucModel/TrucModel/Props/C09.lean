import TrucModel.Proofs.VecSpec
/-
  C09 — A failing or panicking converter loses nothing and frees everything.
-/
namespace Truc.Vec

variable {T U E P : Type}

/-- if the left-to-right pass fails at some call (error value `e` or panic payload `p`), the real
    loop stops there (no later call), drops every output produced so far (as last modified) and every
    input not yet consumed exactly once — `dropped` lists each such slot once and `leaked = []` —,
    releases the buffer, and hands back that very error value / payload.  The consumed inputs were
    handed to the converter (which owns them: `ConverterContract`). -/
theorem C09_cleanup (lay : Nat × Nat) (conv : Nat → T → Option U → COut U E P) (input : List T)
    (why : Sum E P) (outs : List U) (rest : List T) (calls : List (T × Option U))
    (h : spec conv input [] [] = .failed why outs rest calls) :
    tryConvert lay lay conv input = .failed why (outs.map .out ++ rest.map .inp) [] true calls ∧
    ∃ (pre : List T) (t : T) (prev p' : Option U),
      input = pre ++ t :: rest ∧ calls.map (·.1) = pre ++ [t] ∧ calls.getLast? = some (t, prev) ∧
      ((∃ e, why = .inl e ∧ conv (calls.length - 1) t prev = .err e p') ∨
       (∃ p, why = .inr p ∧ conv (calls.length - 1) t prev = .panic p p')) := by
  refine ⟨by rw [tryConvert_refines, h]; rfl, ?_⟩
  obtain ⟨pre, t, prev, p', h1, h2, h3, h4⟩ := spec_failed conv input [] [] why outs rest calls h
  exact ⟨pre, t, prev, p', h1, by simpa using h2, h3, h4⟩

/-- every run ends in exactly one of the two ways, never in a memory error -/
theorem C09_no_memory_error (lay : Nat × Nat) (conv : Nat → T → Option U → COut U E P) (input : List T) :
    ∀ e, tryConvert lay lay conv input ≠ .ub e := by
  intro e
  rw [tryConvert_refines]
  cases spec conv input [] [] <;> simp [ofSpec]

/-- "loses nothing", as an accounting identity: when the pass fails, every input element was either
    handed to the converter (in order, exactly once) or is among the unconsumed ones the cleanup drops -/
theorem C09_every_input_accounted (conv : Nat → T → Option U → COut U E P) (input : List T)
    (why : Sum E P) (outs : List U) (rest : List T) (calls : List (T × Option U))
    (h : spec conv input [] [] = .failed why outs rest calls) :
    input = calls.map (·.1) ++ rest := by
  obtain ⟨pre, t, _, _, h1, h2, _, _⟩ := spec_failed conv input [] [] why outs rest calls h
  have h2' : calls.map (·.1) = pre ++ [t] := by simpa using h2
  rw [h1, h2']; simp

/-- whatever the layouts, the converter and the input: no outcome leaves a live element behind or
    keeps the buffer of a failed run, and no outcome is a memory error -/
theorem C09_never_leaks (layT layU : Nat × Nat) (conv : Nat → T → Option U → COut U E P) (input : List T) :
    match tryConvert layT layU conv input with
    | .done _ leaked _ => leaked = []
    | .failed _ _ leaked freed _ => leaked = [] ∧ freed = true
    | .refused dropped _ => dropped = input.map .inp
    | .ub _ => False := by
  by_cases h : layT.1 ≠ layU.1 ∨ layT.2 ≠ layU.2
  · have : tryConvert layT layU conv input = .refused (input.map .inp) [] := by unfold tryConvert; simp [h]
    rw [this]
  · have he : layT = layU := by
      have h1 : layT.1 = layU.1 := Classical.byContradiction fun hn => h (Or.inl hn)
      have h2 : layT.2 = layU.2 := Classical.byContradiction fun hn => h (Or.inr hn)
      exact Prod.ext h1 h2
    subst he
    rw [tryConvert_refines]
    cases spec conv input [] [] <;> simp [ofSpec]

/-- non-vacuity: failure at the third of four elements, after one conversion and one abandon -/
example : tryConvert (E := String) (P := Unit) (8, 8) (8, 8)
    (fun k (t : Nat) (p : Option Nat) =>
      if k = 0 then .converted (t * 10) p else if k = 1 then .abandoned (p.map (· + 1)) else .err "boom" p) [1, 2, 3, 4]
    = .failed (.inl "boom") [.out 11, .inp 4] [] true [(1, none), (2, some 10), (3, some 11)] := by decide +kernel

end Truc.Vec
