import TrucModel.Proofs.VecSpec
/-
  C10 — Vector conversion refuses element types of different size or alignment.
-/
namespace Truc.Vec

variable {T U E P : Type}

/-- different size or different alignment: refused before any element is read, the converter is
    never called, and the input vector is dropped normally (each element exactly once) -/
theorem C10_refuse (layT layU : Nat × Nat) (h : layT.1 ≠ layU.1 ∨ layT.2 ≠ layU.2)
    (conv : Nat → T → Option U → COut U E P) (input : List T) :
    tryConvert layT layU conv input = .refused (input.map .inp) [] := by
  unfold tryConvert; simp [h]

/-- and equal layouts are never refused -/
theorem C10_accept (lay : Nat × Nat) (conv : Nat → T → Option U → COut U E P) (input : List T) :
    ∀ d c, tryConvert lay lay conv input ≠ .refused d c := by
  intro d c
  rw [tryConvert_refines]
  cases spec conv input [] [] <;> simp [ofSpec]

example : tryConvert (E := Unit) (P := Unit) (8, 8) (8, 4) (fun _ (t : Nat) _ => .converted t none) [1, 2]
    = .refused [.inp 1, .inp 2] [] := by decide +kernel

end Truc.Vec
