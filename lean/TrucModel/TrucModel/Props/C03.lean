import TrucModel.Proofs.Corollaries
import TrucModel.Props.Examples
import TrucModel.Proofs.GenProps
/-
  C03 — A datum never moves; all variants of a record have one size and alignment.
  First half (builder): once a variant is closed, the whole description (offset, size, alignment,
  name, type) of each of its data is the same in every later state, whatever is requested later.
  Second half (generated record types) is in the generator section below.
-/
namespace Truc

theorem C03_offset_stable (pre suf : List Req) (hv : ∀ r ∈ pre ++ suf, r.valid) :
    ∀ v ∈ (run pre).variants, v ∈ (run (pre ++ suf)).variants ∧
      ∀ d ∈ v, info (run (pre ++ suf)).defs d = info (run pre).defs d := by
  have hpre : ∀ r ∈ pre, r.valid := fun r hr => hv r (List.mem_append_left _ hr)
  have hsuf : ∀ r ∈ suf, r.valid := fun r hr => hv r (List.mem_append_right _ hr)
  have hst := foldl_step_stable suf (run pre) (reachable_BInv pre hpre) hsuf
  have hrun : run (pre ++ suf) = suf.foldl step (run pre) := by simp [run, List.foldl_append]
  rw [hrun]
  intro v hvm
  exact ⟨hst.1 v hvm, hst.2 v hvm⟩

/-- second half: all record types generated for one definition have the same size and alignment, for
    `CAP = MAX_SIZE` and any larger `CAP`: every variant's record struct is `#[repr(align(A))]` with the
    *same* `A` (`C02_published`) around the same single field of `CAP` bytes, hence the same layout
    `(roundUp CAP A, A)` — rustc's `repr(align)` rule is the modelled part (validated by channel X `sizes`). -/
theorem C03_same_layout (d : Definition) (cap : Nat) (s₁ s₂ : Gen.Spec) (h₁ : s₁ ∈ Gen.specs d) (h₂ : s₂ ∈ Gen.specs d) :
    Gen.recLayout cap s₁.align = Gen.recLayout cap s₂.align ∧ Gen.fragRecord s₁ = Gen.fragRecord { s₂ with vid := s₁.vid } := by
  have a₁ := Gen.specs_align d s₁ h₁
  have a₂ := Gen.specs_align d s₂ h₂
  refine ⟨by rw [a₁, a₂], ?_⟩
  simp [Gen.fragRecord, a₁, a₂]

/-- non-vacuity: the first variant of the example history survives two more closes unchanged -/
example : (run (Ex.h1.take 4)).variants = [[0, 2, 1]] ∧ [0, 2, 1] ∈ (run Ex.h1).variants := by
  decide +kernel

end Truc
