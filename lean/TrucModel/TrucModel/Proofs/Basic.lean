import TrucModel.Model.Builder
/-
  Helper lemmas: `setOffset`, `alignUp`, list surgery. (No property statements here.)
-/
namespace Truc

/-! ### alignUp -/

theorem alignUp_dvd (c a : Nat) : a ∣ alignUp c a := by
  unfold alignUp; exact Nat.dvd_mul_left _ _

theorem le_alignUp (c a : Nat) (h : 0 < a) : c ≤ alignUp c a := by
  unfold alignUp
  have h1 := Nat.div_add_mod (c + a - 1) a
  have h2 := Nat.mod_lt (c + a - 1) h
  rw [Nat.mul_comm] at h1
  omega

theorem alignUp_lt (c a : Nat) (h : 0 < a) : alignUp c a < c + a := by
  unfold alignUp
  have h1 := Nat.div_add_mod (c + a - 1) a
  have h2 := Nat.mod_lt (c + a - 1) h
  rw [Nat.mul_comm] at h1
  omega

theorem alignUp_of_dvd (c a : Nat) (h : 0 < a) (hd : a ∣ c) : alignUp c a = c := by
  obtain ⟨k, rfl⟩ := hd
  unfold alignUp
  have : (a * k + a - 1) / a = k := by
    rw [Nat.div_eq_iff h]
    constructor
    · rw [Nat.mul_comm]; omega
    · rw [Nat.mul_comm]
      have : a * (k + 1) = a * k + a := by rw [Nat.mul_add, Nat.mul_one]
      omega
  rw [this, Nat.mul_comm]

/-! ### setOffset -/

@[simp] theorem setOffset_length (defs : Defs) (id o : Nat) : (setOffset defs id o).length = defs.length := by
  simp [setOffset]

theorem info_setOffset (defs : Defs) (id o j : Nat) :
    info (setOffset defs id o) j =
      if j = id then { info defs id with offset := (if id < defs.length then o else (info defs id).offset) }
      else info defs j := by
  unfold info setOffset
  by_cases hj : j = id
  · subst hj
    simp only [List.getElem?_modify_eq, if_true]
    by_cases hl : j < defs.length
    · simp [hl, List.getElem?_eq_getElem]
    · have : defs[j]? = none := List.getElem?_eq_none (by omega)
      simp [hl, this]
  · simp only [hj, if_false]
    rw [List.getElem?_modify_ne]
    omega

@[simp] theorem sz_setOffset (defs : Defs) (id o j : Nat) : sz (setOffset defs id o) j = sz defs j := by
  unfold sz; rw [info_setOffset]; split <;> simp_all

@[simp] theorem al_setOffset (defs : Defs) (id o j : Nat) : al (setOffset defs id o) j = al defs j := by
  unfold al; rw [info_setOffset]; split <;> simp_all

theorem off_setOffset_ne (defs : Defs) (id o j : Nat) (h : j ≠ id) : off (setOffset defs id o) j = off defs j := by
  unfold off; rw [info_setOffset]; simp [h]

theorem off_setOffset_self (defs : Defs) (id o : Nat) (h : id < defs.length) : off (setOffset defs id o) id = o := by
  unfold off; rw [info_setOffset]; simp [h]

theorem stop_setOffset_ne (defs : Defs) (id o j : Nat) (h : j ≠ id) : stop (setOffset defs id o) j = stop defs j := by
  unfold stop; rw [off_setOffset_ne _ _ _ _ h, sz_setOffset]

theorem stop_setOffset_self (defs : Defs) (id o : Nat) (h : id < defs.length) :
    stop (setOffset defs id o) id = o + sz defs id := by
  unfold stop; rw [off_setOffset_self _ _ _ h, sz_setOffset]

/-- everything but the offset is untouched by `setOffset` -/
def sameShape (a b : Info) : Prop :=
  a.name = b.name ∧ a.ty = b.ty ∧ a.size = b.size ∧ a.align = b.align ∧ a.uninit = b.uninit

theorem sameShape_refl (a : Info) : sameShape a a := ⟨rfl, rfl, rfl, rfl, rfl⟩

theorem sameShape_trans {a b c : Info} (h1 : sameShape a b) (h2 : sameShape b c) : sameShape a c := by
  obtain ⟨a1, a2, a3, a4, a5⟩ := h1
  obtain ⟨b1, b2, b3, b4, b5⟩ := h2
  exact ⟨a1.trans b1, a2.trans b2, a3.trans b3, a4.trans b4, a5.trans b5⟩

theorem sameShape_setOffset (defs : Defs) (id o j : Nat) : sameShape (info (setOffset defs id o) j) (info defs j) := by
  rw [info_setOffset]
  by_cases h : j = id
  · subst h; simp [sameShape]
  · simp [h, sameShape]

/-! ### list surgery -/

theorem mem_removeData {l rm : List Nat} {x : Nat} : x ∈ removeData l rm ↔ x ∈ l ∧ x ∉ rm := by
  simp [removeData]

theorem removeData_sublist (l rm : List Nat) : (removeData l rm).Sublist l := by
  unfold removeData; exact List.filter_sublist

theorem insertAt?_eq_some {l : List Nat} {i x : Nat} {l' : List Nat} (h : insertAt? l i x = some l') :
    i ≤ l.length ∧ l' = l.take i ++ x :: l.drop i := by
  unfold insertAt? at h
  split at h
  · simp at h; exact ⟨by assumption, h.symm⟩
  · simp at h

theorem insertAt?_of_le {l : List Nat} {i x : Nat} (h : i ≤ l.length) :
    insertAt? l i x = some (l.take i ++ x :: l.drop i) := by
  simp [insertAt?, h]

theorem perm_insert (l : List Nat) (i x : Nat) : (l.take i ++ x :: l.drop i).Perm (x :: l) := by
  have : (l.take i ++ x :: l.drop i).Perm (x :: (l.take i ++ l.drop i)) := List.perm_middle
  simpa using this

theorem mem_insert {l : List Nat} {i x y : Nat} : y ∈ l.take i ++ x :: l.drop i ↔ y = x ∨ y ∈ l := by
  rw [(perm_insert l i x).mem_iff]; simp

end Truc
