import TrucModel.Model.Replay
import TrucModel.Model.VecConvert
import TrucModel.Model.Gen
/-
  Line-protocol driver (channel L): one request per line on stdin, one answer per line on stdout.
-/
open Truc

def joinNat (l : List Nat) : String := ",".intercalate (l.map toString)

def offStr (o : Nat) : String := if o = UNSET then "-" else toString o

def defsStr (defs : Defs) : String :=
  ";".intercalate (defs.map fun i => s!"{offStr i.offset},{i.size},{i.align}")

def parseStrategy : String → Option Strategy
  | "simple" => some .simple
  | "basic" => some .basic
  | "append" => some .append
  | "append_rev" => some .appendRev
  | "gappend" => some .gAppend
  | "gappend_rev" => some .gAppendRev
  | _ => none

def errStr : ErrKind → String
  | .dupName => "dup"
  | .alreadyRemoved => "already"
  | .notInPrev => "noprev"
  | .notInCurrent => "nocur"

def escape (s : String) : String := s.replace "\n" "\\n"

/-! ### channel V -/
namespace V
open Truc.Vec

abbrev UV := Nat × Nat   -- (ledger id, version)

/-- the scripted converter of channel V (same definition as in the Rust harness) -/
def scripted (script : Array String) (k : Nat) (_t : Nat) (prev : Option UV) : COut UV Nat Nat :=
  match script[k]?.getD "c" with
  | "c" => .converted (1000 + k, 0) prev
  | "t" => .converted (1000 + k, 0) (prev.map fun (i, v) => (i, v + 1))
  | "r" => .converted (1000 + k, 0) (prev.map fun _ => (2000 + k, 0))
  | "a" => .abandoned prev
  | "e" => .err (3000 + k) prev
  | _ => .panic (4000 + k) prev

def uStr (u : UV) : String := s!"U{u.1}.{u.2}"
def slotStr : Slot Nat UV → String
  | .inp t => s!"T{t}"
  | .out u => uStr u
  | .dead => "dead"

def sortedJoin (l : List String) : String := ",".intercalate (l.toArray.qsort (· < ·)).toList

def callsStr (calls : List (Nat × Option UV)) : String :=
  "|".intercalate (calls.map fun (t, p) => s!"T{t}:" ++ (match p with | some u => uStr u | none => "-"))

/-- what the scripted converter itself drops at call k (it owns its input) -/
def convDrops (script : Array String) (calls : List (Nat × Option UV)) : String :=
  let rec go (k : Nat) : List (Nat × Option UV) → List String
    | [] => []
    | (t, p) :: rest =>
      let base := [s!"T{t}"]
      let extra := match script[k]?.getD "c", p with
        | "r", some u => [uStr u]
        | "p3", _ => [uStr (1000 + k, 0)]
        | _, _ => []
      (s!"{k}:" ++ sortedJoin (base ++ extra)) :: go (k + 1) rest
  ";".intercalate (go 0 calls)

def run (toks : List String) : String :=
  match toks with
  | sT :: aT :: sU :: aU :: n :: script =>
    match sT.toNat?, aT.toNat?, sU.toNat?, aU.toNat?, n.toNat? with
    | some sT, some aT, some sU, some aU, some n =>
      let sc := script.toArray
      let out : VOut Nat UV Nat Nat := tryConvert (sT, aT) (sU, aU) (scripted sc) (List.range n)
      match out with
      | .done outs leaked calls =>
        s!"done outs={",".intercalate (outs.map slotStr)} leaked={sortedJoin (leaked.map slotStr)} calls={callsStr calls} convdrops={convDrops sc calls} alloc=same"
      | .failed why dropped leaked freed calls =>
        let w := match why with | .inl e => s!"e{e}" | .inr p => s!"p{p}"
        s!"failed why={w} fndrops={sortedJoin (dropped.map slotStr)} leaked={sortedJoin (leaked.map slotStr)} calls={callsStr calls} convdrops={convDrops sc calls} alloc={if freed then "freed" else "leaked"}"
      | .refused dropped calls =>
        s!"refused fndrops={sortedJoin (dropped.map slotStr)} calls={callsStr calls}"
      | .ub _ => "ub"
    | _, _, _, _, _ => "bad-op"
  | _ => "bad-op"
end V

structure DState where
  b : BState := {}
  built : Option Definition := none
  dead : Bool := false     -- a panic happened: the Rust side stops the history too

def infoStr (i : Info) : String :=
  s!"{i.name} {i.ty} {i.size} {i.align} {offStr i.offset} {if i.uninit then 1 else 0}"

def dstep (s : DState) (line : String) : DState × String :=
  match line.trimAscii.toString.splitOn " " with
  | "reset" :: _ => ({}, "--")
  | "vec" :: toks => (s, V.run toks)
  | cmd =>
    if s.dead then (s, "dead") else
    match cmd with
    | "add" :: name :: ty :: size :: align :: un :: _ =>
      match size.toNat?, align.toNat? with
      | some sz, some al =>
        let (b, r) := s.b.addDatum ⟨name, ty.replace "_" " ", sz, al, UNSET, un == "1"⟩
        ({ s with b := b }, match r with | .ok id => s!"ok {id}" | .error e => s!"err {errStr e}")
      | _, _ => (s, "bad-op")
    | ["rm", id] =>
      match id.toNat? with
      | some id =>
        let (b, r) := s.b.removeDatum id
        ({ s with b := b }, match r with | .ok _ => "ok" | .error e => s!"err {errStr e}")
      | none => (s, "bad-op")
    | ["close", st] =>
      match parseStrategy st with
      | some st =>
        match s.b.close st with
        | some (b, vid) =>
          ({ s with b := b }, s!"v {vid} [{joinNat (b.variants.getLast?.getD [])}] {defsStr b.defs}")
        | none => ({ s with dead := true }, "panic")
      | none => (s, "bad-op")
    | ["cur"] => (s, s!"ids {joinNat s.b.currentData}")
    | ["byname", n] => (s, match s.b.currentByName n with | some id => s!"some {id}" | none => "none")
    | ["vbyname", v, n] =>
      match v.toNat? with
      | some v => (s, match s.b.variantByName v n with | some id => s!"some {id}" | none => "none")
      | none => (s, "bad-op")
    | ["get", id] =>
      match id.toNat? with
      | some id => (s, match s.b.defs[id]? with | some i => s!"some {infoStr i}" | none => "none")
      | none => (s, "bad-op")
    | ["variant", v] =>
      match v.toNat? with
      | some v => (s, match s.b.variants[v]? with | some l => s!"some [{joinNat l}]" | none => "none")
      | none => (s, "bad-op")
    | ["build"] =>
      match s.b.build with
      | some d => ({ s with built := some d }, "ok")
      | none => ({ s with dead := true }, "panic")
    | ["maxsize"] =>
      match s.built with
      | some d => (match d.maxSize with | some n => (s, toString n) | none => (s, "panic"))
      | none => (s, "bad-op")
    | ["align"] =>
      match s.built with
      | some d => (s, toString d.maxTypeAlign)
      | none => (s, "bad-op")
    | ["display"] =>
      match s.built with
      | some d => (match d.display with | some t => (s, "text " ++ escape t) | none => (s, "panic"))
      | none => (s, "bad-op")
    | ["gen", flags] =>
      match s.built with
      | some d =>
        let cfg : Gen.Cfg := { clone := flags.contains 'c', serde := flags.contains 's' }
        (s, match Gen.module d cfg with
          | some items => "ir " ++ "\t".intercalate (Gen.render items)
          | none => "panic")
      | none => (s, "bad-op")
    | ["replay", st] =>
      match s.built, parseStrategy st with
      | some d, some st =>
        (s, match replay d st with
          | .panic => "panic"
          | .err e => s!"err {errStr e}"
          | .ok r =>
            let m := ",".intercalate (r.vMap.map fun (a, b) => s!"{a}>{b}")
            let vs := ";".intercalate (r.tgt.variants.map fun l => "[" ++ joinNat l ++ "]")
            let ds := ";".intercalate (r.tgt.defs.map infoStr)
            s!"map {m} | {vs} | {ds}")
      | _, _ => (s, "bad-op")
    | _ => (s, "bad-op")

partial def loop (h : IO.FS.Stream) (out : IO.FS.Stream) (s : DState) : IO Unit := do
  let line ← h.getLine
  if line.isEmpty then return ()
  let (s', o) := dstep s line
  out.putStrLn o
  loop h out s'

def main : IO Unit := do
  let stdin ← IO.getStdin
  let stdout ← IO.getStdout
  loop stdin stdout {}
