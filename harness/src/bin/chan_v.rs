//! Channel V: real `try_convert_vec_in_place` under scripted converters, ledger-carrying elements and a
//! counting global allocator. Writes req.txt (script lines for the Lean model) and impl.txt.
//!
//! usage: chan_v <mode> <seed> <count> <outdir>      mode = exhaustive:<maxlen> | random
use std::alloc::{GlobalAlloc, Layout, System};
use std::cell::RefCell;
use std::io::Write;
use std::sync::atomic::{AtomicBool, AtomicUsize, Ordering};

use truc_runtime::convert::{convert_vec_in_place, try_convert_vec_in_place, VecElementConversionResult};
use verif_harness::Rng;

// ---- counting allocator: watches one address -------------------------------------------------
struct Watch;
static WATCH: AtomicUsize = AtomicUsize::new(0);
static WATCH_SIZE: AtomicUsize = AtomicUsize::new(0);
static FREED: AtomicBool = AtomicBool::new(false);
static BADFREE: AtomicBool = AtomicBool::new(false);
unsafe impl GlobalAlloc for Watch {
    unsafe fn alloc(&self, l: Layout) -> *mut u8 {
        System.alloc(l)
    }
    unsafe fn dealloc(&self, p: *mut u8, l: Layout) {
        if p as usize == WATCH.load(Ordering::SeqCst) && p as usize != 0 {
            FREED.store(true, Ordering::SeqCst);
            // the block must be given back with the layout it was allocated with (GlobalAlloc contract)
            if l.size() != WATCH_SIZE.load(Ordering::SeqCst) { BADFREE.store(true, Ordering::SeqCst); }
            WATCH.store(0, Ordering::SeqCst);   // one shot: the address may be handed out again right away
        }
        System.dealloc(p, l)
    }
}
#[global_allocator]
static A: Watch = Watch;

// ---- ledger -----------------------------------------------------------------------------------
#[derive(Default)]
struct Ledger {
    dropped: std::collections::BTreeSet<(bool, u32)>,
    script: Vec<String>,
    call: usize,
    in_conv: Option<usize>,
    conv_drops: Vec<(usize, String)>,
    fn_drops: Vec<String>,
    calls: Vec<String>,
    zst_t_drops: usize,
    zst_u_drops: usize,
}
thread_local! { static L: RefCell<Ledger> = RefCell::new(Ledger::default()); }

fn log_drop(s: String) {
    L.with(|l| {
        let mut l = l.borrow_mut();
        match l.in_conv {
            Some(k) => l.conv_drops.push((k, s)),
            None => l.fn_drops.push(s),
        }
    })
}

struct ConvGuard;
impl Drop for ConvGuard {
    fn drop(&mut self) {
        L.with(|l| l.borrow_mut().in_conv = None);
    }
}

struct ErrVal(usize);
struct Payload(usize);

trait Elem: Sized {
    fn make(id: u32) -> Self;
    fn label(&self) -> String;
    fn touch(&mut self);
}

macro_rules! elem {
    ($name:ident, $kind:expr, $pay:ty, $mk:expr, $($attr:tt)*) => {
        $($attr)*
        struct $name { id: u32, ver: u32, #[allow(dead_code)] pay: std::mem::ManuallyDrop<$pay> }
        impl Elem for $name {
            fn make(id: u32) -> Self { $name { id, ver: 0, pay: std::mem::ManuallyDrop::new($mk) } }
            fn label(&self) -> String { if $kind == "T" { format!("T{}", self.id) } else { format!("U{}.{}", self.id, self.ver) } }
            fn touch(&mut self) { self.ver += 1; }
        }
        // the payload is released only at the first drop of a given element identity: a second drop of the same element (a stale
        // bitwise copy) is logged like any drop -- the oracle sees it -- without corrupting the allocator of the harness process
        impl Drop for $name {
            fn drop(&mut self) {
                let first = L.with(|l| l.borrow_mut().dropped.insert(($kind == "T", self.id)));
                log_drop(self.label());
                if first { unsafe { std::mem::ManuallyDrop::drop(&mut self.pay); } }
            }
        }
    };
}
elem!(TPlain, "T", (), (), #[repr(C)]);
elem!(UPlain, "U", (), (), #[repr(C)]);
elem!(THeap, "T", Box<u64>, Box::new(7), #[repr(C)]);
elem!(UHeap, "U", Box<u64>, Box::new(9), #[repr(C)]);
elem!(TBig, "T", [u64; 511], [1; 511], #[repr(C)]);
elem!(UBig, "U", [u64; 511], [2; 511], #[repr(C)]);
elem!(TOver, "T", (), (), #[repr(C, align(64))]);
elem!(UOver, "U", (), (), #[repr(C, align(64))]);
// unequal layouts (C10)
elem!(USmall, "U", (), (), #[repr(C, packed(4))]);      // size 8 align 4
elem!(UWide, "U", u64, 0, #[repr(C)]);                  // size 16 align 8
elem!(UOver16, "U", (), (), #[repr(C, align(16))]);     // size 16 align 16
elem!(TWide8, "T", [u32; 2], [0; 2], #[repr(C)]);       // size 16 align 4
elem!(UWide16, "U", [u32; 2], [0; 2], #[repr(C, align(8))]); // size 16 align 8
elem!(TWide16, "T", [u32; 2], [0; 2], #[repr(C, align(8))]); // size 16 align 8
elem!(UWide8, "U", [u32; 2], [0; 2], #[repr(C)]);            // size 16 align 4
elem!(TOver16, "T", (), (), #[repr(C, align(16))]);          // size 16 align 16

thread_local! { static USE_WRAPPER: std::cell::Cell<bool> = std::cell::Cell::new(false); }

fn run_script<T: Elem, U: Elem>(n: usize, script: &[String]) -> String {
    L.with(|l| {
        *l.borrow_mut() = Ledger { script: script.to_vec(), ..Default::default() };
    });
    let mut v: Vec<T> = Vec::with_capacity(n + 3);
    for i in 0..n {
        v.push(T::make(i as u32));
    }
    let ptr = v.as_ptr() as usize;
    let cap = v.capacity();
    let has_alloc = std::mem::size_of::<T>() != 0 && cap != 0;
    WATCH_SIZE.store(cap * std::mem::size_of::<T>(), Ordering::SeqCst);
    WATCH.store(if has_alloc { ptr } else { 0 }, Ordering::SeqCst);
    FREED.store(false, Ordering::SeqCst);
    BADFREE.store(false, Ordering::SeqCst);
    let wrapper = USE_WRAPPER.with(|w| w.get());
    let res = std::panic::catch_unwind(std::panic::AssertUnwindSafe(|| {
        let conv = |t: T, prev: Option<&mut U>| -> Result<VecElementConversionResult<U>, ErrVal> {
            let (k, code) = L.with(|l| {
                let mut l = l.borrow_mut();
                let k = l.call;
                l.call += 1;
                l.in_conv = Some(k);
                let code = l.script.get(k).cloned().unwrap_or("c".into());
                let p = prev.as_ref().map(|u| u.label()).unwrap_or("-".into());
                l.calls.push(format!("{}:{}", t.label(), p));
                (k, code)
            });
            let _g = ConvGuard; // cleared last, also on unwind
            let t = t;
            match code.as_str() {
                "c" => { drop(t); Ok(VecElementConversionResult::Converted(U::make(100000 + k as u32))) }
                "t" => { if let Some(p) = prev { p.touch(); } drop(t); Ok(VecElementConversionResult::Converted(U::make(100000 + k as u32))) }
                "r" => { if let Some(p) = prev { *p = U::make(200000 + k as u32); } drop(t); Ok(VecElementConversionResult::Converted(U::make(100000 + k as u32))) }
                "a" => { drop(t); Ok(VecElementConversionResult::Abandonned) }
                // the previous output is modified (touched / replaced) by a call that abandons its own input
                "ta" => { if let Some(p) = prev { p.touch(); } drop(t); Ok(VecElementConversionResult::Abandonned) }
                "ra" => { if let Some(p) = prev { *p = U::make(200000 + k as u32); } drop(t); Ok(VecElementConversionResult::Abandonned) }
                "e" => { drop(t); Err(ErrVal(300000 + k)) }
                "p1" => { std::panic::panic_any(Payload(400000 + k)) }
                "p2" => { drop(t); std::panic::panic_any(Payload(400000 + k)) }
                _ => { drop(t); let _u = U::make(100000 + k as u32); std::panic::panic_any(Payload(400000 + k)) }
            }
        };
        if wrapper {
            // the infallible entry point (scripts without the `e` code): same behaviour through `convert_vec_in_place`
            let conv = std::panic::AssertUnwindSafe(conv);
            Ok(convert_vec_in_place::<T, U, _>(v, move |t, prev| match (conv.0)(t, prev) { Ok(r) => r, Err(_) => unreachable!() }))
        } else {
            try_convert_vec_in_place::<T, U, _, ErrVal>(v, conv)
        }
    }));
    let freed = FREED.load(Ordering::SeqCst);
    let badfree = BADFREE.load(Ordering::SeqCst);
    let sorted = |mut v: Vec<String>| { v.sort(); v.join(",") };
    let conv_drops = |l: &Ledger| {
        let mut out = vec![];
        for k in 0..l.call {
            let d: Vec<String> = l.conv_drops.iter().filter(|x| x.0 == k).map(|x| x.1.clone()).collect();
            out.push(format!("{}:{}", k, sorted(d)));
        }
        out.join(";")
    };
    match res {
        Ok(Ok(out)) => {
            let same = !has_alloc || (out.as_ptr() as usize == ptr && out.capacity() == cap && !freed);
            let outs: Vec<String> = out.iter().map(|u| u.label()).collect();
            let s = L.with(|l| {
                let l = l.borrow();
                format!("done outs={} leaked={} calls={} convdrops={} alloc={}", outs.join(","), "", l.calls.join("|"), conv_drops(&l), if same { "same" } else { "moved" })
            });
            // the function itself must not have dropped anything
            let fnd = L.with(|l| l.borrow().fn_drops.clone());
            drop(out);
            let bad_on_drop = BADFREE.load(Ordering::SeqCst);
            WATCH.store(0, Ordering::SeqCst);
            let s = if bad_on_drop { s.replace("alloc=same", "alloc=released-with-another-layout") } else { s };
            if !fnd.is_empty() { format!("{} fn-dropped={}", s, sorted(fnd)) } else { s }
        }
        Ok(Err(e)) => L.with(|l| {
            let l = l.borrow();
            WATCH.store(0, Ordering::SeqCst);
            format!("failed why=e{} fndrops={} leaked= calls={} convdrops={} alloc={}", e.0, sorted(l.fn_drops.clone()), l.calls.join("|"), conv_drops(&l), if !has_alloc { "freed" } else if badfree { "released-with-another-layout" } else if freed { "freed" } else { "leaked" })
        }),
        Err(p) => L.with(|l| {
            WATCH.store(0, Ordering::SeqCst);
            let l = l.borrow();
            if l.call == 0 && p.downcast_ref::<String>().map(|s| s.contains("size_of") || s.contains("align_of")).unwrap_or(false) {
                return format!("refused fndrops={} calls=", sorted(l.fn_drops.clone()));
            }
            let why = if let Some(x) = p.downcast_ref::<Payload>() { format!("p{}", x.0) } else if let Some(s) = p.downcast_ref::<String>() { format!("p?{}", s.replace(' ', "_")) } else { "p??".to_string() };
            format!("failed why={} fndrops={} leaked= calls={} convdrops={} alloc={}", why, sorted(l.fn_drops.clone()), l.calls.join("|"), conv_drops(&l), if !has_alloc { "freed" } else if badfree { "released-with-another-layout" } else if freed { "freed" } else { "leaked" })
        }),
    }
}

// zero-size elements carry no id: count drops only
struct TZ;
struct UZ;
impl Drop for TZ { fn drop(&mut self) { L.with(|l| l.borrow_mut().zst_t_drops += 1); } }
impl Drop for UZ { fn drop(&mut self) { L.with(|l| l.borrow_mut().zst_u_drops += 1); } }

/// returns "T-drops U-drops outcome len" and what the script predicts
fn run_zst(n: usize, script: &[String]) -> (String, String) {
    L.with(|l| { *l.borrow_mut() = Ledger { script: script.to_vec(), ..Default::default() }; });
    let v: Vec<TZ> = (0..n).map(|_| TZ).collect();
    let res = std::panic::catch_unwind(std::panic::AssertUnwindSafe(|| {
        try_convert_vec_in_place::<TZ, UZ, _, ErrVal>(v, |t: TZ, prev: Option<&mut UZ>| {
            let (k, code) = L.with(|l| { let mut l = l.borrow_mut(); let k = l.call; l.call += 1; l.calls.push(if prev.is_some() { "s".into() } else { "n".into() }); (k, l.script.get(k).cloned().unwrap_or("c".into())) });
            drop(t);
            match code.as_str() {
                "c" | "t" | "r" => Ok(VecElementConversionResult::Converted(UZ)),
                "a" | "ta" | "ra" => Ok(VecElementConversionResult::Abandonned),
                "e" => Err(ErrVal(300000 + k)),
                _ => std::panic::panic_any(Payload(400000 + k)),
            }
        })
    }));
    let (kind, len) = match res { Ok(Ok(out)) => { let l = out.len(); drop(out); ("done", l) } Ok(Err(_)) => ("err", 0), Err(_) => ("panic", 0) };
    let (td, ud, calls, prevs) = L.with(|l| { let l = l.borrow(); (l.zst_t_drops, l.zst_u_drops, l.call, l.calls.join("")) });
    // prediction straight from the script (the Lean model is exercised by the id-carrying pairs); the converter is handed the most
    // recent output (`s`) as soon as one exists, nothing (`n`) before
    let mut produced = 0; let mut pk = "done"; let mut pcalls = 0; let mut pprevs = String::new();
    for (k, c) in script.iter().enumerate().take(n) {
        pcalls = k + 1;
        pprevs.push(if produced > 0 { 's' } else { 'n' });
        match c.as_str() { "c" | "t" | "r" => produced += 1, "a" | "ta" | "ra" => {}, "e" => { pk = "err"; break; } _ => { pk = "panic"; break; } }
    }
    if n == 0 { pcalls = 0; }
    let plen = if pk == "done" { produced } else { 0 };
    (format!("{} len={} tdrops={} udrops={} calls={} prev={}", kind, len, td, ud, calls, prevs), format!("{} len={} tdrops={} udrops={} calls={} prev={}", pk, plen, n, produced, pcalls, pprevs))
}

// ---- element types without drop glue on the input side (a cleanup gated on `needs_drop::<T>()` would leak the outputs) ----
#[repr(C)]
struct TPod { id: u32, ver: u32 }     // size 8 align 4, no Drop
struct UGlue { _id: u32, _ver: u32 }  // size 8 align 4, Drop counted
impl Drop for UGlue { fn drop(&mut self) { L.with(|l| l.borrow_mut().zst_u_drops += 1); } }

/// plain-data inputs converted to owning outputs: every output ever produced is dropped exactly once (by the cleanup on a
/// failure, by the caller on success); prediction straight from the script (codes t, r count as c; p3 as p2)
fn run_pod(n: usize, script: &[String]) -> (String, String) {
    L.with(|l| { *l.borrow_mut() = Ledger { script: script.to_vec(), ..Default::default() }; });
    let v: Vec<TPod> = (0..n).map(|i| TPod { id: i as u32, ver: 0 }).collect();
    let res = std::panic::catch_unwind(std::panic::AssertUnwindSafe(|| {
        try_convert_vec_in_place::<TPod, UGlue, _, ErrVal>(v, |t: TPod, _prev: Option<&mut UGlue>| {
            let (k, code) = L.with(|l| { let mut l = l.borrow_mut(); let k = l.call; l.call += 1; (k, l.script.get(k).cloned().unwrap_or("c".into())) });
            match code.as_str() {
                "c" | "t" | "r" => Ok(VecElementConversionResult::Converted(UGlue { _id: t.id, _ver: t.ver })),
                "a" | "ta" | "ra" => Ok(VecElementConversionResult::Abandonned),
                "e" => Err(ErrVal(300000 + k)),
                _ => std::panic::panic_any(Payload(400000 + k)),
            }
        })
    }));
    let (kind, len) = match res { Ok(Ok(out)) => { let l = out.len(); drop(out); ("done", l) } Ok(Err(_)) => ("err", 0), Err(_) => ("panic", 0) };
    let (ud, calls) = L.with(|l| { let l = l.borrow(); (l.zst_u_drops, l.call) });
    let mut produced = 0; let mut pk = "done"; let mut pcalls = 0;
    for (k, c) in script.iter().enumerate().take(n) {
        pcalls = k + 1;
        match c.as_str() { "c" | "t" | "r" => produced += 1, "a" | "ta" | "ra" => {}, "e" => { pk = "err"; break; } _ => { pk = "panic"; break; } }
    }
    if n == 0 { pcalls = 0; }
    let plen = if pk == "done" { produced } else { 0 };
    (format!("{} len={} udrops={} calls={}", kind, len, ud, calls), format!("{} len={} udrops={} calls={}", pk, plen, produced, pcalls))
}

/// the same conversion, called from a destructor that runs while the thread is unwinding from an unrelated panic
/// (`std::thread::panicking()` is true): the outcome must not depend on that
fn run_pod_unwinding(n: usize, script: &[String]) -> (String, String) {
    struct Guard<'a> { n: usize, script: &'a [String], out: &'a RefCell<Option<(String, String)>> }
    impl<'a> Drop for Guard<'a> {
        fn drop(&mut self) { *self.out.borrow_mut() = Some(run_pod(self.n, self.script)); }
    }
    let out = RefCell::new(None);
    let _ = std::panic::catch_unwind(std::panic::AssertUnwindSafe(|| {
        let _g = Guard { n, script, out: &out };
        std::panic::panic_any(Payload(99));
    }));
    let r = out.borrow_mut().take();
    r.unwrap_or(("destructor did not run".into(), "-".into()))
}

// ---- input type with padding where the output type carries data (layout 8/4 both; request lines end with `pair=pad`)
#[repr(C)]
struct TPad12 { id: u32, b: u8 }          // two scalars: moved field by field, the three padding bytes are not part of the value
#[repr(C)]
struct UPad12 { id: u32, ver: u32 }
const PAD_BASE: u32 = 0xA1B2_C300;
impl Elem for TPad12 {
    fn make(id: u32) -> Self { TPad12 { id, b: 7 } }
    fn label(&self) -> String { format!("T{}", self.id) }
    fn touch(&mut self) {}
}
impl Elem for UPad12 {
    // every byte of `ver` matters: it sits over `b` and the three padding bytes of the input type
    fn make(id: u32) -> Self { UPad12 { id, ver: PAD_BASE } }
    fn label(&self) -> String { format!("U{}.{}", self.id, self.ver.wrapping_sub(PAD_BASE)) }
    fn touch(&mut self) { self.ver += 1; }
}
impl Drop for TPad12 { fn drop(&mut self) { L.with(|l| l.borrow_mut().dropped.insert((true, self.id))); log_drop(self.label()); } }
impl Drop for UPad12 { fn drop(&mut self) { L.with(|l| l.borrow_mut().dropped.insert((false, self.id))); log_drop(self.label()); } }

// ---- refusal of zero-size element types (C10): size 0 on both sides but different alignment; zero vs non-zero size ----
trait Mk { fn mk() -> Self; }
macro_rules! cnt { ($name:ident, $body:tt, $mk:expr, $($attr:tt)*) => {
    $($attr)* struct $name $body
    impl Mk for $name { fn mk() -> Self { $mk } }
    impl Drop for $name { fn drop(&mut self) { L.with(|l| l.borrow_mut().zst_t_drops += 1); } }
} }
cnt!(Z1, ;, Z1, #[repr(C)]);
cnt!(Z4, ;, Z4, #[repr(C, align(4))]);
cnt!(Z8, ;, Z8, #[repr(C, align(8))]);
#[repr(C)] struct S4(u32);
impl Mk for S4 { fn mk() -> Self { S4(7) } }
impl Drop for S4 { fn drop(&mut self) { L.with(|l| l.borrow_mut().zst_t_drops += 1); } }

fn run_refuse<T: Mk, U: Mk>(n: usize) -> (String, String) {
    L.with(|l| { *l.borrow_mut() = Ledger::default(); });
    let v: Vec<T> = (0..n).map(|_| T::mk()).collect();
    let res = std::panic::catch_unwind(std::panic::AssertUnwindSafe(|| {
        try_convert_vec_in_place::<T, U, _, ErrVal>(v, |t: T, _prev: Option<&mut U>| {
            L.with(|l| l.borrow_mut().call += 1);
            std::mem::forget(t);
            Ok(VecElementConversionResult::Converted(U::mk()))
        })
    }));
    let kind = match res { Ok(Ok(out)) => { std::mem::forget(out); "accepted" } Ok(Err(_)) => "err", Err(_) => "refused" };
    let (td, calls) = L.with(|l| { let l = l.borrow(); (l.zst_t_drops, l.call) });
    (format!("{} calls={} tdrops={}", kind, calls, td), format!("refused calls=0 tdrops={}", n))
}

fn refusals(n: usize, zst: &mut dyn Write) {
    let cases: Vec<(&str, (String, String))> = vec![
        ("Z1->Z8", run_refuse::<Z1, Z8>(n)), ("Z8->Z1", run_refuse::<Z8, Z1>(n)), ("Z4->Z8", run_refuse::<Z4, Z8>(n)), ("Z8->Z4", run_refuse::<Z8, Z4>(n)),
        ("Z4->S4", run_refuse::<Z4, S4>(n)), ("S4->Z4", run_refuse::<S4, Z4>(n)), ("Z1->S4", run_refuse::<Z1, S4>(n)),
    ];
    for (name, (a, b)) in cases {
        writeln!(zst, "refuse {} n={} | {} | {}", name, n, a, b).unwrap();
    }
}

const CODES: [&str; 10] = ["c", "t", "r", "a", "ta", "ra", "e", "p1", "p2", "p3"];

fn dispatch(pair: &str, n: usize, script: &[String]) -> (String, String) {
    // returns (request line, implementation answer); a `-w` suffix drives the infallible wrapper `convert_vec_in_place`
    let (pair, wrapper) = match pair.strip_suffix("-w") { Some(p) => (p, true), None => (pair, false) };
    USE_WRAPPER.with(|w| w.set(wrapper && !script.iter().take(n).any(|c| c == "e")));
    let (lay, ans) = match pair {
        "plain" => ((8, 4, 8, 4), run_script::<TPlain, UPlain>(n, script)),
        "heap" => ((16, 8, 16, 8), run_script::<THeap, UHeap>(n, script)),
        "big" => ((4096, 8, 4096, 8), run_script::<TBig, UBig>(n, script)),
        "over" => ((64, 64, 64, 64), run_script::<TOver, UOver>(n, script)),
        "pad" => ((8, 4, 8, 4), run_script::<TPad12, UPad12>(n, script)),
        "ne-size" => ((8, 4, 16, 8), run_script::<TPlain, UWide>(n, script)),
        "ne-align" => ((16, 4, 16, 8), run_script::<TWide8, UWide16>(n, script)),
        "ne-both" => ((8, 4, 16, 16), run_script::<TPlain, UOver16>(n, script)),
        "ne-heap" => ((16, 8, 8, 4), run_script::<THeap, USmall>(n, script)),
        "ne-align-down" => ((16, 8, 16, 4), run_script::<TWide16, UWide8>(n, script)),
        "ne-align-down2" => ((16, 16, 16, 8), run_script::<TOver16, UWide>(n, script)),
        "ne-size-down" => ((16, 8, 8, 4), run_script::<TWide16, UPlain>(n, script)),
        _ => panic!("pair"),
    };
    (format!("vec {} {} {} {} {} {}{}", lay.0, lay.1, lay.2, lay.3, n, script.join(" "), if pair == "pad" { if script.is_empty() { "pair=pad" } else { " pair=pad" } } else { "" }), ans)
}

fn main() {
    verif_harness::silence_panics();
    // layouts claimed in the request lines must be the real ones
    assert_eq!((std::mem::size_of::<TPlain>(), std::mem::align_of::<TPlain>()), (8, 4));
    assert_eq!((std::mem::size_of::<UPlain>(), std::mem::align_of::<UPlain>()), (8, 4));
    assert_eq!((std::mem::size_of::<THeap>(), std::mem::align_of::<THeap>()), (16, 8));
    assert_eq!((std::mem::size_of::<TBig>(), std::mem::align_of::<TBig>()), (4096, 8));
    assert_eq!((std::mem::size_of::<TOver>(), std::mem::align_of::<TOver>()), (64, 64));
    assert_eq!((std::mem::size_of::<UWide>(), std::mem::align_of::<UWide>()), (16, 8));
    assert_eq!((std::mem::size_of::<TWide8>(), std::mem::align_of::<TWide8>()), (16, 4));
    assert_eq!((std::mem::size_of::<UWide16>(), std::mem::align_of::<UWide16>()), (16, 8));
    assert_eq!((std::mem::size_of::<UOver16>(), std::mem::align_of::<UOver16>()), (16, 16));
    assert_eq!((std::mem::size_of::<USmall>(), std::mem::align_of::<USmall>()), (8, 4));
    assert_eq!((std::mem::size_of::<TWide16>(), std::mem::align_of::<TWide16>()), (16, 8));
    assert_eq!((std::mem::size_of::<UWide8>(), std::mem::align_of::<UWide8>()), (16, 4));
    assert_eq!((std::mem::size_of::<TOver16>(), std::mem::align_of::<TOver16>()), (16, 16));
    let args: Vec<String> = std::env::args().collect();
    let mode = args.get(1).cloned().unwrap_or("random".into());
    let seed: u64 = args.get(2).and_then(|s| s.parse().ok()).unwrap_or(1);
    let count: usize = args.get(3).and_then(|s| s.parse().ok()).unwrap_or(1000);
    let outdir = args.get(4).cloned().unwrap_or("/verif/.work/V".into());
    std::fs::create_dir_all(&outdir).unwrap();
    let mk = |n: &str| std::io::BufWriter::new(std::fs::File::create(format!("{}/{}", outdir, n)).unwrap());
    let (mut req, mut imp, mut zst) = (mk("req.txt"), mk("impl.txt"), mk("zst.txt"));
    let mut nscripts = 0usize;
    // the script about to run is noted first (unbuffered): if the process dies on it (abort, double free, segfault) the check
    // can still name the input
    let mut cur = std::fs::File::create(format!("{}/cur.txt", outdir)).unwrap();
    let mut emit = |pair: &str, n: usize, script: &[String], req: &mut dyn Write, imp: &mut dyn Write| {
        {
            use std::io::Seek;
            let line = format!("{} {} {}\n", pair, n, script.join(" "));
            let _ = cur.rewind();
            let _ = cur.set_len(0);
            let _ = cur.write_all(line.as_bytes());
        }
        let (r, a) = dispatch(pair, n, script);
        writeln!(req, "{}", r).unwrap();
        writeln!(imp, "{}", a).unwrap();
    };
    if let Some(maxlen) = mode.strip_prefix("exhaustive:") {
        let maxlen: usize = maxlen.parse().unwrap();
        for n in 0..=maxlen {
            let total = CODES.len().pow(n as u32);
            for idx in 0..total {
                let mut x = idx;
                let script: Vec<String> = (0..n).map(|_| { let c = CODES[x % CODES.len()]; x /= CODES.len(); c.to_string() }).collect();
                emit(if idx % 5 == 1 { "plain-w" } else { "plain" }, n, &script, &mut req, &mut imp);
                nscripts += 1;
                if idx % 7 == 0 { emit(if idx % 14 == 0 { "heap-w" } else { "heap" }, n, &script, &mut req, &mut imp); nscripts += 1; }
                if idx % 11 == 3 { emit("pad", n, &script, &mut req, &mut imp); nscripts += 1; }
                if idx % 64 == 0 {
                    let (a, b) = run_zst(n, &script);
                    writeln!(zst, "{} | {} | {}", script.join(" "), a, b).unwrap();
                }
                if idx % 16 == 3 || n <= 3 {
                    let (a, b) = run_pod(n, &script);
                    writeln!(zst, "pod {} | {} | {}", script.join(" "), a, b).unwrap();
                }
                if (idx % 64 == 5 || n <= 2) && script.iter().take(n).all(|c| matches!(c.as_str(), "c" | "t" | "r" | "a" | "ta" | "ra" | "e")) {
                    let (a, b) = run_pod_unwinding(n, &script);
                    writeln!(zst, "pod-while-unwinding {} | {} | {}", script.join(" "), a, b).unwrap();
                }
            }
        }
        // refusal matrix, every length 0..=maxlen
        for n in 0..=maxlen + 3 {
            refusals(n, &mut zst);
            for pair in ["ne-size", "ne-align", "ne-both", "ne-heap", "ne-align-down", "ne-align-down2", "ne-size-down"] {
                let script: Vec<String> = (0..n).map(|_| "c".to_string()).collect();
                emit(pair, n, &script, &mut req, &mut imp);
                nscripts += 1;
            }
        }
    } else if let Some(path) = mode.strip_prefix("file:") {
        for line in std::fs::read_to_string(path).unwrap().lines() {
            let t: Vec<&str> = line.split(' ').collect();
            if t.first() == Some(&"zst") {
                // a side script from a replay file: `zst [pod|pod-while-unwinding] <codes>` or `zst refuse <pair> n=<n>`
                let rest: Vec<String> = t[1..].iter().filter(|x| !x.is_empty()).map(|x| x.to_string()).collect();
                match rest.first().map(|x| x.as_str()) {
                    Some("refuse") => { let n = rest.get(2).and_then(|x| x.strip_prefix("n=")).and_then(|x| x.parse().ok()).unwrap_or(0); refusals(n, &mut zst); }
                    Some("pod") => { let sc = rest[1..].to_vec(); let (a, b) = run_pod(sc.len(), &sc); writeln!(zst, "pod {} | {} | {}", sc.join(" "), a, b).unwrap(); }
                    Some("pod-while-unwinding") => { let sc = rest[1..].to_vec(); let (a, b) = run_pod_unwinding(sc.len(), &sc); writeln!(zst, "pod-while-unwinding {} | {} | {}", sc.join(" "), a, b).unwrap(); }
                    _ => { let (a, b) = run_zst(rest.len(), &rest); writeln!(zst, "{} | {} | {}", rest.join(" "), a, b).unwrap(); }
                }
                continue;
            }
            if t.first() != Some(&"vec") || t.len() < 6 { continue; }
            let lay: Vec<usize> = t[1..5].iter().map(|x| x.parse().unwrap()).collect();
            let n: usize = t[5].parse().unwrap();
            let script: Vec<String> = t[6..].iter().map(|x| x.to_string()).collect();
            let pair = match (lay[0], lay[1], lay[2], lay[3]) {
                (8, 4, 8, 4) if t.last() == Some(&"pair=pad") => "pad", (8, 4, 8, 4) => "plain", (16, 8, 16, 8) => "heap", (4096, 8, 4096, 8) => "big", (64, 64, 64, 64) => "over",
                (8, 4, 16, 8) => "ne-size", (16, 4, 16, 8) => "ne-align", (8, 4, 16, 16) => "ne-both", (16, 8, 16, 4) => "ne-align-down",
                (16, 16, 16, 8) => "ne-align-down2", (16, 8, 8, 4) if t.len() > 6 && false => "ne-size-down", _ => "ne-heap",
            };
            emit(pair, n, &script, &mut req, &mut imp);
            nscripts += 1;
        }
    } else {
        let mut rng = Rng::new(seed);
        for i in 0..count {
            // mostly short; some long; a few large ones (over a thousand small elements, or tens of 4 KiB elements: size thresholds)
            let long = rng.chance(1, 20);
            let huge = i % 97 == 11;
            let bigmany = i % 89 == 13;
            let n = if huge { 1100 + rng.below(2000) } else if bigmany { 40 + rng.below(60) } else if long { rng.below(200) } else { rng.below(24) };
            let failing = rng.chance(1, 2);
            let fail_at = rng.below(n.max(1));
            let script: Vec<String> = (0..n).map(|k| {
                if failing && k == fail_at { CODES[6 + rng.below(4)].to_string() } else { CODES[rng.below(6)].to_string() }
            }).collect();
            let pair = if huge { "plain" } else if bigmany { "big" } else if i % 13 == 4 { "pad" } else { match i % 10 { 0 | 1 | 3 => "plain", 2 => "plain-w", 4 | 6 => "heap", 5 => "heap-w", 7 => "over", 8 => if n <= 40 { "big" } else { "plain" }, _ => *rng.pick(&["ne-size", "ne-align", "ne-both", "ne-heap", "ne-align-down", "ne-align-down2", "ne-size-down"]) } };
            emit(pair, n, &script, &mut req, &mut imp);
            nscripts += 1;
            if i % 10 == 0 {
                let (a, b) = run_zst(n, &script);
                writeln!(zst, "{} | {} | {}", script.join(" "), a, b).unwrap();
            }
            if i % 10 == 5 {
                let (a, b) = run_pod(n, &script);
                writeln!(zst, "pod {} | {} | {}", script.join(" "), a, b).unwrap();
            }
            if i % 8 == 1 && script.iter().take(n).all(|c| matches!(c.as_str(), "c" | "t" | "r" | "a" | "ta" | "ra" | "e")) {
                let (a, b) = run_pod_unwinding(n, &script);
                writeln!(zst, "pod-while-unwinding {} | {} | {}", script.join(" "), a, b).unwrap();
            }
            if i % 500 == 7 { refusals(n % 9, &mut zst); }
        }
    }
    req.flush().unwrap(); imp.flush().unwrap(); zst.flush().unwrap();
    std::fs::write(format!("{}/stats.json", outdir), format!("{{\"scripts\":{}}}", nscripts)).unwrap();
}
