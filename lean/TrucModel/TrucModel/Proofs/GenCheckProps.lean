import TrucModel.Model.GenCheck
/-
  The generated function bodies pass the move / mutability rules of `Model/GenCheck.lean`, for every variant
  whose field names do not collide with the template's own bindings.
-/
namespace Truc.Gen

theorem checkBody_append (c : CState) (l1 l2 : List Stmt) :
    checkBody c (l1 ++ l2) = (checkBody c l1).bind (fun c' => checkBody c' l2) := by
  induction l1 generalizing c with
  | nil => rfl
  | cons s rest ih =>
    simp only [List.cons_append, checkBody]
    cases checkStmt c s with
    | none => rfl
    | some c' => exact ih c'

/-! ### facts about states -/

def DataMut (c : CState) : Prop := c.bound.lookup "data" = some true ∧ "data" ∉ c.moved
def NoFields (c : CState) (a : String) : Prop := ∀ p ∈ c.fields, p.1 ≠ a

theorem usable_iff (c : CState) (n : String) : c.usable n = true ↔ (c.bound.lookup n).isSome = true ∧ n ∉ c.moved := by
  simp [CState.usable]

theorem usable_bind_self (c : CState) (n : String) (m : Bool) : (c.bind n m).usable n = true := by
  rw [usable_iff]
  simp [CState.bind, List.lookup_cons]

theorem usable_bind_of {c : CState} {x : String} (h : c.usable x = true) (n : String) (m : Bool) :
    (c.bind n m).usable x = true := by
  rw [usable_iff] at h ⊢
  by_cases hx : x = n
  · subst hx; simp [CState.bind, List.lookup_cons]
  · have hb : (x == n) = false := by simpa using hx
    simp only [CState.bind, List.lookup_cons, hb]
    refine ⟨h.1, ?_⟩
    intro hm
    exact h.2 (List.mem_filter.1 hm).1

theorem usable_move_of {c : CState} {x : String} (h : c.usable x = true) {n : String} (hne : x ≠ n) :
    (c.move n).usable x = true := by
  rw [usable_iff] at h ⊢
  refine ⟨h.1, ?_⟩
  simp only [CState.move, List.mem_cons, not_or]
  exact ⟨hne, h.2⟩

theorem usable_fields {c : CState} {x : String} (h : c.usable x = true) (f : List (String × String)) :
    ({ c with fields := f } : CState).usable x = true := h

theorem DataMut.bind_data (c : CState) : DataMut (c.bind "data" true) := by
  constructor
  · simp [CState.bind, List.lookup_cons]
  · simp [CState.bind]

theorem DataMut.bind_of {c : CState} (h : DataMut c) {n : String} (hne : n ≠ "data") (m : Bool) : DataMut (c.bind n m) := by
  have hb : ("data" == n) = false := by simpa using (Ne.symm hne)
  constructor
  · simp only [CState.bind, List.lookup_cons, hb]; exact h.1
  · intro hm; exact h.2 (List.mem_filter.1 hm).1

theorem NoFields.bind {c : CState} {a : String} (h : NoFields c a) (n : String) (m : Bool) : NoFields (c.bind n m) a := by
  intro p hp
  exact h p (List.mem_filter.1 hp).1

theorem NoFields.move {c : CState} {a : String} (h : NoFields c a) (n : String) : NoFields (c.move n) a := h

theorem noFields_any {c : CState} {a : String} (h : NoFields c a) : c.fields.any (fun p => p.1 == a) = false := by
  rw [List.any_eq_false]
  intro p hp
  simpa using h p hp

/-! ### phases -/

/-- a run of `write` statements from one source binding -/
theorem writes_ok (src : String) : ∀ (ds : List D) (c : CState),
    (ds ≠ [] → DataMut c) → c.usable src = true → (ds.map (·.name)).Nodup →
    (∀ d ∈ ds, (src, d.name) ∉ c.fields) →
    ∃ c', checkBody c (ds.map (fun d => Stmt.write d src)) = some c' ∧ c'.bound = c.bound ∧ c'.moved = c.moved := by
  intro ds
  induction ds with
  | nil => intro c _ _ _ _; exact ⟨c, rfl, rfl, rfl⟩
  | cons d rest ih =>
    intro c hm hu hnd hf
    have hdm := hm (by simp)
    rw [List.map_cons, List.nodup_cons] at hnd
    have h1 : (c.bound.lookup "data" == some true) = true := by rw [hdm.1]; rfl
    have h2 : c.moved.contains "data" = false := by simpa using hdm.2
    have h3 : c.fields.contains (src, d.name) = false := by simpa using hf d List.mem_cons_self
    simp only [List.map_cons, checkBody, checkStmt, h1, h2, hu, h3, Bool.not_false, Bool.and_self, if_true]
    obtain ⟨c', hc, hb, hmv⟩ := ih { c with fields := (src, d.name) :: c.fields } (fun _ => hdm) hu hnd.2 (by
      intro x hx hmem
      simp only [List.mem_cons, Prod.mk.injEq] at hmem
      rcases hmem with ⟨_, hn⟩ | hmem
      · exact hnd.1 (hn ▸ List.mem_map_of_mem hx)
      · exact hf x (List.mem_cons_of_mem _ hx) hmem)
    exact ⟨c', hc, hb, hmv⟩

/-- a run of `let <pre><name> = recv.data.read(..)` statements: everything usable stays usable, the new names become usable -/
theorem reads_ok (pre recv : String) : ∀ (ds : List D) (c : CState), c.usable recv = true →
    ∃ c', checkBody c (ds.map (fun d => Stmt.readLet (pre ++ d.name) d recv)) = some c' ∧
      (∀ x, c.usable x = true → c'.usable x = true) ∧ (∀ d ∈ ds, c'.usable (pre ++ d.name) = true) ∧
      (DataMut c → (∀ d ∈ ds, pre ++ d.name ≠ "data") → DataMut c') ∧ (∀ a, NoFields c a → NoFields c' a) := by
  intro ds
  induction ds with
  | nil => intro c _; exact ⟨c, rfl, fun _ h => h, by simp, fun h _ => h, fun _ h => h⟩
  | cons d rest ih =>
    intro c hu
    simp only [List.map_cons, checkBody, checkStmt, hu, if_true]
    obtain ⟨c', hc, hkeep, hnew, hdm, hnf⟩ := ih (c.bind (pre ++ d.name) false) (usable_bind_of hu _ _)
    refine ⟨c', hc, fun x hx => hkeep x (usable_bind_of hx _ _), ?_, ?_, fun a h => hnf a (h.bind _ _)⟩
    · intro x hx
      simp only [List.mem_cons] at hx
      rcases hx with rfl | hx
      · exact hkeep _ (usable_bind_self _ _ _)
      · exact hnew x hx
    · intro h hne
      exact hdm (h.bind_of (hne d List.mem_cons_self) _) (fun x hx => hne x (List.mem_cons_of_mem _ hx))


theorem usable_congr {c c' : CState} (hb : c'.bound = c.bound) (hm : c'.moved = c.moved) (x : String) :
    c'.usable x = c.usable x := by
  unfold CState.usable; rw [hb, hm]

theorem params_usable {names : List String} {x : String} (h : x ∈ names) : (params names).usable x = true := by
  rw [usable_iff]
  refine ⟨?_, by simp [params]⟩
  simp only [params]
  induction names with
  | nil => cases h
  | cons n rest ih =>
    simp only [List.map_cons, List.lookup_cons]
    by_cases hx : x = n
    · subst hx; simp
    · have hb : (x == n) = false := by simpa using hx
      rw [hb]
      simp only [List.mem_cons] at h
      rcases h with h | h
      · exact absurd h hx
      · exact ih h

theorem params_fields (names : List String) : (params names).fields = [] := rfl

theorem bind_fields_nil {c : CState} (h : c.fields = []) (n : String) (m : Bool) : (c.bind n m).fields = [] := by
  simp [CState.bind, h]

theorem noFields_of_nil {c : CState} (h : c.fields = []) (a : String) : NoFields c a := by
  intro p hp; rw [h] at hp; cases hp

/-! ### the functions of one variant -/

theorem ctorNew_checks (s : Spec) (hnd : (s.data.map (·.name)).Nodup) :
    (checkBody (params [if s.data.isEmpty then "_from" else "from"]) (ctorNew s).body).isSome = true := by
  unfold ctorNew
  simp only [List.append_assoc]
  rw [checkBody_append]
  simp only [List.singleton_append, checkBody, checkStmt, Option.bind_some]
  rw [checkBody_append]
  cases hd : s.data with
  | nil =>
    simp only [List.isEmpty_nil, Bool.not_true, List.map_nil, checkBody, Option.bind_some, checkStmt, usable_bind_self, if_true]
    rfl
  | cons d rest =>
    simp only [List.isEmpty_cons, Bool.not_false, Bool.false_eq_true, if_false]
    rw [← hd]
    have hu : ((params ["from"]).bind "data" true).usable "from" = true :=
      usable_bind_of (params_usable (by simp)) _ _
    obtain ⟨c', hc, hb, hm⟩ := writes_ok "from" s.data _ (fun _ => DataMut.bind_data _) hu hnd
      (by intro x _; rw [bind_fields_nil (params_fields _)]; simp)
    rw [hc]
    simp only [Option.bind_some, checkBody, checkStmt]
    rw [usable_congr hb hm, usable_bind_self]
    rfl

theorem filter_any_ne_nil {α : Type} (l : List α) (p : α → Bool) : l.filter p ≠ [] → l.any p = true := by
  intro h
  rw [List.any_eq_true]
  cases hf : l.filter p with
  | nil => exact absurd hf h
  | cons x xs =>
    have : x ∈ l.filter p := by rw [hf]; exact List.mem_cons_self
    exact ⟨x, (List.mem_filter.1 this).1, (List.mem_filter.1 this).2⟩

theorem ctorNewUninit_checks (s : Spec) (hnd : (s.data.map (·.name)).Nodup) :
    (checkBody (params ["from"]) (ctorNewUninit s).body).isSome = true := by
  unfold ctorNewUninit
  simp only [List.append_assoc, List.cons_append, List.nil_append, checkBody, checkStmt]
  have hu0 : (params ["from"]).usable "from" = true := params_usable (by simp)
  have hf0 : ((params ["from"]).fields.any fun p => p.1 == "from") = false := by simp [params]
  simp only [hu0, hf0, Bool.not_false, Bool.and_self, if_true]
  rw [checkBody_append]
  generalize hws : s.data.filter (fun d => !d.uninit) = ws
  generalize huhd : (s.data.any fun d => !d.uninit) = uhd
  have hwnd : (ws.map (·.name)).Nodup := by
    rw [← hws]; exact List.Nodup.sublist (List.filter_sublist.map _) hnd
  have hne : ws ≠ [] → uhd = true := by
    intro h; rw [← huhd]; rw [← hws] at h; exact filter_any_ne_nil _ _ h
  generalize hc2 : ((((params ["from"]).move "from").bind (if uhd = true then "from" else "_from") false).bind "data" uhd) = c2
  have hfields : c2.fields = [] := by
    rw [← hc2]; exact bind_fields_nil (bind_fields_nil rfl _ _) _ _
  have hdata : c2.usable "data" = true := by rw [← hc2]; exact usable_bind_self _ _ _
  cases ws with
  | nil =>
    simp only [List.map_nil, checkBody, Option.bind_some, checkStmt, hdata, if_true]
    rfl
  | cons w rest =>
    have hu := hne (by simp)
    subst hu
    have hdm : DataMut c2 := by rw [← hc2]; exact DataMut.bind_data _
    have hfrom : c2.usable "from" = true := by
      rw [← hc2]; simp only [if_true]; exact usable_bind_of (usable_bind_self _ _ _) _ _
    obtain ⟨c', hc, hb, hm⟩ := writes_ok "from" (w :: rest) c2 (fun _ => hdm) hfrom hwnd (by intro x _; rw [hfields]; simp)
    rw [hc]
    simp only [Option.bind_some, checkBody, checkStmt]
    rw [usable_congr hb hm, hdata]
    rfl

theorem unpack_checks (s : Spec) (hself : ∀ d ∈ s.data, d.name ≠ "self") :
    (checkBody (params ["self"]) (unpackFn s).body).isSome = true := by
  unfold unpackFn
  rw [checkBody_append]
  have hr := reads_ok "" "self" s.data (params ["self"]) (params_usable (by simp))
  simp only [String.empty_append] at hr
  obtain ⟨c', hc, hkeep, hnew, _, _⟩ := hr
  rw [hc]
  have hs : c'.usable "self" = true := hkeep _ (params_usable (by simp))
  simp only [Option.bind_some, checkBody, checkStmt, hs, if_true]
  have : (s.data.map (·.name)).all (c'.move "self").usable = true := by
    rw [List.all_eq_true]
    intro n hn
    rw [List.mem_map] at hn
    obtain ⟨d, hd, rfl⟩ := hn
    exact usable_move_of (hnew d hd) (hself d hd)
  rw [this]
  rfl

theorem drop_checks (s : Spec) : (checkBody (params ["self"]) (dropFn s).body).isSome = true := by
  unfold dropFn
  obtain ⟨c', hc, _⟩ := reads_ok "_" "self" s.data (params ["self"]) (params_usable (by simp))
  rw [hc]; rfl


theorem conv_checks (s : Spec) (u o : Bool) (hnd : (s.plus.map (·.name)).Nodup)
    (hres : ∀ d ∈ s.minus, d.name ≠ "plus" ∧ d.name ≠ "from" ∧ d.name ≠ "data") :
    (checkBody (params ["from", if u || !s.plus.isEmpty then "plus" else "_plus"]) (convFn s u o).body).isSome = true := by
  unfold convFn
  simp only [List.append_assoc]
  rw [checkBody_append]
  generalize hP : (if (u || !s.plus.isEmpty) = true then "plus" else "_plus") = P
  have hfrom0 : (params ["from", P]).usable "from" = true := params_usable (by simp)
  obtain ⟨c1, hc1, hkeep1, hnew1, _, hnf1⟩ := reads_ok (if o then "" else "_") "from" s.minus (params ["from", P]) hfrom0
  rw [hc1]
  simp only [Option.bind_some]
  have hfrom1 : c1.usable "from" = true := hkeep1 _ hfrom0
  have hnfFrom1 : NoFields c1 "from" := hnf1 _ (noFields_of_nil (params_fields _) _)
  have hnfPlus1 : NoFields c1 "plus" := hnf1 _ (noFields_of_nil (params_fields _) _)
  generalize hws : s.plus.filter (fun d => !u || !d.uninit) = ws
  have hwnd : (ws.map (·.name)).Nodup := by
    rw [← hws]; exact List.Nodup.sublist (List.filter_sublist.map _) hnd
  -- after the optional `safeFrom`: `from` usable, no field moved out of `from` / `plus`, `plus` usable if something is written,
  -- the names of the removed fields (when they are handed back) still usable
  have hmid : ∃ c2, checkBody c1 (if u = true then [Stmt.safeFrom (if (u && s.plus.any fun d => !d.uninit) = true then "plus" else "_plus")
        (inSafeName s.vid) ((safeGeneric s.plus).map (·.2.2)) "plus"] else []) = some c2 ∧
      c2.usable "from" = true ∧ NoFields c2 "from" ∧ NoFields c2 "plus" ∧ (ws ≠ [] → c2.usable "plus" = true) ∧
      (∀ d ∈ s.minus, c1.usable d.name = true → c2.usable d.name = true) := by
    cases hu : u with
    | false =>
      refine ⟨c1, by simp [checkBody], hfrom1, hnfFrom1, hnfPlus1, ?_, fun _ _ h => h⟩
      intro hne
      have hpl : s.plus ≠ [] := by
        intro he; apply hne; rw [← hws, he]; rfl
      have : P = "plus" := by
        rw [← hP, hu]
        have : s.plus.isEmpty = false := by cases hs : s.plus with | nil => exact absurd hs hpl | cons _ _ => rfl
        simp [this]
      exact hkeep1 _ (params_usable (by simp [this]))
    | true =>
      have hPp : P = "plus" := by rw [← hP, hu]; simp
      have hplus1 : c1.usable "plus" = true := hkeep1 _ (params_usable (by simp [hPp]))
      simp only [if_true, checkBody, checkStmt, hplus1, noFields_any hnfPlus1, Bool.not_false, Bool.and_self, Bool.true_and]
      refine ⟨_, rfl, ?_, (hnfFrom1.move _).bind _ _, (hnfPlus1.move _).bind _ _, ?_, ?_⟩
      · exact usable_bind_of (usable_move_of hfrom1 (by decide)) _ _
      · intro hne
        have hany : (s.plus.any fun d => !d.uninit) = true := by
          rw [← hws] at hne
          have := filter_any_ne_nil _ _ hne
          rw [List.any_eq_true] at this ⊢
          obtain ⟨x, hx, hp⟩ := this
          rw [hu] at hp
          exact ⟨x, hx, by simpa using hp⟩
        rw [hany]
        simp only [if_true]
        exact usable_bind_self _ _ _
      · intro d hd h
        exact usable_bind_of (usable_move_of h (hres d hd).1) _ _
  obtain ⟨c2, hc2, hfrom2, hnfFrom2, hnfPlus2, hplus2, hnames2⟩ := hmid
  rw [checkBody_append, hc2]
  simp only [Option.bind_some, List.cons_append, List.nil_append, checkBody, checkStmt, hfrom2, noFields_any hnfFrom2,
    Bool.not_false, Bool.and_self, if_true, usable_bind_self]
  rw [checkBody_append]
  generalize hm : ((!u && !s.plus.isEmpty) || (u && (u && s.plus.any fun d => !d.uninit))) = m
  generalize hc4 : (((c2.move "from").bind "manually_drop" false).bind "data" m) = c4
  have hdata4 : c4.usable "data" = true := by rw [← hc4]; exact usable_bind_self _ _ _
  have hmut : ws ≠ [] → DataMut c4 := by
    intro hne
    have : m = true := by
      rw [← hm]
      cases hu : u with
      | false =>
        have hpl : s.plus ≠ [] := by intro he; apply hne; rw [← hws, he]; rfl
        have : s.plus.isEmpty = false := by cases hs : s.plus with | nil => exact absurd hs hpl | cons _ _ => rfl
        simp [this]
      | true =>
        rw [← hws] at hne
        have := filter_any_ne_nil _ _ hne
        rw [List.any_eq_true] at this
        obtain ⟨x, hx, hp⟩ := this
        rw [hu] at hp
        have : (s.plus.any fun d => !d.uninit) = true := by rw [List.any_eq_true]; exact ⟨x, hx, by simpa using hp⟩
        simp [this]
    subst this
    rw [← hc4]; exact DataMut.bind_data _
  have hplus4 : ws ≠ [] → c4.usable "plus" = true := by
    intro hne
    rw [← hc4]
    exact usable_bind_of (usable_bind_of (usable_move_of (hplus2 hne) (by decide)) _ _) _ _
  have hnf4 : NoFields c4 "plus" := by rw [← hc4]; exact ((hnfPlus2.move _).bind _ _).bind _ _
  have hw : ∃ c5, checkBody c4 (ws.map (fun d => Stmt.write d "plus")) = some c5 ∧ c5.bound = c4.bound ∧ c5.moved = c4.moved := by
    cases hws' : ws with
    | nil => exact ⟨c4, rfl, rfl, rfl⟩
    | cons w rest =>
      rw [← hws']
      have hne : ws ≠ [] := by rw [hws']; simp
      exact writes_ok "plus" ws c4 (fun _ => hmut hne) (hplus4 hne) hwnd (fun d _ hmem => hnf4 _ hmem rfl)
  obtain ⟨c5, hc5, hb5, hm5⟩ := hw
  rw [hc5]
  simp only [Option.bind_some]
  have hdata5 : c5.usable "data" = true := by rw [usable_congr hb5 hm5]; exact hdata4
  cases ho : o with
  | false =>
    simp only [Bool.false_eq_true, if_false, checkBody, checkStmt, hdata5, if_true]
    rfl
  | true =>
    simp only [if_true, checkBody, checkStmt, hdata5]
    have hall : ("record" :: s.minus.map (·.name)).all ((c5.move "data").bind "record" false).usable = true := by
      rw [List.all_eq_true]
      intro n hn
      simp only [List.mem_cons] at hn
      rcases hn with rfl | hn
      · exact usable_bind_self _ _ _
      · rw [List.mem_map] at hn
        obtain ⟨d, hd, rfl⟩ := hn
        have h1 : c1.usable d.name = true := by
          have := hnew1 d hd
          rw [ho] at this
          simpa using this
        have h2 := hnames2 d hd h1
        have h4 : c4.usable d.name = true := by
          rw [← hc4]
          exact usable_bind_of (usable_bind_of (usable_move_of h2 (hres d hd).2.1) _ _) _ _
        have h5 : c5.usable d.name = true := by rw [usable_congr hb5 hm5]; exact h4
        exact usable_bind_of (usable_move_of h5 (hres d hd).2.2) _ _
    rw [hall]
    rfl

/-- every function body of a variant passes the move / mutability rules -/
theorem variantChecks_ok (s : Spec) (hd : (s.data.map (·.name)).Nodup) (hp : s.hasPrev = true → (s.plus.map (·.name)).Nodup)
    (hself : ∀ d ∈ s.data, d.name ≠ "self")
    (hres : s.hasPrev = true → ∀ d ∈ s.minus, d.name ≠ "plus" ∧ d.name ≠ "from" ∧ d.name ≠ "data") : variantChecks s = true := by
  unfold variantChecks variantBodies
  rw [List.all_eq_true]
  intro p hp'
  simp only [List.mem_append, List.mem_cons, List.not_mem_nil, or_false] at hp'
  rcases hp' with (rfl | rfl | rfl | rfl) | hp'
  · exact ctorNew_checks s hd
  · exact ctorNewUninit_checks s hd
  · exact unpack_checks s hself
  · exact drop_checks s
  · split at hp'
    · rename_i hprev
      have hp := hp hprev
      have hres := hres hprev
      simp only [List.map_cons, List.map_nil, List.mem_cons, List.not_mem_nil, or_false] at hp'
      rcases hp' with rfl | rfl | rfl | rfl
      · simpa using conv_checks s false false hp hres
      · simpa using conv_checks s true false hp hres
      · simpa using conv_checks s false true hp hres
      · simpa using conv_checks s true true hp hres
    · cases hp'

end Truc.Gen
