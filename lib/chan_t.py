"""Channel T: type names and type tables."""
import re, json, os, shutil, subprocess, time
from common import *


def run(seed, tier):
    key = f"{repo_hash()}-{machinery_hash()}"
    base = os.path.join(WORK, "cache", key, f"T-{seed}")
    marker = os.path.join(base, "done.json")
    if os.path.exists(marker) and not os.environ.get("VERIF_NO_CACHE"):
        info = json.load(open(marker)); info["cached"] = True
        return info
    if os.path.exists(base):
        shutil.rmtree(base)
    os.makedirs(base)
    info = {"errors": [], "cached": False, "base": base}
    rc, out, err = sh([harness_bin("chan_t"), str(seed), base], timeout=600)
    if rc != 0:
        info["errors"].append("chan_t failed: " + err[-800:])
        return info
    with open(os.path.join(base, "req.txt")) as fin, open(os.path.join(base, "model.txt"), "w") as fout:
        subprocess.run([DRV], stdin=fin, stdout=fout)
    # rustc probe: each recorded name, written into code, denotes the source type
    p = subprocess.run(["rustc", "--edition", "2021", "--emit=metadata", "-o", os.path.join(base, "probe.rmeta"), os.path.join(base, "probe.rs")],
                       capture_output=True, text=True)
    info["probe_rc"] = p.returncode
    info["probe_err"] = p.stderr[-1500:]
    json.dump(info, open(marker, "w"))
    return info


def analyse(info):
    res = {"spellings": 0, "n_disagree": 0, "disagreements": [], "oracle": [], "samples": [], "distinct": 0, "nontrivial": 0, "stats": {}}
    base = info.get("base")
    if not base or not os.path.exists(os.path.join(base, "req.txt")) or not os.path.exists(os.path.join(base, "model.txt")):
        if info.get("errors"):
            res["n_disagree"] = 1
            res["disagreements"].append({"request": "(channel T harness)", "impl": "; ".join(info["errors"])[:600], "model": "the harness runs to completion"})
        return res
    req = open(os.path.join(base, "req.txt")).read().split("\n")
    imp = open(os.path.join(base, "impl.txt")).read().split("\n")
    mod = open(os.path.join(base, "model.txt")).read().split("\n")
    seen = set()
    for i, r in enumerate(req):
        if not r.startswith("tn"):
            continue
        res["spellings"] += 1
        seen.add(r)
        a = imp[i] if i < len(imp) else "<missing>"
        m = mod[i] if i < len(mod) else "<missing>"
        if a != m:
            res["n_disagree"] += 1
            if len(res["disagreements"]) < 20:
                res["disagreements"].append({"request": r, "impl": a, "model": m})
        if i % 997 == 3 and len(res["samples"]) < 4:
            res["samples"].append({"request": r, "impl": a})
    res["distinct"] = len(seen)
    res["nontrivial"] = len([r for r in seen if "<" in r or "(" in r or "[" in r])
    for l in open(os.path.join(base, "oracle.txt")):
        l = l.strip()
        if l:
            p, msg = l.split(" ", 1)
            res["oracle"].append({"property": p.split("=")[1], "message": msg})
    if info.get("probe_rc", 0) != 0:
        err = info.get("probe_err", "")
        firsts = re.findall(r"(error(?:\[E\d+\])?: [^\n]*)\n\s*--> [^\n]*\n(?:[^\n]*\n){0,2}?\s*\d+\s*\|\s*(const _: fn[^\n]*)", err)
        detail = "; ".join(f"{m[0]} at `{m[1][:160]}`" for m in firsts[:2]) or err[-500:]
        res["oracle"].append({"property": "C17", "message": "a recorded type name, written into code, does not denote the source type (rustc probe `const _: fn(T) -> <name> = |x| x;`): " + detail})
        res["oracle"].append({"property": "C13", "message": "a field of a nameable type makes the generated module uncompilable: its recorded type name, written into code, is rejected by rustc: " + detail})
    try:
        res["stats"] = json.load(open(os.path.join(base, "stats.json")))
    except Exception:
        pass
    return res
