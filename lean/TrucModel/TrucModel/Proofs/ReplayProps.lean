import TrucModel.Proofs.BuilderProps
import TrucModel.Model.Replay
/-
  `convert_record_definition` replays a definition faithfully (C20): phase lemmas for the removals,
  the additions and the close of one source variant.
-/
namespace Truc

/-- the id map as a function -/
def F (m : List (Nat × Nat)) (d : Nat) : Nat := (m.lookup d).getD 0

theorem F_of_lookup {m : List (Nat × Nat)} {d d' : Nat} (h : m.lookup d = some d') : F m d = d' := by
  simp [F, h]

/-! ### removals -/

theorem replayRemovals_ok (lastT : List Nat) : ∀ (l : List Nat) (r : RState),
    r.tgt.variants.getLast? = some lastT →
    (∀ d ∈ l, ∃ d', r.idMap.lookup d = some d' ∧ d' ∈ lastT) →
    (l.map (F r.idMap)).Nodup →
    (∀ d ∈ l, F r.idMap d ∉ r.tgt.toRemove) →
    replayRemovals r l = .ok { r with tgt := { r.tgt with toRemove := r.tgt.toRemove ++ l.map (F r.idMap) } } := by
  intro l
  induction l with
  | nil => intro r _ _ _ _; simp [replayRemovals]
  | cons d rest ih =>
    intro r hlast hin hnd hnr
    obtain ⟨d', hlk, hmem⟩ := hin d List.mem_cons_self
    have hFd : F r.idMap d = d' := F_of_lookup hlk
    have hnotrm : d' ∉ r.tgt.toRemove := hFd ▸ hnr d List.mem_cons_self
    unfold replayRemovals
    simp only [hlk]
    have hrm : r.tgt.removeDatum d' = ({ r.tgt with toRemove := r.tgt.toRemove ++ [d'] }, .ok ()) := by
      unfold BState.removeDatum
      simp [hlast, hmem, hnotrm]
    rw [hrm]
    simp only
    rw [List.map_cons, List.nodup_cons] at hnd
    have := ih { r with tgt := { r.tgt with toRemove := r.tgt.toRemove ++ [d'] } } hlast
      (fun x hx => hin x (List.mem_cons_of_mem _ hx)) hnd.2
      (by
        intro x hx hmem'
        simp only [List.mem_append, List.mem_singleton] at hmem'
        rcases hmem' with h | h
        · exact hnr x (List.mem_cons_of_mem _ hx) h
        · apply hnd.1
          rw [hFd, ← h]
          exact List.mem_map_of_mem hx)
    rw [this]
    simp [hFd]

/-! ### additions -/

def mk (src : Defs) (d : Nat) : Info := { info src d with offset := UNSET }

theorem addDatum_eq (t : BState) (i : Info) (h : (t.currentByName i.name).isSome = false) :
    t.addDatum i = ({ t with defs := t.defs ++ [i], toAdd := t.toAdd ++ [t.defs.length] }, .ok t.defs.length) := by
  unfold BState.addDatum
  simp only [h, Bool.false_eq_true, if_false]

theorem currentData_add (t : BState) (i : Info) :
    ({ t with defs := t.defs ++ [i], toAdd := t.toAdd ++ [t.defs.length] } : BState).currentData =
      t.currentData ++ [t.defs.length] := by
  simp [BState.currentData, List.append_assoc]

theorem currentByName_isSome_false {t : BState} {n : String}
    (h : ∀ x ∈ t.currentData, (info t.defs x).name ≠ n) : (t.currentByName n).isSome = false := by
  unfold BState.currentByName
  cases hf : List.find? (fun d => decide ((info t.defs d).name = n)) (t.currentData.filter (fun d => decide (d < t.defs.length))) with
  | none => rfl
  | some x =>
    have h1 := List.find?_some hf
    have h2 := List.mem_of_find?_eq_some hf
    simp only [decide_eq_true_eq] at h1
    exact absurd h1 (h x (List.mem_filter.1 h2).1)

/-- what the additions of one variant produce -/
structure AddsOk (src : Defs) (l : List Nat) (r r2 : RState) : Prop where
  variants : r2.tgt.variants = r.tgt.variants
  toRemove : r2.tgt.toRemove = r.tgt.toRemove
  vMap     : r2.vMap = r.vMap
  defs     : r2.tgt.defs = r.tgt.defs ++ l.map (mk src)
  toAdd    : r2.tgt.toAdd = r.tgt.toAdd ++ l.map (F r2.idMap)
  others   : ∀ x, x ∉ l → r2.idMap.lookup x = r.idMap.lookup x
  news     : ∀ d ∈ l, ∃ d', r2.idMap.lookup d = some d' ∧ r.tgt.defs.length ≤ d' ∧ d' < r2.tgt.defs.length ∧
               info r2.tgt.defs d' = mk src d
  nodup    : (l.map (F r2.idMap)).Nodup
  binv     : BInv r.tgt → (∀ d ∈ l, 0 < al src d) → BInv r2.tgt

theorem info_append_left' (defs ext : Defs) {d : Nat} (h : d < defs.length) : info (defs ++ ext) d = info defs d := by
  unfold info
  rw [List.getElem?_append_left h]

theorem replayAdditions_ok (src : Defs) : ∀ (l : List Nat) (r : RState),
    (∀ d ∈ l, d < src.length) →
    l.Nodup →
    (l.map (fun d => (info src d).name)).Nodup →
    (∀ x ∈ r.tgt.currentData, x < r.tgt.defs.length) →
    (∀ x ∈ r.tgt.currentData, ∀ d ∈ l, (info r.tgt.defs x).name ≠ (info src d).name) →
    ∃ r2, replayAdditions src r l = .ok r2 ∧ AddsOk src l r r2 := by
  intro l
  induction l with
  | nil =>
    intro r _ _ _ _ _
    exact ⟨r, rfl, ⟨rfl, rfl, rfl, by simp, by simp, fun _ _ => rfl, by simp, by simp, fun h _ => h⟩⟩
  | cons d rest ih =>
    intro r hlt hnd hnames hrange hclash
    have hd : d < src.length := hlt d List.mem_cons_self
    have hsrc : src[d]? = some (info src d) := by
      unfold info; rw [List.getElem?_eq_getElem hd]; rfl
    unfold replayAdditions
    simp only [hsrc]
    have hnone : (r.tgt.currentByName (mk src d).name).isSome = false :=
      currentByName_isSome_false (fun x hx => hclash x hx d List.mem_cons_self)
    have hpair := addDatum_eq r.tgt (mk src d) hnone
    have hpair' := hpair
    unfold mk at hpair'
    rw [hpair']
    simp only
    rw [List.map_cons, List.nodup_cons] at hnames
    rw [List.nodup_cons] at hnd
    let r1 : RState := { r with tgt := { r.tgt with defs := r.tgt.defs ++ [mk src d], toAdd := r.tgt.toAdd ++ [r.tgt.defs.length] },
                                 idMap := (d, r.tgt.defs.length) :: r.idMap }
    have hcur1 : r1.tgt.currentData = r.tgt.currentData ++ [r.tgt.defs.length] := currentData_add r.tgt (mk src d)
    obtain ⟨r2, hrun, hok⟩ := ih r1 (fun x hx => hlt x (List.mem_cons_of_mem _ hx)) hnd.2 hnames.2
      (by
        intro x hx
        rw [hcur1] at hx
        simp only [List.mem_append, List.mem_singleton] at hx
        show x < (r.tgt.defs ++ [mk src d]).length
        rcases hx with hx | rfl
        · have := hrange x hx; simp; omega
        · simp)
      (by
        intro x hx e he
        rw [hcur1] at hx
        simp only [List.mem_append, List.mem_singleton] at hx
        show (info (r.tgt.defs ++ [mk src d]) x).name ≠ _
        rcases hx with hx | rfl
        · rw [info_append_left _ _ (hrange x hx)]
          exact hclash x hx e (List.mem_cons_of_mem _ he)
        · rw [info_append_self]
          intro heq
          apply hnames.1
          have : (mk src d).name = (info src d).name := rfl
          rw [this] at heq
          rw [heq]
          exact List.mem_map_of_mem (f := fun d => (info src d).name) he)
    refine ⟨r2, hrun, ?_⟩
    have hlk_d : r2.idMap.lookup d = some r.tgt.defs.length := by
      rw [hok.others d hnd.1]
      show List.lookup d ((d, r.tgt.defs.length) :: r.idMap) = _
      simp
    have hdefs2 : r2.tgt.defs = r.tgt.defs ++ (d :: rest).map (mk src) := by
      rw [hok.defs]; show (r.tgt.defs ++ [mk src d]) ++ _ = _; simp
    refine ⟨hok.variants, hok.toRemove, hok.vMap, hdefs2, ?_, ?_, ?_, ?_, ?_⟩
    · rw [hok.toAdd]
      show (r.tgt.toAdd ++ [r.tgt.defs.length]) ++ _ = _
      simp [F_of_lookup hlk_d]
    · intro x hx
      simp only [List.mem_cons, not_or] at hx
      rw [hok.others x hx.2]
      show List.lookup x ((d, r.tgt.defs.length) :: r.idMap) = _
      have : (x == d) = false := by simp [hx.1]
      simp [List.lookup_cons, this]
    · intro x hx
      simp only [List.mem_cons] at hx
      rcases hx with rfl | hx
      · refine ⟨_, hlk_d, Nat.le_refl _, ?_, ?_⟩
        · rw [hdefs2]; simp
        · rw [hok.defs]
          show info ((r.tgt.defs ++ [mk src x]) ++ _) _ = _
          rw [info_append_left' _ _ (by simp), info_append_self]
      · obtain ⟨d', h1, h2, h3, h4⟩ := hok.news x hx
        refine ⟨d', h1, ?_, h3, h4⟩
        have : r1.tgt.defs.length = r.tgt.defs.length + 1 := by
          show (r.tgt.defs ++ [mk src d]).length = _; simp
        omega
    · rw [List.map_cons, List.nodup_cons]
      refine ⟨?_, hok.nodup⟩
      rw [F_of_lookup hlk_d]
      intro hmem
      rw [List.mem_map] at hmem
      obtain ⟨x, hx, hFx⟩ := hmem
      obtain ⟨d', h1, h2, _, _⟩ := hok.news x hx
      rw [F_of_lookup h1] at hFx
      have : r1.tgt.defs.length = r.tgt.defs.length + 1 := by
        show (r.tgt.defs ++ [mk src d]).length = _; simp
      omega
    · intro hb hal
      apply hok.binv
      · have := hb.addDatum (mk src d) (hal d List.mem_cons_self)
        rw [hpair] at this
        exact this
      · intro x hx; exact hal x (List.mem_cons_of_mem _ hx)


/-! ### the close -/

theorem close_any {t : BState} {st : Strategy} (hb : st.isNative = true → BInv t) (hp : t.hasPendingChanges = true) :
    ∃ defs' l', t.close st = some ({ defs := defs', variants := t.variants ++ [l'], toAdd := [], toRemove := [] }, t.variants.length) ∧
      CloseFrame t.defs (removeData ((t.variants.getLast?).getD []) t.toRemove) t.toAdd defs' l' ∧
      (st.isNative = true → BInv { defs := defs', variants := t.variants ++ [l'], toAdd := [], toRemove := [] }) := by
  cases hn : st.isNative with
  | true =>
    have hbt := hb hn
    obtain ⟨defs', l', hc, hok⟩ := hbt.close_spec hn hp
    refine ⟨defs', l', hc, hok.toCloseFrame, fun _ => ?_⟩
    obtain ⟨s', vid, hc', hb', _⟩ := hbt.close hn
    rw [hc] at hc'
    simp only [Option.some.injEq, Prod.mk.injEq] at hc'
    rw [hc'.1]; exact hb'
  | false =>
    obtain ⟨l', hrun, hfr⟩ := runStrategy_generic hn t.defs ((t.variants.getLast?).getD []) t.toAdd t.toRemove
    refine ⟨t.defs, l', ?_, hfr, fun h => by simp at h⟩
    unfold BState.close
    simp only [hp, Bool.not_true, Bool.false_eq_true, if_false, hrun]

/-! ### small list facts -/

theorem inj_of_nodup_map {β : Type} {f : Nat → β} : ∀ {l : List Nat}, (l.map f).Nodup → ∀ {a b}, a ∈ l → b ∈ l → f a = f b → a = b := by
  intro l
  induction l with
  | nil => intro _ a b ha; cases ha
  | cons x rest ih =>
    intro h a b ha hb e
    rw [List.map_cons, List.nodup_cons] at h
    simp only [List.mem_cons] at ha hb
    rcases ha with rfl | ha <;> rcases hb with rfl | hb
    · rfl
    · exact absurd (e ▸ List.mem_map_of_mem hb) h.1
    · exact absurd (e ▸ List.mem_map_of_mem ha) h.1
    · exact ih h.2 ha hb e

theorem nodup_map_of_inj_on {β : Type} {f : Nat → β} : ∀ {l : List Nat}, l.Nodup → (∀ a ∈ l, ∀ b ∈ l, f a = f b → a = b) → (l.map f).Nodup := by
  intro l
  induction l with
  | nil => intro _ _; simp
  | cons x rest ih =>
    intro h hinj
    rw [List.nodup_cons] at h
    rw [List.map_cons, List.nodup_cons]
    refine ⟨?_, ih h.2 (fun a ha b hb => hinj a (List.mem_cons_of_mem _ ha) b (List.mem_cons_of_mem _ hb))⟩
    intro hm
    rw [List.mem_map] at hm
    obtain ⟨y, hy, e⟩ := hm
    have := hinj y (List.mem_cons_of_mem _ hy) x List.mem_cons_self e
    subst this
    exact h.1 hy

/-! ### the source definitions replay is applied to -/

def VOk (src : Defs) (v : List Nat) : Prop :=
  v.Nodup ∧ (∀ d ∈ v, d < src.length) ∧ (v.map (fun d => (info src d).name)).Nodup ∧ (∀ d ∈ v, 0 < al src d)

/-- every variant is well formed; a datum that is not in the preceding variant has never been seen
    before (ids are never reused); consecutive variants differ (a close without changes creates none) -/
def SrcChain (src : Defs) : List Nat → Option (List Nat) → List (List Nat) → Prop
  | _, _, [] => True
  | seen, prev, v :: vs =>
      VOk src v ∧ (∀ d ∈ v, d ∉ prev.getD [] → d ∉ seen) ∧ (∀ old, prev = some old → ¬ (∀ d, d ∈ old ↔ d ∈ v)) ∧
      SrcChain src (seen ++ v) (some v) vs

/-- loop invariant of `convert_record_definition` between two source variants -/
structure RInv (src : Defs) (st : Strategy) (done : List (List Nat)) (r : RState) : Prop where
  pendA  : r.tgt.toAdd = []
  pendR  : r.tgt.toRemove = []
  vmap   : r.vMap = (List.range done.length).map (fun i => (i, i))
  len    : r.tgt.variants.length = done.length
  vars   : ∀ (j : Nat) (t v : List Nat), r.tgt.variants[j]? = some t → done[j]? = some v → t.Perm (v.map (F r.idMap))
  keys   : ∀ d d', r.idMap.lookup d = some d' →
             d ∈ done.flatten ∧ d' < r.tgt.defs.length ∧ sameShape (info r.tgt.defs d') (info src d)
  total  : ∀ d ∈ done.flatten, (r.idMap.lookup d).isSome = true
  inj    : ∀ d1 d2 d', r.idMap.lookup d1 = some d' → r.idMap.lookup d2 = some d' → d1 = d2
  nat    : st.isNative = true → BInv r.tgt
  doneOk : ∀ v ∈ done, VOk src v

theorem RInv.init (src : Defs) (st : Strategy) : RInv src st [] {} := by
  refine ⟨rfl, rfl, rfl, rfl, ?_, ?_, ?_, ?_, fun _ => BInv.init, ?_⟩
  · intro j t v h; simp at h
  · intro d d' h; simp at h
  · intro d h; simp at h
  · intro d1 d2 d' h; simp at h
  · intro v h; simp at h

theorem RInv.last {src : Defs} {st : Strategy} {done : List (List Nat)} {r : RState} (h : RInv src st done r) :
    ((r.tgt.variants.getLast?).getD []).Perm (((done.getLast?).getD []).map (F r.idMap)) := by
  cases hd : done.getLast? with
  | none =>
    rw [List.getLast?_eq_none_iff] at hd
    have hl := h.len
    rw [hd] at hl
    have : r.tgt.variants = [] := List.length_eq_zero_iff.1 hl
    simp [this]
  | some old =>
    have hne : done.length ≠ 0 := by
      intro h0; rw [List.length_eq_zero_iff.1 h0] at hd; simp at hd
    rw [List.getLast?_eq_getElem?] at hd
    have hlt : r.tgt.variants.length - 1 < r.tgt.variants.length := by have := h.len; omega
    have ht : r.tgt.variants.getLast? = some (r.tgt.variants[r.tgt.variants.length - 1]) := by
      rw [List.getLast?_eq_getElem?, List.getElem?_eq_getElem hlt]
    rw [ht]
    simp only [Option.getD_some]
    refine h.vars (r.tgt.variants.length - 1) _ old (List.getElem?_eq_getElem hlt) ?_
    rw [h.len]; exact hd


theorem step_core {src : Defs} {st : Strategy} {done : List (List Nat)} {r : RState} {v : List Nat}
    (h : RInv src st done r) (hv : VOk src v)
    (hfresh : ∀ d ∈ v, d ∉ (done.getLast?).getD [] → d ∉ done.flatten)
    (hdiff : done ≠ [] → ¬ (∀ d, d ∈ (done.getLast?).getD [] ↔ d ∈ v)) :
    ∃ r2 t, replayAdditions src
        { r with tgt := { r.tgt with toRemove :=
            (((done.getLast?).getD []).filter (fun d => !v.contains d)).map (F r.idMap) } }
        (v.filter (fun d => !((done.getLast?).getD []).contains d)) = .ok r2 ∧
      r2.tgt.close st = some (t, done.length) ∧
      RInv src st (done ++ [v]) { r2 with tgt := t, vMap := r2.vMap ++ [(done.length, done.length)] } := by
  generalize hold : (done.getLast?).getD [] = old at *
  generalize htoRm : old.filter (fun d => !v.contains d) = toRm
  generalize htoAdd : v.filter (fun d => !old.contains d) = toAdd
  have hold_sub : ∀ d ∈ old, d ∈ done.flatten := by
    intro d hd
    cases hl : done.getLast? with
    | none => rw [hl] at hold; simp at hold; subst hold; cases hd
    | some o =>
      rw [hl] at hold; simp at hold; subst hold
      exact List.mem_flatten_of_mem (List.mem_of_getLast? hl) hd
  have holdOk : old.Nodup := by
    cases hl : done.getLast? with
    | none => rw [hl] at hold; simp at hold; subst hold; simp
    | some o =>
      rw [hl] at hold; simp at hold; subst hold
      exact (h.doneOk _ (List.mem_of_getLast? hl)).1
  have hlast := h.last
  rw [hold] at hlast
  generalize hlastT : (r.tgt.variants.getLast?).getD [] = lastT at hlast
  have hlk : ∀ d ∈ done.flatten, ∃ d', r.idMap.lookup d = some d' ∧ d' < r.tgt.defs.length ∧
      sameShape (info r.tgt.defs d') (info src d) ∧ F r.idMap d = d' := by
    intro d hd
    have := h.total d hd
    rw [Option.isSome_iff_exists] at this
    obtain ⟨d', hd'⟩ := this
    obtain ⟨_, h2, h3⟩ := h.keys d d' hd'
    exact ⟨d', hd', h2, h3, F_of_lookup hd'⟩
  have hFinj : ∀ a ∈ done.flatten, ∀ b ∈ done.flatten, F r.idMap a = F r.idMap b → a = b := by
    intro a ha b hb e
    obtain ⟨a', ha', _, _, hFa⟩ := hlk a ha
    obtain ⟨b', hb', _, _, hFb⟩ := hlk b hb
    rw [hFa, hFb] at e
    subst e
    exact h.inj a b a' ha' hb'
  have hmemRm : ∀ d, d ∈ toRm ↔ d ∈ old ∧ d ∉ v := by
    intro d; rw [← htoRm]; simp [List.mem_filter]
  have hmemAdd : ∀ d, d ∈ toAdd ↔ d ∈ v ∧ d ∉ old := by
    intro d; rw [← htoAdd]; simp [List.mem_filter]
  have hAddFresh : ∀ d ∈ toAdd, d ∉ done.flatten := fun d hd => hfresh d ((hmemAdd d).1 hd).1 ((hmemAdd d).1 hd).2
  generalize hr1 : ({ r with tgt := { r.tgt with toRemove := toRm.map (F r.idMap) } } : RState) = r1
  have hr1tgt : r1.tgt = { r.tgt with toRemove := toRm.map (F r.idMap) } := by rw [← hr1]
  have hr1map : r1.idMap = r.idMap := by rw [← hr1]
  have hr1vmap : r1.vMap = r.vMap := by rw [← hr1]
  have hcur1 : r1.tgt.currentData = removeData lastT (toRm.map (F r.idMap)) := by
    rw [currentData_eq, hr1tgt]
    simp [h.pendA, hlastT]
  have hcurmem : ∀ x ∈ r1.tgt.currentData, ∃ d0, d0 ∈ old ∧ d0 ∈ v ∧ F r.idMap d0 = x := by
    intro x hx
    rw [hcur1, mem_removeData] at hx
    obtain ⟨hxl, hxr⟩ := hx
    rw [hlast.mem_iff, List.mem_map] at hxl
    obtain ⟨d0, hd0, rfl⟩ := hxl
    refine ⟨d0, hd0, ?_, rfl⟩
    apply Classical.byContradiction
    intro hnv
    exact hxr (List.mem_map_of_mem ((hmemRm d0).2 ⟨hd0, hnv⟩))
  have hAddSub : toAdd.Sublist v := by rw [← htoAdd]; exact List.filter_sublist
  obtain ⟨r2, hadd, hok⟩ := replayAdditions_ok src toAdd r1
    (fun d hd => hv.2.1 d ((hmemAdd d).1 hd).1)
    (hv.1.sublist hAddSub)
    (List.Nodup.sublist (hAddSub.map _) hv.2.2.1)
    (by
      intro x hx
      obtain ⟨d0, hd0, _, rfl⟩ := hcurmem x hx
      obtain ⟨d', _, hlt, _, hF⟩ := hlk d0 (hold_sub d0 hd0)
      rw [hF, hr1tgt]; exact hlt)
    (by
      intro x hx d hd heq
      obtain ⟨d0, hd0, hd0v, rfl⟩ := hcurmem x hx
      obtain ⟨d', _, _, hsh, hF⟩ := hlk d0 (hold_sub d0 hd0)
      have hdv := (hmemAdd d).1 hd
      rw [hF, hr1tgt] at heq
      have : (info src d0).name = (info src d).name := by rw [← hsh.1]; exact heq
      have := inj_of_nodup_map hv.2.2.1 hd0v hdv.1 this
      subst this
      exact hdv.2 hd0)
  refine ⟨r2, ?_⟩
  -- facts about the new id map
  have hn0 : r1.tgt.defs.length = r.tgt.defs.length := by rw [hr1tgt]
  have hlk2_old : ∀ d, d ∉ toAdd → r2.idMap.lookup d = r.idMap.lookup d := by
    intro d hd; rw [hok.others d hd, hr1map]
  have hF2_old : ∀ d, d ∉ toAdd → F r2.idMap d = F r.idMap d := by
    intro d hd; unfold F; rw [hlk2_old d hd]
  have hdefs2 : r2.tgt.defs = r.tgt.defs ++ toAdd.map (mk src) := by rw [hok.defs, hr1tgt]
  have hlk2_new : ∀ d ∈ toAdd, ∃ d', r2.idMap.lookup d = some d' ∧ r.tgt.defs.length ≤ d' ∧ d' < r2.tgt.defs.length ∧
      info r2.tgt.defs d' = mk src d := by
    intro d hd
    obtain ⟨d', h1, h2, h3, h4⟩ := hok.news d hd
    exact ⟨d', h1, by omega, h3, h4⟩
  have hkeys2 : ∀ d d', r2.idMap.lookup d = some d' →
      d ∈ (done ++ [v]).flatten ∧ d' < r2.tgt.defs.length ∧ sameShape (info r2.tgt.defs d') (info src d) ∧
      (d ∈ toAdd → r.tgt.defs.length ≤ d') ∧ (d ∉ toAdd → d' < r.tgt.defs.length ∧ r.idMap.lookup d = some d') := by
    intro d d' hl
    by_cases hd : d ∈ toAdd
    · obtain ⟨d'', h1, h2, h3, h4⟩ := hlk2_new d hd
      rw [hl] at h1
      simp only [Option.some.injEq] at h1
      subst h1
      refine ⟨?_, h3, ?_, fun _ => h2, fun hn => absurd hd hn⟩
      · simp only [List.flatten_append, List.flatten_cons, List.flatten_nil, List.append_nil, List.mem_append]
        exact Or.inr ((hmemAdd d).1 hd).1
      · rw [h4]; exact ⟨rfl, rfl, rfl, rfl, rfl⟩
    · rw [hlk2_old d hd] at hl
      obtain ⟨h1, h2, h3⟩ := h.keys d d' hl
      refine ⟨?_, ?_, ?_, fun hy => absurd hy hd, fun _ => ⟨h2, hl⟩⟩
      · simp only [List.flatten_append, List.mem_append]
        exact Or.inl h1
      · rw [hdefs2]; simp; omega
      · rw [hdefs2, info_append_left' _ _ h2]; exact h3
  have htotal2 : ∀ d, d ∈ done.flatten ∨ d ∈ v → (r2.idMap.lookup d).isSome = true := by
    intro d hd
    by_cases hda : d ∈ toAdd
    · obtain ⟨d', h1, _⟩ := hlk2_new d hda
      rw [h1]; rfl
    · rw [hlk2_old d hda]
      rcases hd with hd | hd
      · exact h.total d hd
      · have : d ∈ old := by
          apply Classical.byContradiction
          intro hno; exact hda ((hmemAdd d).2 ⟨hd, hno⟩)
        exact h.total d (hold_sub d this)
  have hinj2 : ∀ d1 d2 d', r2.idMap.lookup d1 = some d' → r2.idMap.lookup d2 = some d' → d1 = d2 := by
    intro d1 d2 d' h1 h2
    obtain ⟨_, _, _, a1, b1⟩ := hkeys2 d1 d' h1
    obtain ⟨_, _, _, a2, b2⟩ := hkeys2 d2 d' h2
    by_cases m1 : d1 ∈ toAdd <;> by_cases m2 : d2 ∈ toAdd
    · apply inj_of_nodup_map hok.nodup m1 m2
      rw [F_of_lookup h1, F_of_lookup h2]
    · have := a1 m1; have := (b2 m2).1; omega
    · have := a2 m2; have := (b1 m1).1; omega
    · exact h.inj d1 d2 d' (b1 m1).2 (b2 m2).2
  have hF2inj : ∀ a, (a ∈ done.flatten ∨ a ∈ v) → ∀ b, (b ∈ done.flatten ∨ b ∈ v) → F r2.idMap a = F r2.idMap b → a = b := by
    intro a ha b hb e
    have ha' := htotal2 a ha
    have hb' := htotal2 b hb
    rw [Option.isSome_iff_exists] at ha' hb'
    obtain ⟨a', ha'⟩ := ha'
    obtain ⟨b', hb'⟩ := hb'
    rw [F_of_lookup ha', F_of_lookup hb'] at e
    subst e
    exact hinj2 a b a' ha' hb'
  -- the close
  have hb2 : st.isNative = true → BInv r2.tgt := by
    intro hn
    have hb := h.nat hn
    apply hok.binv
    · rw [hr1tgt]; exact ⟨hb.vinv, hb.addRange, hb.addFresh, hb.addNodup, hb.alignPos⟩
    · intro d hd; exact hv.2.2.2 d ((hmemAdd d).1 hd).1
  have hvars2 : r2.tgt.variants = r.tgt.variants := by rw [hok.variants, hr1tgt]
  have hrm2 : r2.tgt.toRemove = toRm.map (F r.idMap) := by rw [hok.toRemove, hr1tgt]
  have hadd2 : r2.tgt.toAdd = toAdd.map (F r2.idMap) := by rw [hok.toAdd, hr1tgt, h.pendA]; simp
  have hp : r2.tgt.hasPendingChanges = true := by
    unfold BState.hasPendingChanges
    rw [hvars2, hrm2, hadd2]
    by_cases hd0 : done = []
    · have : r.tgt.variants = [] := List.length_eq_zero_iff.1 (by rw [h.len, hd0]; rfl)
      simp [this]
    · have hne := hdiff hd0
      by_cases hR : toRm = []
      · by_cases hA : toAdd = []
        · exfalso
          apply hne
          intro d
          constructor
          · intro hdo
            apply Classical.byContradiction
            intro hnv
            have : d ∈ toRm := (hmemRm d).2 ⟨hdo, hnv⟩
            rw [hR] at this; cases this
          · intro hdv
            apply Classical.byContradiction
            intro hno
            have : d ∈ toAdd := (hmemAdd d).2 ⟨hdv, hno⟩
            rw [hA] at this; cases this
        · cases toAdd with
          | nil => exact absurd rfl hA
          | cons a as => simp
      · cases toRm with
        | nil => exact absurd rfl hR
        | cons a as => simp
  obtain ⟨defs', l', hc, hfr, hb'⟩ := close_any hb2 hp
  refine ⟨{ defs := defs', variants := r2.tgt.variants ++ [l'], toAdd := [], toRemove := [] }, hadd, ?_, ?_⟩
  · rw [hc, hvars2, h.len]
  -- the new variant
  have hperm := hfr.perm
  rw [hvars2, hlastT, hrm2, hadd2] at hperm
  have hlastNodup : lastT.Nodup :=
    (nodup_map_of_inj_on holdOk (fun a ha b hb => hFinj a (hold_sub a ha) b (hold_sub b hb))).perm hlast.symm
  have hl'perm : l'.Perm (v.map (F r2.idMap)) := by
    refine hperm.trans ?_
    rw [List.perm_ext_iff_of_nodup]
    · intro x
      rw [List.mem_append]
      constructor
      · rintro (hx | hx)
        · rw [← hcur1] at hx
          obtain ⟨d0, hd0, hd0v, rfl⟩ := hcurmem x hx
          rw [← hF2_old d0 (fun hm => ((hmemAdd d0).1 hm).2 hd0)]
          exact List.mem_map_of_mem hd0v
        · rw [List.mem_map] at hx
          obtain ⟨d, hd, rfl⟩ := hx
          exact List.mem_map_of_mem ((hmemAdd d).1 hd).1
      · intro hx
        rw [List.mem_map] at hx
        obtain ⟨d, hdv, rfl⟩ := hx
        by_cases hdo : d ∈ old
        · left
          have hnotadd : d ∉ toAdd := fun hm => ((hmemAdd d).1 hm).2 hdo
          rw [hF2_old d hnotadd, mem_removeData]
          refine ⟨hlast.mem_iff.2 (List.mem_map_of_mem hdo), ?_⟩
          intro hm
          rw [List.mem_map] at hm
          obtain ⟨d1, hd1, e⟩ := hm
          have hd1' := (hmemRm d1).1 hd1
          have := hFinj d1 (hold_sub d1 hd1'.1) d (hold_sub d hdo) e
          subst this
          exact hd1'.2 hdv
        · right
          exact List.mem_map_of_mem ((hmemAdd d).2 ⟨hdv, hdo⟩)
    · rw [List.nodup_append]
      refine ⟨hlastNodup.sublist (removeData_sublist _ _), hok.nodup, ?_⟩
      intro a ha b hb
      have ha' := (removeData_sublist _ _).subset ha
      rw [hlast.mem_iff, List.mem_map] at ha'
      obtain ⟨d0, hd0, rfl⟩ := ha'
      obtain ⟨d', _, hlt, _, hF⟩ := hlk d0 (hold_sub d0 hd0)
      rw [List.mem_map] at hb
      obtain ⟨d1, hd1, rfl⟩ := hb
      obtain ⟨d'', h1, h2, _, _⟩ := hlk2_new d1 hd1
      rw [hF, F_of_lookup h1]
      omega
    · exact nodup_map_of_inj_on hv.1 (fun a ha b hb => hF2inj a (Or.inr ha) b (Or.inr hb))
  refine ⟨rfl, rfl, ?_, ?_, ?_, ?_, ?_, hinj2, hb', ?_⟩
  · show r2.vMap ++ _ = _
    rw [hok.vMap, hr1vmap, h.vmap, List.length_append, List.length_singleton, List.range_succ]
    simp
  · show (r2.tgt.variants ++ [l']).length = _
    rw [hvars2]; simp [h.len]
  · intro j t w ht hw
    have ht' : (r.tgt.variants ++ [l'])[j]? = some t := by rw [← hvars2]; exact ht
    by_cases hj : j < done.length
    · rw [List.getElem?_append_left (by rw [h.len]; exact hj)] at ht'
      rw [List.getElem?_append_left hj] at hw
      have hp0 := h.vars j t w ht' hw
      have : w.map (F r2.idMap) = w.map (F r.idMap) := by
        apply List.map_congr_left
        intro d hd
        apply hF2_old
        intro hm
        exact hAddFresh d hm (List.mem_flatten_of_mem (List.mem_of_getElem? hw) hd)
      show t.Perm (w.map (F r2.idMap))
      rw [this]; exact hp0
    · have hge : done.length ≤ j := by omega
      rw [List.getElem?_append_right hge] at hw
      rw [List.getElem?_append_right (by rw [h.len]; exact hge), h.len] at ht'
      cases hjj : j - done.length with
      | zero =>
        rw [hjj] at hw ht'
        simp at hw ht'
        subst hw; subst ht'
        exact hl'perm
      | succ m => rw [hjj] at hw; simp at hw
  · intro d d' hl
    obtain ⟨h1, h2, h3, _, _⟩ := hkeys2 d d' hl
    refine ⟨h1, ?_, ?_⟩
    · show d' < defs'.length
      rw [hfr.len]; exact h2
    · exact sameShape_trans (hfr.shape d') h3
  · intro d hd
    apply htotal2
    simp only [List.flatten_append, List.flatten_cons, List.flatten_nil, List.append_nil, List.mem_append] at hd
    exact hd
  · intro w hw
    simp only [List.mem_append, List.mem_singleton] at hw
    rcases hw with hw | rfl
    · exact h.doneOk w hw
    · exact hv


theorem removals_some {src : Defs} {st : Strategy} {done : List (List Nat)} {r : RState} (h : RInv src st done r)
    {old : List Nat} (hd : done.getLast? = some old) (v : List Nat) :
    replayRemovals r (old.filter (fun d => !v.contains d)) =
      .ok { r with tgt := { r.tgt with toRemove := (old.filter (fun d => !v.contains d)).map (F r.idMap) } } := by
  have hlast := h.last
  rw [hd] at hlast
  simp only [Option.getD_some] at hlast
  have hne : r.tgt.variants ≠ [] := by
    intro he
    have := h.len
    rw [he] at this
    have : done = [] := List.length_eq_zero_iff.1 this.symm
    rw [this] at hd; simp at hd
  obtain ⟨lastT, hlT⟩ : ∃ lastT, r.tgt.variants.getLast? = some lastT := by
    cases hl : r.tgt.variants.getLast? with
    | none => exact absurd (List.getLast?_eq_none_iff.1 hl) hne
    | some x => exact ⟨x, rfl⟩
  rw [hlT] at hlast
  simp only [Option.getD_some] at hlast
  have hold_sub : ∀ d ∈ old, d ∈ done.flatten := fun d hd' => List.mem_flatten_of_mem (List.mem_of_getLast? hd) hd'
  have hlk : ∀ d ∈ old, ∃ d', r.idMap.lookup d = some d' := by
    intro d hd'
    have := h.total d (hold_sub d hd')
    rw [Option.isSome_iff_exists] at this
    exact this
  have := replayRemovals_ok lastT (old.filter (fun d => !v.contains d)) r hlT
    (by
      intro d hd'
      have hdo := (List.mem_filter.1 hd').1
      obtain ⟨d', hd''⟩ := hlk d hdo
      refine ⟨d', hd'', ?_⟩
      rw [hlast.mem_iff, ← F_of_lookup hd'']
      exact List.mem_map_of_mem hdo)
    (by
      apply nodup_map_of_inj_on
      · exact ((h.doneOk old (List.mem_of_getLast? hd)).1).sublist List.filter_sublist
      · intro a ha b hb e
        obtain ⟨a', ha'⟩ := hlk a (List.mem_filter.1 ha).1
        obtain ⟨b', hb'⟩ := hlk b (List.mem_filter.1 hb).1
        rw [F_of_lookup ha', F_of_lookup hb'] at e
        subst e
        exact h.inj a b a' ha' hb')
    (by intro d _; rw [h.pendR]; simp)
  rw [this, h.pendR]
  simp

theorem replayVariants_ok (src : Defs) (st : Strategy) : ∀ (vs done : List (List Nat)) (r : RState),
    RInv src st done r → SrcChain src done.flatten done.getLast? vs →
    ∃ r', replayVariants src st r done.getLast? vs done.length = .ok r' ∧ RInv src st (done ++ vs) r' := by
  intro vs
  induction vs with
  | nil => intro done r h _; exact ⟨r, rfl, by simpa using h⟩
  | cons v vs ih =>
    intro done r h hch
    obtain ⟨hv, hfresh, hdiff, hrest⟩ := hch
    have hdiff' : done ≠ [] → ¬ (∀ d, d ∈ (done.getLast?).getD [] ↔ d ∈ v) := by
      intro hne
      cases hd : done.getLast? with
      | none => exact absurd (List.getLast?_eq_none_iff.1 hd) hne
      | some old => exact hdiff old hd
    obtain ⟨r2, t, hadd, hclose, hinv⟩ := step_core h hv hfresh hdiff'
    have hnext := ih (done ++ [v]) _ hinv (by simpa using hrest)
    obtain ⟨r', hrun, hinv'⟩ := hnext
    refine ⟨r', ?_, by simpa using hinv'⟩
    rw [List.getLast?_concat, List.length_append, List.length_singleton] at hrun
    unfold replayVariants
    cases hd : done.getLast? with
    | none =>
      rw [hd] at hadd
      simp only [Option.getD_none, List.filter_nil, List.map_nil, List.contains_nil, Bool.not_false] at hadd
      have hfv : v.filter (fun _ => true) = v := by simp
      rw [hfv] at hadd
      have hr : ({ r with tgt := { r.tgt with toRemove := [] } } : RState) = r := by
        have := h.pendR
        cases r with
        | mk tgt idMap vMap =>
          cases tgt with
          | mk defs variants toAdd toRemove => simp at this; subst this; rfl
      rw [hr] at hadd
      simp only [replayRemovals, hadd, hclose]
      exact hrun
    | some old =>
      rw [hd] at hadd
      simp only [Option.getD_some] at hadd
      simp only [removals_some h hd v, hadd, hclose]
      exact hrun

/-- the statement of C20 on the model, for any source satisfying `SrcChain` -/
theorem replay_ok (src : Definition) (st : Strategy) (hch : SrcChain src.defs [] none src.variants) :
    ∃ r, replay src st = .ok r ∧ RInv src.defs st src.variants r := by
  have := replayVariants_ok src.defs st src.variants [] {} (RInv.init src.defs st) (by simpa using hch)
  simpa [replay] using this

end Truc
