//! Lab support: instrumented field types, drop ledger, per-operation flushing.
#![allow(dead_code)]
use std::cell::RefCell;

thread_local! {
    static DROPS: RefCell<Vec<String>> = RefCell::new(Vec::new());
    static MUTE: RefCell<bool> = RefCell::new(false);
    pub static CLONE_BOMB: RefCell<Option<(&'static str, u64)>> = RefCell::new(None);
}

pub fn log_drop(s: String) {
    if MUTE.with(|m| *m.borrow()) { return; }
    let _ = DROPS.try_with(|d| d.borrow_mut().push(s));
}
pub fn mute(on: bool) { MUTE.with(|m| *m.borrow_mut() = on); }

pub struct Out { pub ev: std::fs::File, pub raw: std::fs::File, pub op: usize }
impl Out {
    pub fn open(dir: &str) -> Out {
        Out { ev: std::fs::File::create(format!("{}/events.txt", dir)).unwrap(), raw: std::fs::File::create(format!("{}/access.txt", dir)).unwrap(), op: 0 }
    }
    pub fn marker(&mut self) { use std::io::Write; writeln!(self.ev, "--").unwrap(); }
}

/// the compiler's type name without its module paths, at every nesting depth (`core::option::Option<lab::support::P4>` -> `Option<P4>`)
fn short(t: &str) -> String {
    let mut out = String::new();
    let mut word = String::new();
    let cs: Vec<char> = t.chars().collect();
    let mut i = 0;
    while i < cs.len() {
        let c = cs[i];
        if c.is_alphanumeric() || c == '_' { word.push(c); i += 1; continue; }
        if c == ':' && i + 1 < cs.len() && cs[i + 1] == ':' { word.clear(); i += 2; continue; }
        out.push_str(&word); word.clear();
        out.push(c); i += 1;
    }
    out.push_str(&word);
    out
}

pub fn flush(out: &mut Out, res: String) {
    let mut d = DROPS.with(|d| std::mem::take(&mut *d.borrow_mut()));
    d.sort();
    #[cfg(feature = "hooks")]
    let acc = {
        let a = truc_runtime::verif_hooks::take();
        let mut v: Vec<String> = a.iter().map(|x| format!("{}:{}:{}", x.kind, x.offset, short(x.type_name))).collect();
        v.sort();
        for x in &a {
            { use std::io::Write; writeln!(out.raw, "{} {} {} {} {} {} {} {}", out.op, x.kind, x.base, x.offset, x.size, x.align, x.cap, short(x.type_name)).unwrap(); }
        }
        format!(" | a={}", v.join(","))
    };
    #[cfg(not(feature = "hooks"))]
    let acc = String::new();
    { use std::io::Write; writeln!(out.ev, "{} | d={}{}", res, d.join(","), acc).unwrap(); }
    out.op += 1;
}

pub trait V: Sized {
    fn mk(id: u64) -> Self;
    fn show(&self) -> String;
}

// real std heap types: the value carries characters that need a JSON escape
fn std_text(id: u64) -> String { format!("{}\"q\\\n", id) }
fn std_id(s: &str) -> String { s.chars().take_while(|c| c.is_ascii_digit()).collect() }
impl V for String {
    fn mk(id: u64) -> Self { std_text(id) }
    fn show(&self) -> String { std_id(self) }
}
impl V for Box<str> {
    fn mk(id: u64) -> Self { std_text(id).into_boxed_str() }
    fn show(&self) -> String { std_id(self) }
}
impl V for Vec<u8> {
    fn mk(id: u64) -> Self { std_text(id).into_bytes() }
    fn show(&self) -> String { std_id(std::str::from_utf8(self).unwrap()) }
}

macro_rules! pod {
    ($name:ident, $repr:meta, $inner:ty, $to:expr, $from:expr) => {
        #[derive(Clone, Copy, PartialEq, Debug)]
        #[$repr]
        pub struct $name(pub $inner);
        impl V for $name {
            fn mk(id: u64) -> Self { $name(($to)(id)) }
            fn show(&self) -> String { (($from)(self.0) as u64).to_string() }
        }
        impl serde::Serialize for $name {
            fn serialize<S: serde::Serializer>(&self, s: S) -> Result<S::Ok, S::Error> { s.serialize_u64(($from)(self.0) as u64) }
        }
        impl<'de> serde::Deserialize<'de> for $name {
            fn deserialize<D: serde::Deserializer<'de>>(d: D) -> Result<Self, D::Error> { Ok(Self::mk(u64::deserialize(d)?)) }
        }
    };
}
pod!(P1, repr(transparent), u8, |i: u64| i as u8, |x: u8| x as u64);
pod!(P2, repr(transparent), u16, |i: u64| i as u16, |x: u16| x as u64);
pod!(P4, repr(transparent), u32, |i: u64| i as u32, |x: u32| x as u64);
pod!(P8, repr(transparent), u64, |i: u64| i, |x: u64| x);
pod!(P3, repr(transparent), [u8; 3], |i: u64| [i as u8, (i >> 8) as u8, (i >> 16) as u8], |x: [u8; 3]| x[0] as u64 | (x[1] as u64) << 8 | (x[2] as u64) << 16);
// every byte of the multi-word types is significant: a store that loses the tail of a value reads back as a damaged value
pod!(P12, repr(transparent), [u32; 3], |i: u64| [i as u32, !(i as u32), (i as u32).wrapping_add(9)],
     |x: [u32; 3]| if x[1] == !x[0] && x[2] == x[0].wrapping_add(9) { x[0] as u64 } else { 0xBAD0_0000_0000 | x[0] as u64 });
pod!(P24, repr(transparent), [u64; 3], |i: u64| [i, !i, i ^ 0x5555],
     |x: [u64; 3]| if x[1] == !x[0] && x[2] == x[0] ^ 0x5555 { x[0] } else { 0xBAD0_0000_0000 | (x[0] & 0xFFFF_FFFF) });
// 16-byte aligned plain data. On x86-64 the payload is a SIMD register type: a store that assumes alignment faults at a misaligned
// address (movaps), so an alignment-requiring store into misaligned storage is observable as a crash, not only as undefined behaviour.
#[cfg(target_arch = "x86_64")]
mod p16 {
    pub type Inner = std::arch::x86_64::__m128i;
    pub fn to(i: u64) -> Inner { unsafe { std::mem::transmute([i, !i]) } }
    pub fn from(x: Inner) -> u64 { let a: [u64; 2] = unsafe { std::mem::transmute(x) }; if a[1] == !a[0] { a[0] } else { 0xBAD0_0000_0000 | (a[0] & 0xFFFF_FFFF) } }
}
#[cfg(not(target_arch = "x86_64"))]
mod p16 {
    #[derive(Clone, Copy, PartialEq, Debug)]
    #[repr(C, align(16))]
    pub struct Inner(pub [u64; 2]);
    pub fn to(i: u64) -> Inner { Inner([i, !i]) }
    pub fn from(x: Inner) -> u64 { if x.0[1] == !x.0[0] { x.0[0] } else { 0xBAD0_0000_0000 | (x.0[0] & 0xFFFF_FFFF) } }
}
#[derive(Clone, Copy)]
#[repr(transparent)]
pub struct P16(pub p16::Inner);
impl PartialEq for P16 { fn eq(&self, o: &Self) -> bool { p16::from(self.0) == p16::from(o.0) } }
impl std::fmt::Debug for P16 { fn fmt(&self, f: &mut std::fmt::Formatter<'_>) -> std::fmt::Result { write!(f, "P16({})", p16::from(self.0)) } }
impl V for P16 {
    fn mk(id: u64) -> Self { P16(p16::to(id)) }
    fn show(&self) -> String { p16::from(self.0).to_string() }
}
impl serde::Serialize for P16 {
    fn serialize<S: serde::Serializer>(&self, s: S) -> Result<S::Ok, S::Error> { s.serialize_u64(p16::from(self.0)) }
}
impl<'de> serde::Deserialize<'de> for P16 {
    fn deserialize<D: serde::Deserializer<'de>>(d: D) -> Result<Self, D::Error> { Ok(Self::mk(u64::deserialize(d)?)) }
}

// plain data aligned above 16 (the bare local buffers of constructors and conversions are usually 16-aligned at most)
#[derive(Clone, Copy, PartialEq, Debug)]
#[repr(C, align(32))]
pub struct P32(pub [u64; 4]);
impl V for P32 {
    fn mk(id: u64) -> Self { P32([id, !id, id ^ 0x3333, id.wrapping_add(32)]) }
    fn show(&self) -> String {
        let x = self.0;
        (if x[1] == !x[0] && x[2] == x[0] ^ 0x3333 && x[3] == x[0].wrapping_add(32) { x[0] } else { 0xBAD0_0000_0000 | (x[0] & 0xFFFF_FFFF) }).to_string()
    }
}
impl serde::Serialize for P32 {
    fn serialize<S: serde::Serializer>(&self, s: S) -> Result<S::Ok, S::Error> { s.serialize_u64(self.show().parse().unwrap()) }
}
impl<'de> serde::Deserialize<'de> for P32 {
    fn deserialize<D: serde::Deserializer<'de>>(d: D) -> Result<Self, D::Error> { Ok(Self::mk(u64::deserialize(d)?)) }
}

// plain data without an all-zero value (`Copy`, may stay uninitialised, but must never be conjured from zeroed bytes)
#[derive(Clone, Copy, PartialEq, Debug)]
#[repr(transparent)]
pub struct PNZ(pub std::num::NonZeroU32);
impl V for PNZ {
    fn mk(id: u64) -> Self { PNZ(std::num::NonZeroU32::new((id as u32) | 0x8000_0000).unwrap()) }
    fn show(&self) -> String { (self.0.get() & 0x7FFF_FFFF).to_string() }
}
impl serde::Serialize for PNZ {
    fn serialize<S: serde::Serializer>(&self, s: S) -> Result<S::Ok, S::Error> { s.serialize_u64((self.0.get() & 0x7FFF_FFFF) as u64) }
}
impl<'de> serde::Deserialize<'de> for PNZ {
    fn deserialize<D: serde::Deserializer<'de>>(d: D) -> Result<Self, D::Error> { Ok(Self::mk(u64::deserialize(d)?)) }
}

// an `Option` of plain data (the generator's handling of `Option<_>` fields; `None` never occurs, so the value is always printable)
impl V for Option<P4> {
    fn mk(id: u64) -> Self { Some(P4::mk(id)) }
    fn show(&self) -> String { match self { Some(p) => p.show(), None => "none".to_string() } }
}

macro_rules! droppable {
    ($name:ident, $tag:expr, $repr:meta, $inner:ty, $to:expr, $from:expr) => {
        #[derive(PartialEq, Debug)]
        #[$repr]
        pub struct $name(pub $inner);
        impl $name { pub fn id(&self) -> u64 { ($from)(&self.0) } }
        impl V for $name {
            fn mk(id: u64) -> Self { $name(($to)(id)) }
            fn show(&self) -> String { self.id().to_string() }
        }
        impl Drop for $name { fn drop(&mut self) { log_drop(format!("{}{}", $tag, self.id())); } }
        impl Clone for $name {
            fn clone(&self) -> Self {
                if CLONE_BOMB.with(|b| *b.borrow() == Some(($tag, self.id()))) { panic!("clone bomb {}", self.id()); }
                Self::mk(self.id() + 1000000)
            }
        }
        impl serde::Serialize for $name {
            fn serialize<S: serde::Serializer>(&self, s: S) -> Result<S::Ok, S::Error> { s.serialize_u64(self.id()) }
        }
        impl<'de> serde::Deserialize<'de> for $name {
            fn deserialize<D: serde::Deserializer<'de>>(d: D) -> Result<Self, D::Error> { Ok(Self::mk(u64::deserialize(d)?)) }
        }
    };
}
droppable!(H, "H", repr(transparent), Box<u64>, |i: u64| Box::new(i), |x: &Box<u64>| **x);
droppable!(O3, "O3", repr(transparent), [u8; 3], |i: u64| [i as u8, (i >> 8) as u8, (i >> 16) as u8], |x: &[u8; 3]| x[0] as u64 | (x[1] as u64) << 8 | (x[2] as u64) << 16);
droppable!(A16, "A16", repr(C, align(16)), u64, |i: u64| i, |x: &u64| *x);
// an owning type of 40 bytes (size thresholds in generated clone / conversion code)
droppable!(H40, "H40", repr(C), (Box<u64>, [u64; 4]), |i: u64| (Box::new(i), [i, !i, 3, 4]), |x: &(Box<u64>, [u64; 4])| if x.1[0] == *x.0 && x.1[1] == !*x.0 { *x.0 } else { 0xBAD0_0000_0000 | (*x.0 & 0xFFFF_FFFF) });

macro_rules! zst {
    ($name:ident, $tag:expr, $repr:meta) => {
        #[derive(PartialEq, Debug)]
        #[$repr]
        pub struct $name;
        impl V for $name {
            fn mk(_id: u64) -> Self { $name }
            fn show(&self) -> String { $tag.to_string() }
        }
        impl Drop for $name { fn drop(&mut self) { log_drop($tag.to_string()); } }
        impl Clone for $name { fn clone(&self) -> Self { $name } }
        impl serde::Serialize for $name {
            fn serialize<S: serde::Serializer>(&self, s: S) -> Result<S::Ok, S::Error> { s.serialize_u64(0) }
        }
        impl<'de> serde::Deserialize<'de> for $name {
            fn deserialize<D: serde::Deserializer<'de>>(d: D) -> Result<Self, D::Error> { u64::deserialize(d)?; Ok($name) }
        }
    };
}
zst!(Z, "Z", repr(C));
zst!(Z8, "Z8", repr(C, align(8)));
