"""Per-property decision procedures."""
import json, os, re, time
from common import *
import chan_l
import chan_v
import chan_x
import chan_p
import chan_t

L_PROPS = {"C01", "C02", "C03", "C12", "C13", "C18", "C19", "C20"}

TRUSTED = [
    "Lean 4.33.0 kernel; axioms of every property theorem audited per run against {propext, Classical.choice, Quot.sound}",
    "no sorry/admit/axiom/native_decide/bv_decide/implemented_by/unsafe/maxHeartbeats 0 (grep on every run)",
    "hand-written Lean model (TrucModel/Model/*.lean), tied to /repo by the correspondence channels: sampling, not proof",
    "the Rust harness (canonicalisation, oracles), the Python differ",
]


def proof_side(prop, tier):
    """build the property module + driver, grep, axiom audit. returns dict"""
    r = {"obligations": 0, "discharged": 0, "theorems": [], "axioms": {}, "problems": []}
    thms = theorems_of(prop)
    r["theorems"] = thms
    r["obligations"] = len(thms)
    if not thms:
        r["problems"].append(f"Props/{prop}.lean has no theorem")
        return r
    ok, out = lake_build([f"TrucModel.Props.{prop}", "trucdrv"])
    r["build_ok"] = ok
    if not ok:
        r["problems"].append("lake build failed: " + out[-1500:])
        # which theorems still check? unknown: count none as discharged
        return r
    bad = forbidden_tokens()
    if bad:
        r["problems"].append("forbidden tokens: " + "; ".join(bad[:5]))
    rc, axs, txt = axioms_audit(prop, thms)
    r["axioms"] = axs
    for t in thms:
        short = t.split(".")[-1]
        if short not in axs:
            r["problems"].append(f"theorem {t}: no #print axioms output ({txt[-300:]})")
        elif not set(axs[short]) <= ALLOWED_AXIOMS:
            r["problems"].append(f"theorem {t} depends on axioms {axs[short]}")
        else:
            r["discharged"] += 1
    if tier == "thorough":
        ok, out = leanchecker(prop)
        r["leanchecker"] = ok
        if not ok:
            r["problems"].append("leanchecker: " + out[-500:])
    return r


def known_match(prop, text):
    for k in load_known():
        if k.get("status") == "known" and k.get("property") == prop and k.get("match") and k["match"] in text:
            return k
    return None


def decide(prop, tier, seed, replay=None):
    t0 = time.time()
    with Lock():
        if prop in L_PROPS:
            return decide_L(prop, tier, seed, t0, replay)
        if prop in V_PROPS:
            return decide_V(prop, tier, seed, t0, replay)
        if prop in X_PROPS:
            return decide_X(prop, tier, seed, t0, replay)
        if prop in P_PROPS:
            return decide_P(prop, tier, seed, t0, replay)
        if prop in T_PROPS:
            return decide_T(prop, tier, seed, t0, replay)
    print(f"unknown property {prop}")
    return 2


def determinism_L(seed):
    """same request stream driven in two separately started processes (different ASLR/hash seeds): answers must be byte-identical"""
    outs = []
    for k in (0, 1):
        d = os.path.join(WORK, f"det{k}")
        rc, out, err = sh([harness_bin("chan_l"), "random", str(seed * 31 + 5), "3000", d], timeout=600)
        outs.append(d)
    a = open(os.path.join(outs[0], "impl.txt")).read().split("\n")
    b = open(os.path.join(outs[1], "impl.txt")).read().split("\n")
    req = open(os.path.join(outs[0], "req.txt")).read().split("\n")
    res = {"differs": False, "lines": len(a), "detail": "", "requests": []}
    if a != b:
        res["differs"] = True
        k = next(i for i in range(min(len(a), len(b))) if a[i] != b[i]) if len(a) == len(b) or True else 0
        start = max(i for i in range(k + 1) if req[i].startswith("reset"))
        end = next((i for i in range(k + 1, len(req)) if req[i].startswith("reset")), len(req))
        res["detail"] = f"{a[k][:200]} vs {b[k][:200]}"
        res["requests"] = req[start:end]
    # the same history driven twice in a row in one process (fresh builder, freshly allocated strings): same answers
    d = os.path.join(WORK, "det2")
    rc, out, err = sh([harness_bin("chan_l"), "twice", str(seed * 17 + 3), "2500", d], timeout=600)
    if rc == 0:
        req2 = open(os.path.join(d, "req.txt")).read().split("\n")
        imp2 = open(os.path.join(d, "impl.txt")).read().split("\n")
        starts = [i for i, r in enumerate(req2) if r.startswith("reset")] + [len(req2)]
        res["in_process_pairs"] = (len(starts) - 1) // 2
        for k in range(0, len(starts) - 2, 2):
            h1 = imp2[starts[k]:starts[k + 1]]; h2 = imp2[starts[k + 1]:starts[k + 2]]
            if h1 != h2 and req2[starts[k]:starts[k + 1]] == req2[starts[k + 1]:starts[k + 2]] and not res["differs"]:
                j = next((i for i in range(min(len(h1), len(h2))) if h1[i] != h2[i]), 0)
                res["differs"] = True
                res["detail"] = "in one process, the second run of the same history answered differently: " + f"{h1[j][:200]} vs {h2[j][:200]}"
                res["requests"] = req2[starts[k]:starts[k + 1]]
                break
    # the same histories in another order, in another process: what the process did before must not matter
    try:
        hs = []
        for r in req:
            if r.startswith("reset"):
                hs.append([r])
            elif hs:
                hs[-1].append(r)
        d3 = os.path.join(WORK, "det3"); os.makedirs(d3, exist_ok=True)
        rev = os.path.join(d3, "in.txt")
        open(rev, "w").write("\n".join("\n".join(h) for h in reversed(hs)) + "\n")
        rc, out, err = sh([harness_bin("chan_l"), "file:" + rev, "0", "0", d3], timeout=600)
        if rc == 0 and not res["differs"]:
            def split(reqs, imps):
                out, cur = {}, None
                for r, a in zip(reqs, imps):
                    if r.startswith("reset"):
                        cur = [[], []]
                        out.setdefault("\n", []).append(cur)
                    if cur is not None:
                        cur[0].append(r); cur[1].append(a)
                return out.get("\n", [])
            first = {"\n".join(h[0]): h[1] for h in split(req, a)}
            other = split(open(os.path.join(d3, "req.txt")).read().split("\n"), open(os.path.join(d3, "impl.txt")).read().split("\n"))
            cmpd = 0
            for h in other:
                k = "\n".join(h[0])
                if k in first:
                    cmpd += 1
                    if first[k] != h[1]:
                        j = next((i for i in range(min(len(first[k]), len(h[1]))) if first[k][i] != h[1][i]), 0)
                        res["differs"] = True
                        res["detail"] = "the same history answered differently when the process had driven other histories before it: " + f"{first[k][j][:200]} vs {h[1][j][:200]}"
                        res["requests"] = h[0]
                        break
            res["reordered_histories_compared"] = cmpd
    except Exception as e:
        res["reordered_histories_compared"] = f"not run: {e}"
    return res


T_PROPS = {"C17"}


def t_side(prop, seed, tier):
    """channel T results for `prop`: (oracle hits, disagreements, info, analysis)"""
    ok, out = cargo_build(["chan_t"])
    if not ok:
        return [{"message": "harness does not build against /repo: " + out[-1500:]}], [], {"errors": ["build"]}, {"spellings": 0, "nontrivial": 0, "samples": [], "stats": {}, "n_disagree": 0}
    lake_build(["trucdrv"])
    info = chan_t.run(seed, tier)
    an = chan_t.analyse(info)
    return [o for o in an["oracle"] if o["property"] == prop], an["disagreements"], info, an


def decide_T(prop, tier, seed, t0, replay):
    pr = proof_side(prop, tier)
    oracle, disagree, info, an = t_side(prop, seed, tier)
    # the names the builder's entry points record (channel L): canonical whatever the caller's spelling
    ok_l, _ = cargo_build(["chan_l"])
    l_hits = []
    if ok_l and not replay:
        linfo = chan_l.run(seed, tier)
        lan = chan_l.analyse(linfo["dirs"], prop)
        l_hits = [o for o in lan["oracle"] if o["property"] == prop]
        oracle = oracle + [{"property": prop, "message": o["message"] + "\n# history:\n# " + "\n# ".join(o.get("requests", [])[:40])} for o in l_hits[:50]]
    proof_ok = not pr["problems"]
    tie_ok = an["n_disagree"] == 0 and not info["errors"]
    rc = 0; violations = 0; lines = []
    if oracle:
        o = oracle[0]
        path = write_replay(prop, "oracle", f"# kind: implementation-vs-oracle\n# {o['message']}\n# {len(oracle)} hits (VERIF_SEED={seed})\n")
        lines.append(f"VIOLATION property={prop} replay={path}")
        violations = len(oracle); rc = 1
    elif not proof_ok or not tie_ok:
        what = []
        if not proof_ok:
            what.append("proof obligations that no longer check: " + " | ".join(pr["problems"])[:2000])
        body = "# kind: model-vs-implementation / proof break, no failing input found\n"
        if not tie_ok:
            what.append(f"channel T: {an['n_disagree']} spellings disagree; errors {info['errors'][:2]}")
            if disagree:
                d = disagree[0]
                what.append(f"`{d['request']}`\n#   impl : {d['impl']}\n#   model: {d['model']}")
        body += "# " + "\n# ".join(what) + "\n" + (disagree[0]["request"] + "\n" if disagree else "")
        path = write_replay(prop, "tie", body)
        lines.append(f"VIOLATION property={prop} replay={path} no-failing-input-found")
        violations = 1; rc = 1
    cov = {
        "obligations": pr["obligations"], "discharged": pr["discharged"],
        "checker_cmd": f"cd lean/TrucModel && lake build TrucModel.Props.{prop} && lake env lean <#print axioms of each theorem>",
        "trusted_base": TRUSTED + ["syn's parser and quote's printer are modelled by a hand-written lexer/parser/printer (tied by channel T)", "rustc name resolution (prelude in scope, not shadowed): validated by fn(T) -> <name> compile probes"],
        "theorems": pr["theorems"], "axioms": pr["axioms"], "proof_problems": pr["problems"],
        "evaluations": an["spellings"], "distinct_nontrivial": an["nontrivial"],
        "rule": "spellings = for each of the catalogue's concrete types (grammar over primitives, String, Box, Vec, Option, Result, tuples, arrays, slices behind Box, user types; depth <= 3): the compiler's full spelling, the source spelling and four whitespace variations, plus a malformed stream; real normaliser vs Lean lexer+parser+rewrite+printer; non-trivial = contains a constructor",
        "samples": an["samples"], "traces_validated_against_impl": an["spellings"], "catalogue": an["stats"], "disagreements": an["n_disagree"],
        "oracle_hits": len(oracle), "rustc_type_equality_probe": "ok" if info.get("probe_rc") == 0 else "failed", "exhaustive": False,
    }
    write_evidence(prop, tier, seed, cov, ["prelude names are in scope and not shadowed where generated code is compiled"], time.time() - t0, violations)
    for l in lines:
        print(l)
    if rc == 0:
        print(f"OK property={prop} theorems={pr['discharged']}/{pr['obligations']} spellings={an['spellings']} disagreements=0")
    return rc


P_PROPS = {"C11", "C14"}


def decide_P(prop, tier, seed, t0, replay):
    pr = proof_side(prop, tier)
    ok, out = cargo_build(["chan_l", "chan_p"])
    if not ok:
        path = write_replay(prop, "build", "harness does not build against /repo:\n" + out[-3000:])
        print(f"VIOLATION property={prop} replay={path} no-failing-input-found")
        return 1
    lake_build(["trucdrv"])
    # the generator model (assertions, struct shapes) is tied by the G part of channel L
    linfo = chan_l.run(seed, tier)
    lan = chan_l.analyse(linfo["dirs"], prop)
    pinfo = chan_p.run(seed, tier)
    probes = pinfo["probes"]
    oracle = []; disagree = []
    for pb in probes:
        if prop == "C11" and not pb["kind"].startswith("auto"):
            must_compile = pb["kind"] == "ok"
            if pb["compiles"] != must_compile:
                oracle.append({"message": f"{pb['desc']}: the generated module {'compiles' if pb['compiles'] else 'is rejected: ' + str(pb['error'])}", "requests": pb["requests"]})
            if (pb["model"] == "accept") != pb["compiles"]:
                disagree.append({"request": "static", "impl": "compiles" if pb["compiles"] else "rejected", "model": pb["model"], "requests": pb["requests"], "desc": pb["desc"]})
        if prop == "C14" and pb["kind"].startswith("auto"):
            what = pb["kind"].split("-")[1]
            must_compile = "NOT" not in pb["desc"]
            if pb["compiles"] != must_compile:
                oracle.append({"message": f"auto-trait: {pb['desc']}: the probe `is_{what}::<Record0>()` {'compiles' if pb['compiles'] else 'is rejected'}", "requests": pb["requests"]})
            model_says = ("send=true" in pb["model"]) if what == "send" else ("sync=true" in pb["model"])
            if model_says != pb["compiles"]:
                disagree.append({"request": "autotraits", "impl": "compiles" if pb["compiles"] else "rejected", "model": pb["model"], "requests": pb["requests"], "desc": pb["desc"]})
    proof_ok = not pr["problems"]
    tie_ok = lan.get("n_disagree", 0) == 0 and not linfo["errors"] and not disagree and not pinfo["errors"]
    rc = 0; violations = 0; lines = []
    unknown = [o for o in oracle if not known_match(prop, o["message"])]
    known = [o for o in oracle if known_match(prop, o["message"])]
    seen_known = set()
    for o in known:
        k = known_match(prop, o["message"])
        if k["what"] not in seen_known:
            seen_known.add(k["what"])
            lines.append(f"KNOWN-FINDING: property={prop} {k['what']}")
    if unknown:
        o = unknown[0]
        body = (f"# kind: implementation-vs-oracle (compile probe)\n# {o['message']}\n# {len(unknown)} probes fail; the requests below build the definition whose generated module was compiled\n" + "\n".join(o["requests"]) + "\n")
        path = write_replay(prop, "oracle", body)
        lines.append(f"VIOLATION property={prop} replay={path}")
        violations = len(unknown); rc = 1
    elif not proof_ok or not tie_ok:
        what = []
        if not proof_ok:
            what.append("proof obligations that no longer check: " + " | ".join(pr["problems"])[:2000])
        body = "# kind: model-vs-implementation / proof break, no failing input found\n"
        hist = []
        if lan.get("n_disagree", 0):
            d = lan["disagreements"][0]
            what.append(f"channel L/G: {lan['n_disagree']} histories disagree; first at `{d['request']}`")
            la, lb = d["impl"].split("\t"), d["model"].split("\t")
            k = next((i for i in range(min(len(la), len(lb))) if la[i] != lb[i]), min(len(la), len(lb)))
            what.append(f"IR line {k}: impl `{(la[k] if k < len(la) else '<end>')[:200]}` model `{(lb[k] if k < len(lb) else '<end>')[:200]}`")
            hist = d["requests"]
        if disagree:
            d = disagree[0]
            what.append(f"compile probes: the static model says {d['model']} but the module {d['impl']} ({d['desc']}); {len(disagree)} probes disagree")
            hist = hist or d["requests"]
        if pinfo["errors"] or linfo["errors"]:
            what.append(f"errors: {(pinfo['errors'] + linfo['errors'])[:2]}")
        body += "# " + "\n# ".join(what) + "\n" + "\n".join(hist) + "\n"
        path = write_replay(prop, "tie", body)
        lines.append(f"VIOLATION property={prop} replay={path} no-failing-input-found")
        violations = 1; rc = 1
    mine = [pb for pb in probes if (pb["kind"].startswith("auto")) == (prop == "C14")]
    cov = {
        "obligations": pr["obligations"], "discharged": pr["discharged"],
        "checker_cmd": f"cd lean/TrucModel && lake build TrucModel.Props.{prop} && lake env lean <#print axioms of each theorem>",
        "trusted_base": TRUSTED + ["rustc (const-assertion evaluation, Copy obligations, auto-trait derivation are modelled; validated by the compile probes)"],
        "theorems": pr["theorems"], "axioms": pr["axioms"], "proof_problems": pr["problems"],
        "evaluations": len(mine) + lan["histories"], "distinct_nontrivial": len({pb["desc"] for pb in mine if pb["kind"] != "ok"}),
        "rule": "compile probes = one generated module per (lab type x first/later variant x perturbation of size/alignment/uninit flag, or non-Send/non-Sync field), compiled with rustc against truc_runtime; only compiles/rejected is observed and compared with the static model; non-trivial = perturbed probes; plus the generator correspondence of channel L (IR of generate() vs Lean Gen)",
        "samples": [{"probe": pb["desc"], "compiles": pb["compiles"], "model": pb["model"]} for pb in mine[:4]],
        "probes": len(mine), "probe_outcomes": {k: sum(1 for pb in mine if pb["kind"] == k and pb["compiles"]) for k in sorted({pb["kind"] for pb in mine})},
        "generator_histories": lan["histories"], "disagreements": lan.get("n_disagree", 0) + len(disagree), "oracle_hits": len(oracle),
        "known_findings_reported": sorted(seen_known), "exhaustive": False,
    }
    write_evidence(prop, tier, seed, cov, ["rustc's checking of the modelled rules"], time.time() - t0, violations)
    for l in lines:
        print(l)
    if rc == 0:
        print(f"OK property={prop} theorems={pr['discharged']}/{pr['obligations']} probes={len(mine)}")
    return rc


X_PROPS = {"C04", "C05", "C06", "C07", "C15", "C16"}


def run_translators():
    rc, out, err = sh(["python3", os.path.join(VERIF, "translators", "translate.py")])
    return rc == 0, out + err


def read_prims():
    """what the translated primitives say (used by the access-rule oracle)"""
    try:
        txt = open(os.path.join(LEAN, "TrucModel", "Generated", "Primitives.lean")).read()
        m = re.search(r"def primWrite : Prim := ⟨(\w+), \.(\w+), \.(\w+), (\w+)⟩", txt)
        return {"write_aligned_only": (m.group(3) == "ptrWrite") if m else True, "write": m.groups() if m else None}
    except OSError:
        return {"write_aligned_only": True}


def decide_X(prop, tier, seed, t0, replay):
    run_translators()
    pr = proof_side(prop, tier)
    ok, out = chan_x.build_gen()
    if not ok:
        path = write_replay(prop, "build", "harness does not build against /repo:\n" + out[-3000:])
        print(f"VIOLATION property={prop} replay={path} no-failing-input-found")
        return 1
    # the Lean driver must exist even when the property module itself no longer builds
    lake_build(["trucdrv"])
    prims = read_prims()
    info = chan_x.run(seed, tier, prims)
    an, req = chan_x.analyse(info, prims)
    oracle = [o for o in an["oracle"] if o["property"] == prop]
    miri = None
    if prop == "C07" and not replay:
        miri = chan_x.miri_pass(seed, tier)
        for u in miri.get("ub", []):
            oracle.append({"property": "C07", "message": "Miri: undefined behaviour in compiled generated code (values may still be right on this machine): " + u["message"],
                           "line": -1, "build": "miri", "requests": u.get("requests", [])})
    # the generator model whose programs the machine runs is tied by the IR correspondence (G part of channel L)
    cargo_build(["chan_l"])
    linfo = chan_l.run(seed, tier)
    lan = chan_l.analyse(linfo["dirs"], prop)
    proof_ok = not pr["problems"]
    tie_ok = an["n_disagree"] == 0 and not info["errors"] and lan.get("n_disagree", 0) == 0 and not linfo["errors"]
    rc = 0; violations = 0; lines = []

    def history(line):
        return "\n".join(chan_x.module_of(req, line)) if req else ""
    if oracle:
        o = oracle[0]
        body = (f"# kind: implementation-vs-oracle (the compiled generated code breaks {prop}; build {o['build']}; VERIF_SEED={seed} tier={tier})\n# {o['message']}\n"
                f"# {len(oracle)} oracle hits in this run; the requests below build the definition and run the operations up to the failing one\n" + ("\n".join(o["requests"]) if o.get("requests") else history(o["line"])) + "\n")
        path = write_replay(prop, "oracle", body)
        lines.append(f"VIOLATION property={prop} replay={path}")
        violations = len(oracle); rc = 1
    elif not proof_ok or not tie_ok:
        what = []
        if not proof_ok:
            what.append("proof obligations that no longer check: " + " | ".join(pr["problems"])[:2500])
        body = f"# kind: model-vs-implementation / proof break, no failing input found (VERIF_SEED={seed} tier={tier})\n"
        if lan.get("n_disagree", 0):
            dl = lan["disagreements"][0]
            la, lb = dl["impl"].split("\t"), dl["model"].split("\t")
            k = next((i for i in range(min(len(la), len(lb))) if la[i] != lb[i]), min(len(la), len(lb)))
            what.append(f"channel L/G (generator / layout model): {lan['n_disagree']} histories disagree; first at `{dl['request']}`, line {k}: impl `{(la[k] if k < len(la) else '<end>')[:200]}` model `{(lb[k] if k < len(lb) else '<end>')[:200]}`")
            if not an["disagreements"]:
                body += "# " + "\n# ".join(what) + "\n" + "\n".join(dl["requests"]) + "\n"
                what = []
        if not tie_ok:
            d = an["disagreements"][0] if an["disagreements"] else None
            what.append(f"correspondence channel X: {an['n_disagree']} operations disagree; errors: {[e[:300] for e in info['errors'][:2]]}")
            if d:
                what.append(f"build {d['build']} request `{d['request']}`\n#   lab  : {d['lab']}\n#   model: {d['model']}")
        body += "# " + "\n# ".join(what) + "\n"
        if not tie_ok and an["disagreements"]:
            body += history(an["disagreements"][0]["line"]) + "\n"
        path = write_replay(prop, "tie", body)
        lines.append(f"VIOLATION property={prop} replay={path} no-failing-input-found")
        violations = 1; rc = 1
    cov = {
        "obligations": pr["obligations"], "discharged": pr["discharged"],
        "checker_cmd": f"python3 translators/translate.py && cd lean/TrucModel && lake build TrucModel.Props.{prop} && lake env lean <#print axioms of each theorem>",
        "trusted_base": TRUSTED + ["translators/translate.py (regenerates Generated/Primitives.lean and AlignBytes.lean from the source on every run)",
                                   "the abstract machine's reading of ptr::read/write, moves, scope-end drops, ManuallyDrop, mem::forget (modelled, validated by channel X)",
                                   "rustc/LLVM; Rust's aliasing model beyond the write-permission rule"],
        "theorems": pr["theorems"], "axioms": pr["axioms"], "proof_problems": pr["problems"],
        "evaluations": an["ops"], "distinct_nontrivial": an["nontrivial"],
        "rule": "operations = API-level calls (new/new_uninit/get/set/unpack/drop/4 conversion forms/clone/clone_from/serde round trips/placements) on generated modules compiled in 3 builds (debug+hook, release+hook, release without hook), each compared with the Lean machine's prediction (values, drop multiset, primitive-access multiset); distinct by request text; non-trivial = everything but plain constructors and reads",
        "samples": an["samples"][:3], "traces_validated_against_impl": an["ops"], "modules": an["modules"], "ops_by_kind": an["by_op"],
        "modules_meeting_theorem_hypotheses (ModuleWF evaluated by the driver)": an.get("modules_meeting_theorem_hypotheses"),
        "modules_passing_the_modelled_move_and_mut_rules (GenCheck evaluated by the driver)": an.get("modules_passing_body_rules"),
        "miri_pass": ({k: v for k, v in miri.items() if k != "ub"} if miri is not None else None),
        "primitive_accesses_checked": an["accesses"], "variant_layouts_checked_for_overlap": an.get("layouts_checked"), "definitions_the_builder_panicked_on": len(an.get("builder_panics", [])), "disagreements": an["n_disagree"] + lan.get("n_disagree", 0), "oracle_hits": len(oracle),
        "generator_histories_compared": lan["histories"],
        "builds": {k: {kk: vv for kk, vv in v.items() if kk != "dir"} for k, v in info["builds"].items()},
        "translated_primitives": prims, "channel_cached": info.get("cached", False), "exhaustive": False,
    }
    write_evidence(prop, tier, seed, cov, ["field types' own Clone/serde impls are parameters", "drop order inside one call is not compared"], time.time() - t0, violations)
    for l in lines:
        print(l)
    if rc == 0:
        print(f"OK property={prop} theorems={pr['discharged']}/{pr['obligations']} ops={an['ops']} disagreements=0")
    return rc


V_PROPS = {"C08", "C09", "C10"}


def decide_V(prop, tier, seed, t0, replay):
    pr = proof_side(prop, tier)
    ok, out = chan_v.build()
    if not ok:
        path = write_replay(prop, "build", "harness does not build against /repo:\n" + out[-3000:])
        print(f"VIOLATION property={prop} replay={path} no-failing-input-found")
        return 1
    if replay:
        lines = [l for l in open(replay).read().splitlines() if l.startswith("vec ") or l.startswith("zst ")]
        d = os.path.join(WORK, "replayV")
        dirs = []; rerrs = []
        for prof, b in chan_v.bins().items():
            dd = os.path.join(d, prof + "-replay"); os.makedirs(dd, exist_ok=True)
            open(os.path.join(dd, "script.txt"), "w").write("\n".join(lines) + "\n")
            r = chan_v._run((prof, b, "file:" + os.path.join(dd, "script.txt"), 0, 0, dd))
            if "error" not in r:
                dirs.append(dd)
            else:
                rerrs.append(r)
        info = {"dirs": dirs, "errors": rerrs, "cached": False}
    else:
        info = chan_v.run(seed, tier)
    an = chan_v.analyse(info["dirs"])
    oracle = [o for o in an["oracle"] if o["property"] == prop]
    # the harness process died while the real conversion ran a script: memory corruption on a valid input
    for e in info["errors"]:
        if e.get("crash"):
            t = e["crash"].split(" ")
            nn = int(t[5]); sc = t[6:6 + nn]
            which = "C10" if (t[1], t[2]) != (t[3], t[4]) else ("C09" if any(c in chan_v.FAIL for c in sc) else "C08")
            if which == prop:
                oracle.append({"property": prop, "message": "the process running the real conversion died on this script (abort / memory corruption): " + e["error"][-200:].replace("\n", " "), "request": e["crash"], "impl": "<process died>", "profile": e.get("profile", "?")})
    # side scripts (zero-size elements, plain-data inputs with owning outputs, refusal of zero-size pairs): the expected outcome is
    # computed straight from the script; attributed by what was expected: success -> C08, refusal -> C10, failure cleanup -> C09
    for z in an["zst_bad"]:
        which = "C08" if z["expected"].startswith("done") else "C10" if z["expected"].startswith("refused") else "C09"
        if which == prop:
            oracle.append({"property": prop, "message": f"element types without identity (zero-size / no drop glue on the input side): {z['impl']} expected {z['expected']}", "request": "zst " + z["script"], "impl": z["impl"], "profile": z["profile"]})
    proof_ok = not pr["problems"]
    tie_ok = an.get("n_disagree", 0) == 0 and not info["errors"]
    rc = 0; violations = 0; lines = []
    if oracle:
        o = oracle[0]
        body = (f"# kind: implementation-vs-oracle (the real code breaks {prop} on this input; profile {o['profile']})\n# {o['message']}\n"
                f"# implementation answered: {o['impl']}\n# {len(oracle)} failing scripts in this run\n{o['request']}\n")
        path = write_replay(prop, "oracle", body)
        lines.append(f"VIOLATION property={prop} replay={path}")
        violations = len(oracle); rc = 1
    elif not proof_ok or not tie_ok:
        what = []
        if not proof_ok:
            what.append("proof obligations that no longer check: " + " | ".join(pr["problems"])[:2000])
        body = "# kind: model-vs-implementation / proof break, no failing input found\n"
        if not tie_ok:
            d = an["disagreements"][0] if an["disagreements"] else None
            what.append(f"correspondence channel V: {an.get('n_disagree', 0)} scripts disagree; errors {info['errors'][:2]}")
            if d:
                what.append(f"profile {d['profile']}\n#   impl : {d['impl']}\n#   model: {d['model']}")
        body += "# " + "\n# ".join(what) + "\n"
        if not tie_ok and an["disagreements"]:
            body += an["disagreements"][0]["request"] + "\n"
        path = write_replay(prop, "tie", body)
        lines.append(f"VIOLATION property={prop} replay={path} no-failing-input-found")
        violations = 1; rc = 1
    cov = {
        "obligations": pr["obligations"], "discharged": pr["discharged"],
        "checker_cmd": f"cd lean/TrucModel && lake build TrucModel.Props.{prop} && lake env lean <#print axioms of each theorem>",
        "trusted_base": TRUSTED + ["ConverterContract: the converter owns its input (hypothesis of the model; the scripted converters satisfy it and the ledger confirms it)",
                                   "Vec::set_len / transmute of the Vec modelled as 'same allocation, length first_moved'"],
        "theorems": pr["theorems"], "axioms": pr["axioms"], "proof_problems": pr["problems"],
        "evaluations": an["scripts"], "distinct_nontrivial": an["nontrivial"],
        "rule": f"scripts = (element type pair, length, outcome per call) run through the real try_convert_vec_in_place in a debug and an optimised build and through the Lean slot machine; exhaustive for lengths <= {info.get('maxlen')} over 8 outcomes (exhaustive: true refers to that sub-space) plus random long scripts; distinct by request text; non-trivial = length >= 2 with >= 2 different outcomes",
        "samples": an["samples"][:3], "traces_validated_against_impl": an["scripts"], "disagreements": an.get("n_disagree", 0),
        "oracle_hits": len(oracle), "outcome_kinds": an["by_kind"], "scripts_by_length": an["by_len"], "zero_size_scripts": an["zst"],
        "channel_cached": info.get("cached", False), "exhaustive": True,
    }
    write_evidence(prop, tier, seed, cov, ["converter contract", "drop order inside one phase is not compared (multisets per phase)"], time.time() - t0, violations)
    for l in lines:
        print(l)
    if rc == 0:
        print(f"OK property={prop} theorems={pr['discharged']}/{pr['obligations']} scripts={an['scripts']} disagreements=0")
    return rc


def shrink_L(prop, requests, budget_s=45, max_tries=150):
    """delta-debugging of a failing builder history: drop requests while the property's oracle still fires
    (or, for want of an oracle hit, while implementation and model still disagree). Returns (requests, tries)."""
    import tempfile, shutil
    reqs = [r for r in requests if r and not r.startswith("#")]
    if not reqs or not reqs[0].startswith("reset"):
        return requests, 0
    head, body = reqs[0], reqs[1:]
    t0 = time.time()
    tries = 0
    tmp = tempfile.mkdtemp(prefix="shrinkL", dir=WORK)

    def fails(cand):
        nonlocal tries
        tries += 1
        f = os.path.join(tmp, "h.txt")
        open(f, "w").write("\n".join([head] + cand) + "\n")
        d = os.path.join(tmp, "out")
        r = chan_l._run_shard((f"file:{f}", 0, 0, d))
        if "error" in r:
            return False
        dirs = [d]
        opt_bin = os.path.join(TARGET, "opt", "chan_l")
        if os.path.exists(opt_bin):
            d2 = os.path.join(tmp, "out-opt")
            if "error" not in chan_l._run_shard((f"file:{f}", 0, 0, d2, opt_bin)):
                dirs.append(d2)
        a = chan_l.analyse(dirs, prop)
        return any(o["property"] == prop for o in a["oracle"])

    try:
        if not fails(body):
            return requests, tries
        chunk = max(1, len(body) // 2)
        while chunk >= 1 and time.time() - t0 < budget_s and tries < max_tries:
            i = 0
            progressed = False
            while i < len(body) and time.time() - t0 < budget_s and tries < max_tries:
                cand = body[:i] + body[i + chunk:]
                if cand != body and fails(cand):
                    body = cand
                    progressed = True
                else:
                    i += chunk
            if chunk == 1 and not progressed:
                break
            chunk = chunk // 2 if chunk > 1 else (1 if progressed else 0)
        return [head] + body, tries
    finally:
        shutil.rmtree(tmp, ignore_errors=True)


def fmt_history(h):
    return "\n".join(h["requests"])


def decide_L(prop, tier, seed, t0, replay):
    pr = proof_side(prop, tier)
    ok, out = cargo_build(["chan_l"])
    if not ok:
        path = write_replay(prop, "build", "harness does not build against /repo:\n" + out[-3000:])
        print(f"VIOLATION property={prop} replay={path} no-failing-input-found")
        return 1
    if replay:
        info = {"dirs": [], "errors": [], "cached": False}
        d = os.path.join(WORK, "replay")
        r = chan_l._run_shard((f"file:{replay}", 0, 0, d))
        info["dirs"] = [d] if "error" not in r else []
        info["errors"] = [r] if "error" in r else []
        # also with the library built without debug assertions / overflow checks (a failing input may need that build)
        sh(["cargo", "build", "--offline", "--profile", "opt", "--bin", "chan_l"], cwd=HARNESS, timeout=3600)
        opt_bin = os.path.join(TARGET, "opt", "chan_l")
        if os.path.exists(opt_bin):
            d2 = os.path.join(WORK, "replay-opt")
            r2 = chan_l._run_shard((f"file:{replay}", 0, 0, d2, opt_bin))
            if "error" not in r2:
                info["dirs"].append(d2)
            else:
                info["errors"].append(r2)
    else:
        info = chan_l.run(seed, tier)
    an = chan_l.analyse(info["dirs"], prop)
    oracle = [o for o in an["oracle"] if o["property"] == prop]
    for e in info["errors"]:
        # a request the real builder never answers: a failing input for "every strategy produces a layout" (C01) and
        # "nothing panics / the definition can be generated" (C13); for the other properties it is a broken tie with the history shown
        if e.get("hang") and prop in ("C01", "C13"):
            oracle.append({"property": prop, "message": "the real builder does not terminate on the last request of this history (no answer within the watchdog limit)", "requests": e["hang"], "nonterminating": True})
    if prop in ("C02", "C03") and not replay:
        # the compiled record types: size_of / align_of of every generated record type (channel X `sizes`), record alignment vs fields
        run_translators()
        chan_x.build_gen()
        lake_build(["trucdrv"])
        xinfo = chan_x.run(seed, tier, read_prims())
        xan, xreq = chan_x.analyse(xinfo, read_prims())
        for o in xan["oracle"]:
            if o["property"] == prop:
                oracle.append({"property": prop, "message": o["message"] + f" (build {o['build']})", "requests": (o.get("requests") or (chan_x.module_of(xreq, o["line"]) if xreq else []))})
        sizes_bad = [d for d in xan["disagreements"] if d and d["request"].startswith("x sizes")]
        if sizes_bad:
            an["n_disagree"] = an.get("n_disagree", 0) + len(sizes_bad)
            an["disagreements"].append({"dir": "", "history": 0, "line": 0, "request": "x sizes", "impl": sizes_bad[0]["lab"], "model": sizes_bad[0]["model"], "requests": chan_x.module_of(xreq, sizes_bad[0]["line"])})
        an["record_types_measured"] = xan["by_op"].get("sizes", 0) * 3
    if prop == "C13" and not replay:
        # second sentence of C13: the generated modules compile (all four fragment selections, 3 builds of the lab)
        run_translators()
        ok_x, _ = chan_x.build_gen()
        lake_build(["trucdrv"])
        xinfo = chan_x.run(seed, tier, read_prims())
        xan, xreq = chan_x.analyse(xinfo, read_prims())
        for o in xan["oracle"]:
            if o["property"] == "C13":
                oracle.append({"property": "C13", "message": o["message"], "requests": (o.get("requests") or (chan_x.module_of(xreq, o["line"]) if xreq else []))})
        not_compiled = [k for k, b in xinfo.get("builds", {}).items() if not b.get("compiled")]
        if (not_compiled or xinfo["errors"]) and not any(o["property"] == "C13" for o in xan["oracle"]):
            an["n_disagree"] = an.get("n_disagree", 0) + 1
            an["disagreements"].append({"dir": "", "history": 0, "line": 0, "request": "lab build", "impl": "lab does not compile: " + str(xinfo["errors"][:1])[:600], "model": "compiles", "requests": []})
        an["modules_compiled"] = {"modules": xan["modules"], "builds": {k: b.get("compiled") for k, b in xinfo.get("builds", {}).items()}}
    if prop == "C13" and not replay:
        t_or, _, _, _ = t_side("C13", seed, tier)
        for o in t_or:
            oracle.append({"property": "C13", "message": o["message"], "requests": ["# channel T (rustc probe of the recorded type names)"]})
    if prop == "C18" and not replay:
        t_or, t_dis, t_info, t_an = t_side("C18", seed, tier)
        for o in t_or:
            oracle.append({"property": "C18", "message": o["message"], "requests": ["# channel T (type tables)"]})
        if t_an["n_disagree"] or t_info["errors"]:
            an["n_disagree"] = an.get("n_disagree", 0) + max(1, t_an["n_disagree"])
            an["disagreements"].append({"dir": "", "history": 0, "line": 0, "request": (t_dis[0]["request"] if t_dis else "channel T"), "impl": (t_dis[0]["impl"] if t_dis else str(t_info["errors"])), "model": (t_dis[0]["model"] if t_dis else ""), "requests": []})
    det = None
    if prop == "C19" and not replay:
        det = determinism_L(seed)
        if det["differs"]:
            oracle.append({"property": "C19", "message": "two separately started processes produced different answers for the same history: " + det["detail"], "requests": det["requests"]})
    proof_ok = not pr["problems"]
    tie_ok = an.get("n_disagree", 0) == 0 and not info["errors"]
    violations = 0
    rc = 0
    lines = []
    if oracle:
        o = min(oracle, key=lambda x: len(x.get("requests", [])) or 10 ** 9)
        shrunk, tries = (o["requests"], 0)
        if not replay and o.get("requests") and o["requests"][0].startswith("reset") and not o.get("nonterminating"):
            try:
                shrunk, tries = shrink_L(prop, o["requests"])
            except Exception as e:  # the shrinker is a convenience; the unshrunk history is still a valid replay
                shrunk, tries = (o["requests"], -1)
        body = (f"# kind: implementation-vs-oracle (the real code breaks {prop} on this input)\n# {o['message']}\n"
                f"# {len(oracle)} failing histories in this run; this one shrunk from {len(o.get('requests', []))} to {len(shrunk)} requests in {tries} tries; "
                f"replay: ./check {prop} --replay <this file>\n" + "\n".join(shrunk) + "\n")
        k = known_match(prop, o["message"])
        if k and all(known_match(prop, x["message"]) for x in oracle):
            lines.append(f"KNOWN-FINDING: property={prop} {k['what']}")
        else:
            path = write_replay(prop, "oracle", body)
            lines.append(f"VIOLATION property={prop} replay={path}")
            violations += len(oracle); rc = 1
    if rc == 0 and (not proof_ok or not tie_ok):
        # search: the oracles already ran on every implementation output of this run; extend generation
        found = None
        if not replay:
            info2 = chan_l.run(seed, tier, extra_seeds=1)
            an2 = chan_l.analyse(info2["dirs"], prop)
            o2 = [o for o in an2["oracle"] if o["property"] == prop]
            if o2:
                found = o2[0]
        what = []
        if not proof_ok:
            what.append("proof obligations that no longer check: " + " | ".join(pr["problems"])[:2000])
        if not tie_ok:
            d = an["disagreements"][0] if an["disagreements"] else None
            what.append(f"correspondence channel L: {an.get('n_disagree', 0)} histories disagree; harness errors: {[{k: v for k, v in e.items() if k != 'hang'} for e in info['errors'][:2]]}")
            for e in info["errors"]:
                if e.get("hang"):
                    what.append("the real builder does not answer the last request of this history:\n#   " + "\n#   ".join(e["hang"][-40:]))
                    break
            if d:
                what.append(f"first disagreement at request #{d['line']} `{d['request']}`\n#   impl : {d['impl']}\n#   model: {d['model']}")
        if found:
            body = (f"# kind: implementation-vs-oracle, found by the extended search after a break\n# {found['message']}\n# " + "\n# ".join(what) + "\n" + fmt_history(found) + "\n")
            path = write_replay(prop, "oracle", body)
            lines.append(f"VIOLATION property={prop} replay={path}")
        else:
            body = "# kind: model-vs-implementation / proof break, no failing input found\n# " + "\n# ".join(what) + "\n"
            if not tie_ok and an["disagreements"]:
                body += fmt_history(an["disagreements"][0]) + "\n"
            path = write_replay(prop, "tie", body)
            lines.append(f"VIOLATION property={prop} replay={path} no-failing-input-found")
        violations += 1; rc = 1
    cov = {
        "obligations": pr["obligations"], "discharged": pr["discharged"],
        "checker_cmd": f"cd lean/TrucModel && lake build TrucModel.Props.{prop} && lake env lean <#print axioms of each theorem>" + (" && lake env leanchecker TrucModel.Props." + prop if tier == "thorough" else ""),
        "trusted_base": TRUSTED,
        "theorems": pr["theorems"], "axioms": pr["axioms"], "proof_problems": pr["problems"],
        "evaluations": an["histories"], "distinct_nontrivial": an["nontrivial"],
        "rule": "histories = builder request sequences driven through the real code and the Lean model (corpus, 16 random shards, exhaustive small scope); distinct by md5 of the request text; non-trivial = at least two variants closed and at least one accepted removal",
        "samples": an["samples"][:2],
        "traces_validated_against_impl": an["histories"], "lines_compared": an["lines"],
        "disagreements": an.get("n_disagree", 0), "oracle_hits": len(oracle),
        "generated_modules_equal_only_up_to_renaming_of_local_bindings": an.get("alpha_equal", 0),
        "input_distribution": an["stats"], "channel_cached": info.get("cached", False), "channel_computed_at": info.get("computed_at"),
        "exhaustive": False, "exhaustive_subspace": info.get("exhaustive_mode"),
    }
    if det is not None:
        cov["two_process_lines_compared"] = det["lines"]
        cov["same_history_twice_in_one_process_pairs"] = det.get("in_process_pairs")
        cov["histories_compared_after_reordering"] = det.get("reordered_histories_compared")
    if "record_types_measured" in an:
        cov["compiled_modules_with_size_align_measured"] = an["record_types_measured"]
    if "modules_compiled" in an:
        cov["generated_modules_compiled"] = an["modules_compiled"]
    write_evidence(prop, tier, seed, cov, ["layouts end below 2^63 (usize overflow not modelled beyond the usize::MAX sentinel)",
                                           "alignments are positive"], time.time() - t0, violations)
    for l in lines:
        print(l)
    if rc == 0:
        print(f"OK property={prop} theorems={pr['discharged']}/{pr['obligations']} histories={an['histories']} disagreements=0")
    return rc
