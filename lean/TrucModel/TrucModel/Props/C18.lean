import TrucModel.Proofs.BuilderProps
import TrucModel.Props.Examples
/-
  C18 — Layout depends only on the resolver's answers; type tables are faithful.
  The model has no access to the host's sizes: every entry point records exactly the numbers it is
  given (`C18_records_answer`), and all layout decisions read only those recorded numbers.
  Channel L drives the real entry points under *synthetic* resolvers whose answers differ from the
  host's; an implementation consulting `size_of` would diverge from the model.
-/
namespace Truc

/-- an accepted addition records the supplied description verbatim (with the unset offset) -/
theorem C18_records_answer (s : BState) (i : Info) (id : Nat) (h : (s.addDatum i).2 = .ok id) :
    info (s.addDatum i).1.defs id = i := by
  unfold BState.addDatum at h ⊢
  by_cases hc : (s.currentByName i.name).isSome = true
  · simp [hc] at h
  · simp [hc] at h ⊢
    subst h
    exact info_append_self _ _

/-- nothing recorded for a datum other than its offset is ever changed by a close -/
theorem C18_shape_preserved (reqs : List Req) (hv : ∀ r ∈ reqs, r.valid) (st : Strategy) (hn : st.isNative = true) :
    ∀ s' vid, (run reqs).close st = some (s', vid) → ∀ id, sameShape (info s'.defs id) (info (run reqs).defs id) := by
  intro s' vid hc id
  by_cases hp : (run reqs).hasPendingChanges = true
  · obtain ⟨defs', l', hc', hok⟩ := (reachable_BInv reqs hv).close_spec hn hp
    rw [hc'] at hc
    simp only [Option.some.injEq, Prod.mk.injEq] at hc
    obtain ⟨rfl, _⟩ := hc
    exact hok.shape id
  · unfold BState.close at hc
    simp only [hp, Bool.not_false, if_true, Option.some.injEq, Prod.mk.injEq] at hc
    obtain ⟨rfl, _⟩ := hc
    exact sameShape_refl _

example : ((BState.init.addDatum (Ex.I "a" 12 4)).1.defs.map (fun i => (i.size, i.align))) = [(12, 4)] := by
  decide +kernel

end Truc
