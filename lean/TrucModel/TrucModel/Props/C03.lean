import TrucModel.Proofs.Corollaries
import TrucModel.Props.Examples
import TrucModel.Proofs.GenProps
import TrucModel.Props.C02
/-
  C03 — A datum never moves; all variants of a record have one size and alignment.
  First half (builder): once a variant is closed, the whole description (offset, size, alignment,
  name, type) of each of its data is the same in every later state, whatever is requested later.
  Second half (generated record types) is in the generator section below.
-/
namespace Truc

theorem C03_offset_stable (pre suf : List Req) (hv : ∀ r ∈ pre ++ suf, r.valid) :
    ∀ v ∈ (run pre).variants, v ∈ (run (pre ++ suf)).variants ∧
      ∀ d ∈ v, info (run (pre ++ suf)).defs d = info (run pre).defs d := by
  have hpre : ∀ r ∈ pre, r.valid := fun r hr => hv r (List.mem_append_left _ hr)
  have hsuf : ∀ r ∈ suf, r.valid := fun r hr => hv r (List.mem_append_right _ hr)
  have hst := foldl_step_stable suf (run pre) (reachable_BInv pre hpre) hsuf
  have hrun : run (pre ++ suf) = suf.foldl step (run pre) := by simp [run, List.foldl_append]
  rw [hrun]
  intro v hvm
  exact ⟨hst.1 v hvm, hst.2 v hvm⟩

/-- second half: all record types generated for one definition have the same size and alignment, for
    `CAP = MAX_SIZE` and any larger `CAP`: every variant's record struct is `#[repr(align(A))]` with the
    *same* `A` (`C02_published`) around the same single field of `CAP` bytes, hence the same layout
    `(roundUp CAP A, A)` — rustc's `repr(align)` rule is the modelled part (validated by channel X `sizes`). -/
theorem C03_same_layout (d : Definition) (cap : Nat) (s₁ s₂ : Gen.Spec) (h₁ : s₁ ∈ Gen.specs d) (h₂ : s₂ ∈ Gen.specs d) :
    Gen.recLayout cap s₁.align = Gen.recLayout cap s₂.align ∧ Gen.fragRecord s₁ = Gen.fragRecord { s₂ with vid := s₁.vid } := by
  have a₁ := Gen.specs_align d s₁ h₁
  have a₂ := Gen.specs_align d s₂ h₂
  refine ⟨by rw [a₁, a₂], ?_⟩
  simp [Gen.fragRecord, a₁, a₂]

/-- the modelled record layout `(roundUp CAP A, A)` has room for `CAP` bytes, wastes less than `A`
    bytes and its size is a multiple of its alignment -/
theorem C03_layout_holds_capacity (cap A : Nat) (hA : 0 < A) :
    cap ≤ (Gen.recLayout cap A).1 ∧ (Gen.recLayout cap A).1 < cap + A ∧ A ∣ (Gen.recLayout cap A).1 := by
  unfold Gen.recLayout
  refine ⟨?_, ?_, Nat.dvd_mul_left _ _⟩
  · have := Nat.div_add_mod (cap + A - 1) A
    have := Nat.mod_lt (cap + A - 1) hA
    rw [Nat.mul_comm]; simp only; omega
  · have := Nat.div_add_mod (cap + A - 1) A
    rw [Nat.mul_comm]; simp only; omega

/-- "vectors of them can be converted in place", at the level of addresses: in a vector of records of
    *any* variant `s` of a definition built from a valid history, whose buffer starts at a record-aligned
    address `base`, element `i` starts at `base + i * size` with the same `size` for every variant, and
    inside that element every datum of every variant sits at an address that is a multiple of its own
    alignment and ends inside the element -/
theorem C03_vec_element_addresses (reqs : List Req) (hv : ∀ r ∈ reqs, r.valid) (def_ : Definition)
    (hb : (run reqs).build = some def_) (hp : ∀ i ∈ def_.defs, IsPow2 i.align)
    (m : Nat) (hm : def_.maxSize = some m) (cap : Nat) (hcap : m ≤ cap) (hA : 0 < def_.maxTypeAlign)
    (base : Nat) (hbase : def_.maxTypeAlign ∣ base) (i : Nat)
    (s : Gen.Spec) (hs : s ∈ Gen.specs def_) :
    (Gen.recLayout cap s.align).1 = (Gen.recLayout cap def_.maxTypeAlign).1 ∧
    ∀ v ∈ def_.variants, ∀ d ∈ v,
      al def_.defs d ∣ base + i * (Gen.recLayout cap s.align).1 + off def_.defs d ∧
      base + i * (Gen.recLayout cap s.align).1 + off def_.defs d + sz def_.defs d
        ≤ base + (i + 1) * (Gen.recLayout cap s.align).1 := by
  have ha := Gen.specs_align def_ s hs
  rw [ha]
  refine ⟨rfl, ?_⟩
  intro v hvm d hd
  obtain ⟨hge, _, hdvd⟩ := C03_layout_holds_capacity cap def_.maxTypeAlign hA
  have hbase' : def_.maxTypeAlign ∣ base + i * (Gen.recLayout cap def_.maxTypeAlign).1 :=
    Nat.dvd_add hbase (Nat.dvd_trans hdvd (Nat.dvd_mul_left _ _))
  obtain ⟨h1, h2⟩ := C02_address_aligned_contained reqs hv def_ hb hp m hm _ hbase' v hvm d hd
  refine ⟨h1, ?_⟩
  rw [Nat.add_mul, Nat.one_mul]
  omega

/-- and the elements of such a vector do not run into each other, whichever variants they hold
    (during an in-place conversion the front elements are already of the new variant, the back ones
    still of the old): every datum of element `i` ends at or before the start of element `j > i`,
    hence before every datum of element `j` -/
theorem C03_vec_elements_disjoint (reqs : List Req) (def_ : Definition)
    (hb : (run reqs).build = some def_) (m : Nat) (hm : def_.maxSize = some m) (cap : Nat) (hcap : m ≤ cap)
    (hA : 0 < def_.maxTypeAlign) (base i j : Nat) (hij : i < j) :
    ∀ v ∈ def_.variants, ∀ d ∈ v, ∀ d' : Nat,
      base + i * (Gen.recLayout cap def_.maxTypeAlign).1 + off def_.defs d + sz def_.defs d
        ≤ base + j * (Gen.recLayout cap def_.maxTypeAlign).1 + off def_.defs d' := by
  intro v hvm d hd d'
  obtain ⟨hge, _, _⟩ := C03_layout_holds_capacity cap def_.maxTypeAlign hA
  have h3 := C02_contained reqs def_ hb m hm v hvm d hd
  have h4 : (i + 1) * (Gen.recLayout cap def_.maxTypeAlign).1 ≤ j * (Gen.recLayout cap def_.maxTypeAlign).1 :=
    Nat.mul_le_mul_right _ hij
  rw [Nat.add_mul, Nat.one_mul] at h4
  omega

/-- non-vacuity of `C03_vec_element_addresses`: the example definition has capacity 24 under alignment 4
    (validity of the history and powers of two: see the examples of C01 and C02) -/
example : ((run Ex.h1).build.map (·.maxTypeAlign)) = some 4 ∧ ((run Ex.h1).build.bind (·.maxSize)) = some 24 ∧
    Gen.recLayout 24 4 = (24, 4) ∧ Gen.recLayout 30 4 = (32, 4) ∧
    ((run Ex.h1).build.map (fun d => (Gen.specs d).length)) = some 3 := by
  decide +kernel

/-- non-vacuity: the first variant of the example history survives two more closes unchanged -/
example : (run (Ex.h1.take 4)).variants = [[0, 2, 1]] ∧ [0, 2, 1] ∈ (run Ex.h1).variants := by
  decide +kernel

end Truc
