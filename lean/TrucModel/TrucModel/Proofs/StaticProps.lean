import TrucModel.Model.Static
/-
  Generator lemmas for the static layer: which assertions and `Copy` instantiations are emitted.
-/
namespace Truc.Gen

theorem mem_insertSorted {x y : Nat} {l : List Nat} : y ∈ insertSorted x l ↔ y = x ∨ y ∈ l := by
  induction l with
  | nil => simp [insertSorted]
  | cons z zs ih =>
    unfold insertSorted
    split
    · simp
    · simp [ih]; constructor
      · rintro (h | h | h)
        · right; left; exact h
        · left; exact h
        · right; right; exact h
      · rintro (h | h | h)
        · right; left; exact h
        · left; exact h
        · right; right; exact h

theorem mem_sortIds {y : Nat} {l : List Nat} : y ∈ sortIds l ↔ y ∈ l := by
  unfold sortIds
  induction l with
  | nil => simp
  | cons x xs ih => simp [List.foldr_cons, mem_insertSorted, ih]

theorem mem_insertAssert {x y : String × Nat} {l : List (String × Nat)} : y ∈ insertAssert x l ↔ y = x ∨ y ∈ l := by
  induction l with
  | nil => simp [insertAssert]
  | cons z zs ih =>
    unfold insertAssert
    split
    · rename_i h; subst h; simp
    · split
      · simp
      · simp [ih]
        constructor
        · rintro (h | h | h)
          · right; left; exact h
          · left; exact h
          · right; right; exact h
        · rintro (h | h | h)
          · right; left; exact h
          · left; exact h
          · right; right; exact h

theorem mem_foldl_insertAssert {y : String × Nat} : ∀ (xs acc : List (String × Nat)),
    y ∈ xs.foldl (fun acc x => insertAssert x acc) acc ↔ y ∈ acc ∨ y ∈ xs := by
  intro xs
  induction xs with
  | nil => intro acc; simp
  | cons x xs ih =>
    intro acc
    simp only [List.foldl_cons, ih, mem_insertAssert, List.mem_cons]
    constructor
    · rintro ((h | h) | h)
      · right; left; exact h
      · left; exact h
      · right; right; exact h
    · rintro (h | h | h)
      · left; right; exact h
      · left; left; exact h
      · right; exact h

/-- every variant has its `RecordSpec`, whose data are the variant's data (in id order) -/
theorem go_data (d : Definition) (al : Nat) : ∀ (vs : List (List Nat)) (k : Nat) (prev : Option (List Nat)),
    ∀ v ∈ vs, ∃ s ∈ specs.go d al vs k prev, s.data = (sortIds v).map (mkD d.defs) := by
  intro vs
  induction vs with
  | nil => intro k prev v hv; simp at hv
  | cons v0 rest ih =>
    intro k prev v hv
    unfold specs.go
    rcases List.mem_cons.1 hv with rfl | hv
    · exact ⟨_, List.mem_cons_self, rfl⟩
    · obtain ⟨s, hs, hd⟩ := ih (k + 1) (some (sortIds v0)) v hv
      exact ⟨s, List.mem_cons_of_mem _ hs, hd⟩

/-- every datum of every variant is *added* by some spec (the first one that contains it) -/
theorem go_plus (d : Definition) (al : Nat) : ∀ (vs : List (List Nat)) (k : Nat) (prev : Option (List Nat)),
    ∀ v ∈ vs, ∀ id ∈ v, (∃ p, prev = some p ∧ id ∈ p) ∨ ∃ s ∈ specs.go d al vs k prev, mkD d.defs id ∈ s.plus := by
  intro vs
  induction vs with
  | nil => intro k prev v hv; simp at hv
  | cons v0 rest ih =>
    intro k prev v hv id hid
    have head : ∀ id ∈ v0, (∃ p, prev = some p ∧ id ∈ p) ∨ ∃ s ∈ specs.go d al (v0 :: rest) k prev, mkD d.defs id ∈ s.plus := by
      intro id hid
      unfold specs.go
      cases prev with
      | none =>
        right
        refine ⟨_, List.mem_cons_self, ?_⟩
        simp only
        exact List.mem_map.2 ⟨id, mem_sortIds.2 hid, rfl⟩
      | some p =>
        by_cases hp : id ∈ p
        · left; exact ⟨p, rfl, hp⟩
        · right
          refine ⟨_, List.mem_cons_self, ?_⟩
          simp only
          refine List.mem_map.2 ⟨id, ?_, rfl⟩
          rw [List.mem_filter]
          exact ⟨mem_sortIds.2 hid, by simpa using hp⟩
    rcases List.mem_cons.1 hv with rfl | hv
    · exact head id hid
    · rcases ih (k + 1) (some (sortIds v0)) v hv id hid with ⟨p, hp, hin⟩ | ⟨s, hs, hm⟩
      · simp only [Option.some.injEq] at hp
        subst hp
        exact head id (mem_sortIds.1 hin)
      · right
        refine ⟨s, ?_, hm⟩
        unfold specs.go
        exact List.mem_cons_of_mem _ hs

theorem specs_data (d : Definition) : ∀ v ∈ d.variants, ∃ s ∈ specs d, s.data = (sortIds v).map (mkD d.defs) :=
  go_data d _ d.variants 0 none

theorem specs_plus (d : Definition) : ∀ v ∈ d.variants, ∀ id ∈ v, ∃ s ∈ specs d, mkD d.defs id ∈ s.plus := by
  intro v hv id hid
  rcases go_plus d d.maxTypeAlign d.variants 0 none v hv id hid with ⟨p, hp, _⟩ | h
  · simp at hp
  · exact h

end Truc.Gen
