#!/bin/bash
# re-runs every stored seeded change against the check of its own property (regression test of the checks' detection power)
cd /verif
out=.work/seedall-summary.txt; : > $out
for d in seeded/*/; do
  sid=$(basename $d)
  prop=$(python3 -c "import json;print(json.load(open('$d/meta.json')).get('property','${sid:0:3}'))")
  r=$(python3 lib/seedrun.py $sid - $prop 2>&1 | tail -1 | cut -c1-150)
  echo "$sid $r" >> $out
done
git -C /repo status --short >> $out
echo DONE >> $out
