import TrucModel.Proofs.TypeNameProps
import TrucModel.Proofs.LexProps
import TrucModel.Model.Resolver
/-
  C17 — A recorded type name denotes the same type in generated code.
  Types are syntax trees of any depth over paths with generic arguments, tuples, arrays and slices.
  Meaning: where the prelude is in scope and not shadowed, a lone `Box`/`String`/`Vec`/`Option`/`Result`
  is the item at its `alloc::`/`core::` path (`expand` = canonical long form; rustc's name resolution is
  the modelled part, validated by the `fn(T) -> <recorded name>` compile probes of channel T).
-/
namespace Truc.TN

/-- rewriting never changes what the name denotes (module segments carry no generic arguments) -/
theorem C17_denote (t : Ty) (h : ModArgsFree t) : expand (rewrite t) = expand t := expand_rewrite t h

/-- the recorded form is stable: rewriting it again changes nothing -/
theorem C17_idem (t : Ty) : rewrite (rewrite t) = rewrite t := rewrite_idem t

/-- the short spelling and the compiler's fully qualified spelling of the five std types are
    recorded identically, whatever their arguments and wherever they occur -/
theorem C17_short_long (m1 m2 x : String) (args : Tys) (h : preludePath x = some [m1, m2]) :
    rewrite (.path false (.cons m1 .nil (.cons m2 .nil (.cons x args .nil)))) = rewrite (.path false (.cons x args .nil)) := by
  have hstd : isStdPath false [m1, m2, x] = true := by
    unfold preludePath at h
    split at h <;> simp at h <;> obtain ⟨rfl, rfl⟩ := h <;> decide
  have hshort : isStdPath false [x] = false := not_std_of_short (by simp)
  simp [rewrite, Segs.names, hstd, hshort, rewriteSegs, Segs.lastOnly, rewriteTys]

/-- whitespace is ignored: two spellings of the same token sequence — any amount of whitespace (also
    none) before, between and after the tokens, as long as two adjacent identifiers stay separated —
    are normalised identically (same result, or both rejected), hence looked up identically in a table -/
theorem C17_whitespace (items₁ items₂ : List (List Char × Tok)) (tr₁ tr₂ : List Char)
    (h₁ : Spaced false items₁) (h₂ : Spaced false items₂) (ht₁ : allWs tr₁) (ht₂ : allWs tr₂)
    (hsame : items₁.map (fun p => p.2.str) = items₂.map (fun p => p.2.str)) :
    normalize (String.ofList (render items₁ tr₁)) = normalize (String.ofList (render items₂ tr₂)) ∧
    ∀ (t : Res.Table), Res.lookup t (String.ofList (render items₁ tr₁)) = Res.lookup t (String.ofList (render items₂ tr₂)) := by
  have hl : lex (render items₁ tr₁) [] [] = lex (render items₂ tr₂) [] [] := by
    rw [lex_render items₁ tr₁ [] [] ht₁ h₁, lex_render items₂ tr₂ [] [] ht₂ h₂, hsame]
  have hn : normalize (String.ofList (render items₁ tr₁)) = normalize (String.ofList (render items₂ tr₂)) := by
    unfold normalize parse
    simp only [String.toList_ofList, hl]
  exact ⟨hn, fun t => by unfold Res.lookup; rw [hn]⟩

/-- non-vacuity: `Vec<u8>` and `  Vec < u8 >\t` are two spellings of the same tokens -/
example : Spaced false [([], .ident "Vec".toList), ([], .punct '<'), ([], .ident "u8".toList), ([], .punct '>')] ∧
    Spaced false [("  ".toList, .ident "Vec".toList), (" ".toList, .punct '<'), (" ".toList, .ident "u8".toList), (" ".toList, .punct '>')] ∧
    String.ofList (render [([], .ident "Vec".toList), ([], .punct '<'), ([], .ident "u8".toList), ([], .punct '>')] []) = "Vec<u8>" := by
  refine ⟨?_, ?_, by decide +kernel⟩ <;>
    simp [Spaced, Tok.wf, Tok.isIdent, allWs] <;> decide

/-- non-vacuity: concrete names at depth 3, several spellings -/
example : normalize "alloc::vec::Vec<core::option::Option<(u32, alloc::boxed::Box<[u8]>)>>" = some "Vec < Option < (u32 , Box < [u8] >) > >" ∧
    normalize "  Vec <Option< ( u32 ,Box<[ u8 ]>)> >" = some "Vec < Option < (u32 , Box < [u8] >) > >" ∧
    normalize "[alloc::string::String; 42]" = some "[String ; 42]" ∧
    normalize "my_crate::alloc::vec::Vec<u8>" = some "my_crate :: alloc :: vec :: Vec < u8 >" ∧
    normalize "Vec<" = none := by decide +kernel

end Truc.TN
