import TrucModel.Model.TypeName
/-
  Facts about the type-name rewriter.
-/
namespace Truc.TN

theorem names_rewriteSegs : ∀ (s : Segs), (rewriteSegs s).names = s.names
  | .nil => by simp [rewriteSegs, Segs.names]
  | .cons n a rest => by simp [rewriteSegs, Segs.names, names_rewriteSegs rest]

theorem lastOnly_rewriteSegs : ∀ (s : Segs), (rewriteSegs s).lastOnly = rewriteSegs s.lastOnly
  | .nil => by simp [rewriteSegs, Segs.lastOnly]
  | .cons n a .nil => by simp [rewriteSegs, Segs.lastOnly]
  | .cons n a (.cons m b rest) => by
    have := lastOnly_rewriteSegs (.cons m b rest)
    simp only [rewriteSegs, Segs.lastOnly] at this ⊢
    exact this

theorem names_lastOnly_length : ∀ (s : Segs), s.lastOnly.names.length ≤ 1
  | .nil => by simp [Segs.lastOnly, Segs.names]
  | .cons n a .nil => by simp [Segs.lastOnly, Segs.names]
  | .cons n a (.cons m b rest) => by
    have := names_lastOnly_length (.cons m b rest)
    simpa [Segs.lastOnly] using this

theorem isStdPath_length {lc : Bool} {names : List String} (h : isStdPath lc names = true) : names.length = 3 ∧ lc = false := by
  unfold isStdPath patterns at h
  simp only [Bool.and_eq_true, Bool.not_eq_eq_eq_not, Bool.not_true, List.contains_eq_mem, List.mem_cons,
    List.mem_nil_iff, or_false, decide_eq_true_eq] at h
  obtain ⟨hlc, h⟩ := h
  rcases h with h | h | h | h | h <;> subst h <;> exact ⟨rfl, hlc⟩

theorem not_std_of_short {lc : Bool} {names : List String} (h : names.length ≤ 1) : isStdPath lc names = false := by
  cases hs : isStdPath lc names with
  | false => rfl
  | true => have := (isStdPath_length hs).1; omega

mutual
theorem rewrite_idem : ∀ (t : Ty), rewrite (rewrite t) = rewrite t
  | .path lc segs => by
    simp only [rewrite]
    by_cases hstd : isStdPath lc segs.names = true
    · simp only [hstd, if_true]
      have hshort : isStdPath lc (rewriteSegs segs).lastOnly.names = false := not_std_of_short (names_lastOnly_length _)
      simp only [hshort, Bool.false_eq_true, if_false]
      rw [← lastOnly_rewriteSegs, rewriteSegs_idem segs]
    · have hf : isStdPath lc segs.names = false := by simpa using hstd
      simp only [hf, Bool.false_eq_true, if_false, names_rewriteSegs]
      rw [rewriteSegs_idem segs]
  | .tuple es => by simp only [rewrite]; rw [rewriteTys_idem es]
  | .array e n => by simp only [rewrite]; rw [rewrite_idem e]
  | .slice e => by simp only [rewrite]; rw [rewrite_idem e]
theorem rewriteTys_idem : ∀ (ts : Tys), rewriteTys (rewriteTys ts) = rewriteTys ts
  | .nil => by simp [rewriteTys]
  | .cons t ts => by simp only [rewriteTys]; rw [rewrite_idem t, rewriteTys_idem ts]
theorem rewriteSegs_idem : ∀ (s : Segs), rewriteSegs (rewriteSegs s) = rewriteSegs s
  | .nil => by simp [rewriteSegs]
  | .cons n a rest => by simp only [rewriteSegs]; rw [rewriteTys_idem a, rewriteSegs_idem rest]
end

/-! ### meaning: the canonical long form -/

/-- the module path of the five prelude names -/
def preludePath : String → Option (List String)
  | "Box" => some ["alloc", "boxed"]
  | "String" => some ["alloc", "string"]
  | "Vec" => some ["alloc", "vec"]
  | "Option" => some ["core", "option"]
  | "Result" => some ["core", "result"]
  | _ => none

def prefixSegs : List String → Segs → Segs
  | [], s => s
  | m :: ms, s => .cons m .nil (prefixSegs ms s)

mutual
/-- what a name means where the prelude is in scope and not shadowed: a lone `Box` / `String` / `Vec` /
    `Option` / `Result` is the item at its `alloc::` / `core::` path -/
def expand : Ty → Ty
  | .path lc segs =>
    let segs' := expandSegs segs
    .path lc (match lc, segs' with
      | false, .cons n a .nil => (match preludePath n with | some p => prefixSegs p (.cons n a .nil) | none => segs')
      | _, _ => segs')
  | .tuple es => .tuple (expandTys es)
  | .array e n => .array (expand e) n
  | .slice e => .slice (expand e)
def expandTys : Tys → Tys
  | .nil => .nil
  | .cons t ts => .cons (expand t) (expandTys ts)
def expandSegs : Segs → Segs
  | .nil => .nil
  | .cons n a rest => .cons n (expandTys a) (expandSegs rest)
end

mutual
/-- module segments carry no generic arguments (true of every Rust path to a type) -/
def ModArgsFree : Ty → Prop
  | .path _ segs => ModArgsFreeSegs segs
  | .tuple es => ModArgsFreeTys es
  | .array e _ => ModArgsFree e
  | .slice e => ModArgsFree e
def ModArgsFreeTys : Tys → Prop
  | .nil => True
  | .cons t ts => ModArgsFree t ∧ ModArgsFreeTys ts
def ModArgsFreeSegs : Segs → Prop
  | .nil => True
  | .cons _ a .nil => ModArgsFreeTys a
  | .cons _ a rest => a = .nil ∧ ModArgsFreeSegs rest
end

end Truc.TN

namespace Truc.TN

theorem segs_of_names3 {s : Segs} {a b c : String} (h : s.names = [a, b, c]) :
    ∃ x y z, s = .cons a x (.cons b y (.cons c z .nil)) := by
  cases s with
  | nil => simp [Segs.names] at h
  | cons n1 x r1 =>
    cases r1 with
    | nil => simp [Segs.names] at h
    | cons n2 y r2 =>
      cases r2 with
      | nil => simp [Segs.names] at h
      | cons n3 z r3 =>
        cases r3 with
        | nil =>
          simp only [Segs.names, List.cons.injEq, and_true] at h
          obtain ⟨rfl, rfl, rfl⟩ := h
          exact ⟨x, y, z, rfl⟩
        | cons n4 w r4 => simp [Segs.names] at h

theorem std_cases {lc : Bool} {names : List String} (h : isStdPath lc names = true) :
    lc = false ∧ ∃ m1 m2 x, names = [m1, m2, x] ∧ preludePath x = some [m1, m2] := by
  unfold isStdPath patterns at h
  simp only [Bool.and_eq_true, Bool.not_eq_eq_eq_not, Bool.not_true, List.contains_eq_mem, List.mem_cons,
    List.mem_nil_iff, or_false, decide_eq_true_eq] at h
  obtain ⟨hlc, h⟩ := h
  refine ⟨hlc, ?_⟩
  rcases h with h | h | h | h | h <;> subst h <;> exact ⟨_, _, _, rfl, rfl⟩

mutual
theorem expand_rewrite : ∀ (t : Ty), ModArgsFree t → expand (rewrite t) = expand t
  | .path lc segs, hm => by
    have hm' : ModArgsFreeSegs segs := by simpa [ModArgsFree] using hm
    have ih := expandSegs_rewriteSegs segs hm'
    simp only [rewrite]
    by_cases hstd : isStdPath lc segs.names = true
    · obtain ⟨hlc, m1, m2, x, hn, hp⟩ := std_cases hstd
      subst hlc
      obtain ⟨a1, a2, a3, rfl⟩ := segs_of_names3 hn
      simp only [hstd, if_true]
      simp only [ModArgsFreeSegs] at hm'
      obtain ⟨rfl, rfl, hm3⟩ := hm'
      have ih3 : expandTys (rewriteTys a3) = expandTys a3 := expandTys_rewriteTys a3 hm3
      simp only [rewriteSegs, rewriteTys, Segs.lastOnly, expand, expandSegs, expandTys, hp, prefixSegs, ih3]
    · have hf : isStdPath lc segs.names = false := by simpa using hstd
      simp only [hf, Bool.false_eq_true, if_false, expand, ih]
  | .tuple es, hm => by
    simp only [rewrite, expand]
    rw [expandTys_rewriteTys es (by simpa [ModArgsFree] using hm)]
  | .array e n, hm => by
    simp only [rewrite, expand]
    rw [expand_rewrite e (by simpa [ModArgsFree] using hm)]
  | .slice e, hm => by
    simp only [rewrite, expand]
    rw [expand_rewrite e (by simpa [ModArgsFree] using hm)]
theorem expandTys_rewriteTys : ∀ (ts : Tys), ModArgsFreeTys ts → expandTys (rewriteTys ts) = expandTys ts
  | .nil, _ => by simp [rewriteTys]
  | .cons t ts, hm => by
    simp only [ModArgsFreeTys] at hm
    simp only [rewriteTys, expandTys]
    rw [expand_rewrite t hm.1, expandTys_rewriteTys ts hm.2]
theorem expandSegs_rewriteSegs : ∀ (s : Segs), ModArgsFreeSegs s → expandSegs (rewriteSegs s) = expandSegs s
  | .nil, _ => by simp [rewriteSegs]
  | .cons n a .nil, hm => by
    simp only [ModArgsFreeSegs] at hm
    simp only [rewriteSegs, expandSegs]
    rw [expandTys_rewriteTys a hm]
  | .cons n a (.cons m b rest), hm => by
    simp only [ModArgsFreeSegs] at hm
    obtain ⟨rfl, hr⟩ := hm
    have := expandSegs_rewriteSegs (.cons m b rest) hr
    simp only [rewriteSegs, expandSegs, rewriteTys, expandTys] at this ⊢
    rw [this]
end

end Truc.TN
