import TrucModel.Proofs.StaticProps
/-
  C11 — Wrong type information or a non-Copy uninitialisable field cannot compile.
  `accepts env d` = every emitted const assertion holds under the compiler's real sizes and
  alignments `env`, and every type substituted at an emitted `T: Copy` turbofish is `Copy` — the
  modelled compiler rules (validated by compile probes).
-/
namespace Truc.Static
open Truc.Gen

/-- a datum (of any variant, introduced in any variant) whose recorded size differs from the real
    size of its type makes the generated module fail to compile -/
theorem C11_size (env : TyEnv) (d : Definition) (v : List Nat) (hv : v ∈ d.variants) (id : Nat) (hid : id ∈ v)
    (hbad : env.size (mkD d.defs id).ty ≠ (mkD d.defs id).size) : ¬ accepts env d := by
  intro hacc
  obtain ⟨s, hs, hm⟩ := specs_plus d v hv id hid
  apply hbad
  refine hacc.1 ((mkD d.defs id).ty, (mkD d.defs id).size) ?_
  unfold sizeAsserts sizeAssertions
  rw [mem_foldl_insertAssert]
  right
  exact List.mem_flatten.2 ⟨_, List.mem_map.2 ⟨s, hs, rfl⟩, List.mem_map.2 ⟨_, hm, rfl⟩⟩

/-- the same for the recorded alignment -/
theorem C11_align (env : TyEnv) (d : Definition) (v : List Nat) (hv : v ∈ d.variants) (id : Nat) (hid : id ∈ v)
    (hbad : env.align (mkD d.defs id).ty ≠ (mkD d.defs id).align) : ¬ accepts env d := by
  intro hacc
  obtain ⟨s, hs, hd⟩ := specs_data d v hv
  apply hbad
  refine hacc.2.1 ((mkD d.defs id).ty, (mkD d.defs id).align) ?_
  unfold alignAsserts alignAssertions
  rw [mem_foldl_insertAssert]
  right
  refine List.mem_flatten.2 ⟨_, List.mem_map.2 ⟨s, hs, rfl⟩, ?_⟩
  rw [hd]
  exact List.mem_map.2 ⟨_, List.mem_map.2 ⟨id, mem_sortIds.2 hid, rfl⟩, rfl⟩

/-- a datum declared as allowed to stay uninitialised whose type is not `Copy` makes the module fail
    to compile (the `new_uninit` constructor of its variant instantiates the `T: Copy` helper with it) -/
theorem C11_copy (env : TyEnv) (d : Definition) (v : List Nat) (hv : v ∈ d.variants) (id : Nat) (hid : id ∈ v)
    (hun : (mkD d.defs id).uninit = true) (hbad : env.copy (mkD d.defs id).ty = false) : ¬ accepts env d := by
  intro hacc
  obtain ⟨s, hs, hd⟩ := specs_data d v hv
  have : env.copy (mkD d.defs id).ty = true := by
    apply hacc.2.2
    unfold copyObligations
    refine List.mem_flatten.2 ⟨_, List.mem_map.2 ⟨s, hs, rfl⟩, ?_⟩
    apply List.mem_append_left
    rw [hd]
    exact List.mem_map.2 ⟨mkD d.defs id, List.mem_filter.2 ⟨List.mem_map.2 ⟨id, mem_sortIds.2 hid, rfl⟩, hun⟩, rfl⟩
  rw [hbad] at this
  exact absurd this (by simp)

/-- conversely: nothing else is demanded — with correct information the three rules accept -/
theorem C11_accepts_when_right (env : TyEnv) (d : Definition)
    (hok : ∀ s ∈ specs d, ∀ x ∈ s.data, env.size x.ty = x.size ∧ env.align x.ty = x.align ∧ (x.uninit = true → env.copy x.ty = true))
    (hplus : ∀ s ∈ specs d, ∀ x ∈ s.plus, x ∈ s.data) : accepts env d := by
  refine ⟨?_, ?_, ?_⟩
  · intro p hp
    unfold sizeAsserts sizeAssertions at hp
    rw [mem_foldl_insertAssert] at hp
    rcases hp with hp | hp
    · simp at hp
    · obtain ⟨l, hl, hpl⟩ := List.mem_flatten.1 hp
      obtain ⟨s, hs, rfl⟩ := List.mem_map.1 hl
      obtain ⟨x, hx, rfl⟩ := List.mem_map.1 hpl
      exact (hok s hs x (hplus s hs x hx)).1
  · intro p hp
    unfold alignAsserts alignAssertions at hp
    rw [mem_foldl_insertAssert] at hp
    rcases hp with hp | hp
    · simp at hp
    · obtain ⟨l, hl, hpl⟩ := List.mem_flatten.1 hp
      obtain ⟨s, hs, rfl⟩ := List.mem_map.1 hl
      obtain ⟨x, hx, rfl⟩ := List.mem_map.1 hpl
      exact (hok s hs x hx).2.1
  · intro t ht
    unfold copyObligations at ht
    obtain ⟨l, hl, htl⟩ := List.mem_flatten.1 ht
    obtain ⟨s, hs, rfl⟩ := List.mem_map.1 hl
    rcases List.mem_append.1 htl with h | h
    · obtain ⟨x, hx, rfl⟩ := List.mem_map.1 h
      have := List.mem_filter.1 hx
      exact (hok s hs x this.1).2.2 this.2
    · split at h
      · obtain ⟨x, hx, rfl⟩ := List.mem_map.1 h
        have := List.mem_filter.1 hx
        exact (hok s hs x (hplus s hs x this.1)).2.2 this.2
      · simp at h

/-- the assertions are really in the emitted module -/
theorem C11_assertions_emitted (d : Definition) (cfg : Cfg) (items : List Item) (h : module d cfg = some items) :
    (∀ p ∈ sizeAsserts d, Item.raw s!"const_assert_eq!(std::mem::size_of::<{p.1}>(),{p.2});" ∈ items) ∧
    (∀ p ∈ alignAsserts d, Item.raw s!"const_assert_eq!(std::mem::align_of::<{p.1}>(),{p.2});" ∈ items) := by
  unfold module at h
  split at h
  · simp at h
  · simp only [Option.some.injEq] at h
    subst h
    constructor
    · intro p hp
      simp only [List.mem_append, List.mem_map]
      left; right
      exact ⟨p, hp, rfl⟩
    · intro p hp
      simp only [List.mem_append, List.mem_map]
      right
      exact ⟨p, hp, rfl⟩

/-- non-vacuity: one `u32`-like field recorded with alignment 8 -/
example : ¬ accepts { size := fun _ => 4, align := fun _ => 4, copy := fun _ => true, send := fun _ => true, sync := fun _ => true }
    ⟨[⟨"a", "P4", 4, 8, 0, false⟩], [[0]]⟩ :=
  C11_align _ _ [0] (by simp) 0 (by simp) (by decide)

end Truc.Static
