//! Channel X generator: builds definitions through the real builder, generates the modules with the
//! real `generate()`, and writes (1) a lab crate that includes them together with straight-line driver
//! programs and (2) the request file (builder requests + API-level operations) for the Lean machine.
//!
//! usage: chan_x <seed> <ndefs> <labdir> <reqfile>
use std::collections::BTreeSet;
use std::fmt::Write as _;

use truc::generator::config::GeneratorConfig;
use truc::generator::fragment::clone::CloneImplGenerator;
use truc::generator::fragment::serde::SerdeImplGenerator;
use truc::generator::fragment::FragmentGenerator;
use truc::record::definition::builder::native::variant as nvariant;
use truc::record::definition::builder::native::{DatumDefinitionOverride, NativeRecordDefinitionBuilder};
use truc::record::definition::{NativeDatumDetails, RecordDefinition};
use truc::record::type_resolver::HostTypeResolver;
use verif_harness::Rng;

/// lab field types: name, size, align, Copy?
const TYPES: [(&str, usize, usize, bool); 20] = [
    // real std heap types (values carry JSON escapes); no drop logging for them
    ("String", 24, 8, false), ("Box<str>", 16, 8, false), ("Vec<u8>", 24, 8, false),
    ("P1", 1, 1, true), ("P2", 2, 2, true), ("P4", 4, 4, true), ("P8", 8, 8, true), ("P16", 16, 16, true),
    ("P3", 3, 1, true), ("P12", 12, 4, true), ("P24", 24, 8, true), ("Option<P4>", 8, 4, true),
    ("P32", 32, 32, true),
    ("PNZ", 4, 4, true),
    ("H", 8, 8, false), ("O3", 3, 1, false), ("A16", 16, 16, false), ("Z", 0, 1, false), ("Z8", 0, 8, false), ("H40", 40, 8, false),
];

#[derive(Clone)]
struct F { id: usize, name: String, ty: String, uninit: bool }

struct Variant { data: Vec<F>, minus: Vec<F>, plus: Vec<F> }

fn variants_of(def: &RecordDefinition<NativeDatumDetails>) -> Vec<Variant> {
    let mut out = vec![];
    let mut prev: Option<Vec<F>> = None;
    for v in def.variants() {
        let data: Vec<F> = v.data_sorted().map(|d| {
            let dd = &def[d];
            F { id: format!("{}", d).parse().unwrap(), name: dd.name().to_string(), ty: dd.details().type_name().to_string(), uninit: dd.details().allow_uninit() }
        }).collect();
        let (minus, plus) = match &prev {
            Some(p) => {
                let cur: BTreeSet<usize> = data.iter().map(|f| f.id).collect();
                let old: BTreeSet<usize> = p.iter().map(|f| f.id).collect();
                (p.iter().filter(|f| !cur.contains(&f.id)).cloned().collect(), data.iter().filter(|f| !old.contains(&f.id)).cloned().collect())
            }
            None => (vec![], data.clone()),
        };
        prev = Some(data.clone());
        out.push(Variant { data, minus, plus });
    }
    out
}

struct Gen<'a> {
    rng: &'a mut Rng,
    req: String,
    code: String,
    vals: u64,
    next_reg: usize,
    vs: Vec<Variant>,
    m: String,
    extra: usize,
}

#[derive(Clone, Copy, PartialEq)]
enum Place { Stack, Boxed, InVec }

#[derive(Clone)]
struct Reg { n: usize, v: usize, place: Place, init: Vec<bool> }

impl<'a> Gen<'a> {
    fn val(&mut self, ty: &str) -> u64 {
        self.vals += 1;
        match ty { "P1" => (self.vals % 250) + 1, "P2" => (self.vals % 60000) + 1, "O3" | "P3" => (self.vals % 1_000_000) + 1, _ => self.vals }
    }
    fn capx(&self) -> String { format!("{{ {}::MAX_SIZE + {} }}", self.m, self.extra) }
    fn rty(&self, v: usize) -> String { format!("{}::CappedRecord{}<{}>", self.m, v, self.capx()) }
    fn acc(&self, r: &Reg) -> String { match r.place { Place::Stack => format!("r{}", r.n), Place::Boxed => format!("(*r{})", r.n), Place::InVec => format!("r{}[0]", r.n) } }
    fn byval(&self, r: &Reg) -> String { match r.place { Place::Stack => format!("r{}", r.n), Place::Boxed => format!("*r{}", r.n), Place::InVec => format!("r{}.pop().unwrap()", r.n) } }
    fn op(&mut self, req: &str, code: &str) {
        writeln!(self.req, "x {}", req).unwrap();
        writeln!(self.code, "    {}", code).unwrap();
    }
    fn fields_init(&mut self, fs: &[F]) -> (String, String) {
        // returns (struct-literal body, comma separated values)
        let mut lit = String::new();
        let mut vals = vec![];
        for f in fs {
            let v = self.val(&f.ty);
            write!(lit, "{}: <{}>::mk({}), ", f.name, f.ty, v).unwrap();
            vals.push(v.to_string());
        }
        (lit, if vals.is_empty() { "-".into() } else { vals.join(",") })
    }
    fn new_rec(&mut self, v: usize, uninit: bool) -> Reg {
        let n = self.next_reg; self.next_reg += 1;
        let data = self.vs[v].data.clone();
        let fs: Vec<F> = if uninit { data.iter().filter(|f| !f.uninit).cloned().collect() } else { data.clone() };
        let (lit, vals) = self.fields_init(&fs);
        let sname = if uninit { "UnpackedUninitRecord" } else { "UnpackedRecord" };
        // the constructors, or the `From<Unpacked…>` impls that wrap them
        let ctor = if self.rng.chance(1, 3) { "from" } else if uninit { "new_uninit" } else { "new" };
        let code = format!("let mut r{n}: {ty} = {m}::CappedRecord{v}::{ctor}({m}::{sname}{v} {{ {lit} }}); flush(out, \"ok\".into());", n = n, ty = self.rty(v), m = self.m, v = v, ctor = ctor, sname = sname, lit = lit);
        self.op(&format!("{} {} {} {}", if uninit { "newu" } else { "new" }, v, n, vals), &code);
        Reg { n, v, place: Place::Stack, init: data.iter().map(|f| !uninit || !f.uninit).collect() }
    }
    fn get(&mut self, r: &Reg, fi: usize) {
        if !r.init[fi] { return; }
        let f = self.vs[r.v].data[fi].clone();
        let code = format!("{{ let s = {}.{}().show(); flush(out, format!(\"val {{}}\", s)); }}", self.acc(r), f.name);
        self.op(&format!("get {} {}", r.n, fi), &code);
    }
    fn set(&mut self, r: &mut Reg, fi: usize) {
        let f = self.vs[r.v].data[fi].clone();
        // an uninitialised droppable field cannot exist (only Copy types may stay uninitialised)
        let v = self.val(&f.ty);
        let code = format!("*{}.{}_mut() = <{}>::mk({}); flush(out, \"ok\".into());", self.acc(r), f.name, f.ty, v);
        self.op(&format!("set {} {} {}", r.n, fi, v), &code);
        r.init[fi] = true;
    }
    fn all_gets(&mut self, r: &Reg) {
        for fi in 0..self.vs[r.v].data.len() { self.get(r, fi); }
    }
    fn unpack(&mut self, r: Reg) {
        if r.init.iter().any(|b| !b) { return self.drop_rec(r); }
        let fs = self.vs[r.v].data.clone();
        let shows: Vec<String> = fs.iter().map(|f| format!("u.{}.show()", f.name)).collect();
        let code = format!("{{ let u = ({}).unpack(); let s: Vec<String> = vec![{}]; flush(out, format!(\"vals {{}}\", s.join(\",\"))); mute(true); drop(u); mute(false); }}", self.byval(&r), shows.join(", "));
        self.op(&format!("unpack {}", r.n), &code);
        self.finish_container(&r);
    }
    fn finish_container(&mut self, r: &Reg) {
        // the emptied Box / Vec shell
        let _ = r;
    }
    fn drop_rec(&mut self, r: Reg) {
        let code = format!("drop({}); flush(out, \"ok\".into());", self.byval(&r));
        self.op(&format!("drop {}", r.n), &code);
    }
    fn conv(&mut self, r: Reg, form: &str) -> Reg {
        let v = r.v + 1;
        let n = self.next_reg; self.next_reg += 1;
        let uninit = form == "us" || form == "uo";
        let and_out = form == "fo" || form == "uo";
        let plus = self.vs[v].plus.clone();
        let minus = self.vs[v].minus.clone();
        let fs: Vec<F> = if uninit { plus.iter().filter(|f| !f.uninit).cloned().collect() } else { plus.clone() };
        let (lit, vals) = self.fields_init(&fs);
        let pname = if uninit { "UnpackedUninitRecordIn" } else { "UnpackedRecordIn" };
        let plus_expr = format!("{}::{}{} {{ {} }}", self.m, pname, v, lit);
        let code = if !and_out {
            format!("let mut r{n}: {ty} = ({src}, {plus}).into(); flush(out, \"ok\".into());", n = n, ty = self.rty(v), src = self.byval(&r), plus = plus_expr)
        } else {
            let names: Vec<String> = minus.iter().map(|f| f.name.clone()).collect();
            let pat = std::iter::once(format!("record: mut r{}", n)).chain(names.iter().map(|x| format!("{}: o_{}", x, x))).collect::<Vec<_>>().join(", ");
            let oldd = &self.vs[r.v].data;
            let shows: Vec<String> = minus.iter().map(|f| { let i = oldd.iter().position(|g| g.id == f.id).unwrap(); if r.init[i] { format!("o_{}.show()", f.name) } else { "\"?\".to_string()".to_string() } }).collect();
            let drops: String = names.iter().map(|x| format!("drop(o_{}); ", x)).collect();
            format!("let o{n}: {m}::Record{v}AndUnpackedOut<{capx}> = ({src}, {plus}).into(); let {m}::Record{v}AndUnpackedOut {{ {pat} }} = o{n}; {{ let s: Vec<String> = vec![{shows}]; flush(out, format!(\"out {{}}\", s.join(\",\"))); }} mute(true); {drops}mute(false);",
                n = n, m = self.m, v = v, capx = self.capx(), src = self.byval(&r), plus = plus_expr, pat = pat, shows = shows.join(", "), drops = drops)
        };
        self.op(&format!("conv {} {} {} {}", form, r.n, n, vals), &code);
        // carried-over fields keep their init state; added: full → all, uninit → mandatory only
        let old = &self.vs[r.v].data;
        let init = self.vs[v].data.iter().map(|f| {
            if let Some(i) = old.iter().position(|g| g.id == f.id) { r.init[i] } else { !uninit || !f.uninit }
        }).collect();
        Reg { n, v, place: Place::Stack, init }
    }
    fn place(&mut self, r: Reg, p: Place) -> Reg {
        let n = self.next_reg; self.next_reg += 1;
        let (code, w) = match p {
            Place::Boxed => (format!("let mut r{} = Box::new({}); flush(out, \"ok\".into());", n, self.byval(&r)), "box"),
            Place::InVec => (format!("let mut r{} = vec![{}]; flush(out, \"ok\".into());", n, self.byval(&r)), "vec"),
            Place::Stack => (format!("let mut r{} = {}; flush(out, \"ok\".into());", n, self.byval(&r)), "stack"),
        };
        self.op(&format!("place {} {}", r.n, w), &code);
        // the model keeps the register number: re-bind
        writeln!(self.req, "x rename {} {}", r.n, n).unwrap();
        writeln!(self.code, "    flush(out, \"ok\".into());").unwrap();
        Reg { n, place: p, ..r }
    }
    fn clone_rec(&mut self, r: &Reg) -> Option<Reg> {
        if r.init.iter().any(|b| !b) { return None; }
        let n = self.next_reg; self.next_reg += 1;
        let code = format!("let mut r{}: {} = {}.clone(); flush(out, \"ok\".into());", n, self.rty(r.v), self.acc(r));
        self.op(&format!("clone {} {}", r.n, n), &code);
        Some(Reg { n, v: r.v, place: Place::Stack, init: r.init.clone() })
    }
    fn clone_from(&mut self, dst: &mut Reg, src: &Reg) {
        if src.init.iter().any(|b| !b) || dst.init.iter().any(|b| !b) { return; }
        let code = format!("{{ let s = &{}; {}.clone_from(s); }} flush(out, \"ok\".into());", self.acc(src), self.acc(dst));
        self.op(&format!("clonefrom {} {}", dst.n, src.n), &code);
    }
    /// clone-assignment in which the clone of one mandatory owning field of the source panics
    fn clone_from_bomb(&mut self, dst: &mut Reg, src: &Reg) {
        if src.init.iter().any(|b| !b) || dst.init.iter().any(|b| !b) { return; }
        let data = self.vs[src.v].data.clone();
        let cands: Vec<usize> = data.iter().enumerate().filter(|(_, f)| !f.uninit && matches!(f.ty.as_str(), "H" | "O3" | "A16" | "H40")).map(|(i, _)| i).collect();
        if cands.is_empty() { return; }
        let fi = *self.rng.pick(&cands);
        let f = &data[fi];
        let code = format!("{{ let s = &{s}; let id = s.{f}().id(); CLONE_BOMB.with(|b| *b.borrow_mut() = Some((\"{t}\", id))); let res = std::panic::catch_unwind(std::panic::AssertUnwindSafe(|| {{ {d}.clone_from(s); }})); CLONE_BOMB.with(|b| *b.borrow_mut() = None); match res {{ Ok(_) => flush(out, \"no-panic\".into()), Err(_) => flush(out, \"panic\".into()) }} }}", s = self.acc(src), d = self.acc(dst), f = f.name, t = f.ty);
        self.op(&format!("clonefrombomb {} {} {}", dst.n, src.n, fi), &code);
    }
    fn serde(&mut self, r: &Reg, fmt: &str) -> Option<Reg> {
        if r.init.iter().any(|b| !b) { return None; }
        let n = self.next_reg; self.next_reg += 1;
        let code = if fmt == "json" {
            format!("let mut r{n}: {ty} = {{ let s = serde_json::to_string(&{a}).unwrap(); serde_json::from_str(&s).unwrap() }}; flush(out, \"ok\".into());", n = n, ty = self.rty(r.v), a = self.acc(r))
        } else if fmt == "jsonv" {
            format!("let mut r{n}: {ty} = {{ let v = serde_json::to_value(&{a}).unwrap(); serde_json::from_value(v).unwrap() }}; flush(out, \"ok\".into());", n = n, ty = self.rty(r.v), a = self.acc(r))
        } else if fmt == "jsonr" {
            format!("let mut r{n}: {ty} = {{ let s = serde_json::to_vec(&{a}).unwrap(); serde_json::from_reader(std::io::Cursor::new(s)).unwrap() }}; flush(out, \"ok\".into());", n = n, ty = self.rty(r.v), a = self.acc(r))
        } else {
            format!("let mut r{n}: {ty} = {{ let s = bincode::serialize(&{a}).unwrap(); bincode::deserialize(&s).unwrap() }}; flush(out, \"ok\".into());", n = n, ty = self.rty(r.v), a = self.acc(r))
        };
        self.op(&format!("serde {} {} {}", fmt, r.n, n), &code);
        Some(Reg { n, v: r.v, place: Place::Stack, init: r.init.clone() })
    }
    fn clone_bomb(&mut self, r: &Reg) {
        if r.init.iter().any(|b| !b) { return; }
        let data = self.vs[r.v].data.clone();
        let cands: Vec<usize> = data.iter().enumerate().filter(|(_, f)| !f.uninit && matches!(f.ty.as_str(), "H" | "O3" | "A16" | "H40")).map(|(i, _)| i).collect();
        if cands.is_empty() { return; }
        let fi = *self.rng.pick(&cands);
        let f = &data[fi];
        let code = format!("{{ let id = {a}.{f}().id(); CLONE_BOMB.with(|b| *b.borrow_mut() = Some((\"{t}\", id))); let res = std::panic::catch_unwind(std::panic::AssertUnwindSafe(|| {{ let c = {a}.clone(); c }})); CLONE_BOMB.with(|b| *b.borrow_mut() = None); match res {{ Ok(c) => {{ mute(true); drop(c); mute(false); flush(out, \"no-panic\".into()); }} Err(_) => flush(out, \"panic\".into()) }} }}", a = self.acc(r), f = f.name, t = f.ty);
        self.op(&format!("clonebomb {} {}", r.n, fi), &code);
    }
    fn de_bad(&mut self, r: &Reg) {
        if r.init.iter().any(|b| !b) { return; }
        let n = self.vs[r.v].data.len();
        let json = self.rng.chance(1, 2);
        let kinds: Vec<&str> = if json { vec!["trunc", "corrupt", "long"] } else { vec!["trunc"] };
        let mut kind = *self.rng.pick(&kinds);
        if n == 0 && kind != "long" { return; }
        let mut k = if n == 0 { 0 } else { self.rng.below(n) };
        // a trailing run of `Option<_>` fields: cut inside it (a missing element is not a `None`)
        let opt_tail = self.vs[r.v].data.iter().rev().take_while(|f| f.ty.replace(' ', "").starts_with("Option<")).count();
        if json && opt_tail > 0 && self.rng.chance(2, 3) { kind = "trunc"; k = n - 1 - self.rng.below(opt_tail); }
        let ty = self.rty(r.v);
        let classify = "let cls = |m: String| -> &'static str { if m.contains(\"missing field\") { \"missing\" } else if m.contains(\"trailing\") { \"trailing\" } else if m.contains(\"invalid length\") { \"invalid-length\" } else { \"bad\" } };";
        let code = if json {
            let mutate = match kind {
                "trunc" => format!("arr.truncate({});", k),
                "corrupt" => format!("arr[{}] = serde_json::Value::Bool(true);", k),
                _ => "arr.push(serde_json::Value::from(0u64));".to_string(),
            };
            format!("{{ {cl} let mut val = serde_json::to_value(&{a}).unwrap(); {{ let arr = val.as_array_mut().unwrap(); {m} }} let s = val.to_string(); let res: Result<{ty}, _> = serde_json::from_str(&s); match res {{ Ok(c) => {{ mute(true); drop(c); mute(false); flush(out, \"ok?\".into()); }} Err(e) => flush(out, format!(\"err {{}}\", cls(e.to_string()))) }} }}", cl = classify, a = self.acc(r), m = mutate, ty = ty)
        } else {
            // byte length of the first k elements: 8 for the lab types (u64), length-prefixed for the std text types
            let cut: String = self.vs[r.v].data.iter().take(k).map(|f| if matches!(f.ty.as_str(), "String" | "Box<str>" | "Vec<u8>") {
                "cut += 8 + u64::from_le_bytes(bytes[cut..cut + 8].try_into().unwrap()) as usize; ".to_string()
            } else if f.ty.replace(' ', "").starts_with("Option<") { "cut += 9; ".to_string() } else { "cut += 8; ".to_string() }).collect();
            format!("{{ {cl} let mut bytes = bincode::serialize(&{a}).unwrap(); let mut cut: usize = 0; {cut}bytes.truncate(cut); let res: Result<{ty}, _> = bincode::deserialize(&bytes); match res {{ Ok(c) => {{ mute(true); drop(c); mute(false); flush(out, \"ok?\".into()); }} Err(e) => flush(out, format!(\"err {{}}\", cls(e.to_string()))) }} }}", cl = classify, a = self.acc(r), cut = cut, ty = ty)
        };
        self.op(&format!("debad {} {} {} {}", if json { "json" } else { "bincode" }, r.n, kind, k), &code);
    }
    fn end_of_life(&mut self, r: Reg) {
        if self.rng.chance(1, 2) { self.unpack(r) } else { self.drop_rec(r) }
    }

    fn script(&mut self) {
        let nv = self.vs.len();
        // VERIF_X_ALLINIT=1: no field is ever read before it was written (for runs under Miri, which rejects the typed read of
        // an uninitialised plain-old-data field that `Drop` / `unpack` / conversions perform by design)
        let allinit = std::env::var("VERIF_X_ALLINIT").map(|v| v == "1").unwrap_or(false);
        // sizes of every record type
        // (the last entry is `RecordUninitialized<CAP>`, the slot type custom allocators cast to the record variants)
        let mut tys: Vec<String> = (0..nv).map(|v| self.rty(v)).collect();
        tys.push(format!("{}::RecordUninitialized<{}>", self.m, self.capx()));
        let szs: Vec<String> = tys.iter().map(|t| format!("format!(\"{{}}/{{}}\", std::mem::size_of::<{t}>(), std::mem::align_of::<{t}>())", t = t)).collect();
        let code = format!("{{ let s: Vec<String> = vec![{}]; flush(out, format!(\"sizes {{}}\", s.join(\",\"))); }}", szs.join(", "));
        self.op("sizes", &code);
        for v in 0..nv {
            // full constructor, reads, writes in some order, reads again
            let mut r = self.new_rec(v, false);
            self.all_gets(&r);
            let nf = self.vs[v].data.len();
            for _ in 0..nf.min(4) { let fi = self.rng.below(nf); self.set(&mut r, fi); if self.rng.chance(1, 2) { let fj = self.rng.below(nf); self.get(&r, fj); } }
            if self.rng.chance(1, 3) { let p = if self.rng.chance(1, 2) { Place::Boxed } else { Place::InVec }; r = self.place(r, p); }
            self.all_gets(&r);
            if self.rng.chance(1, 2) {
                if let Some(mut c) = self.clone_rec(&r) {
                    if nf > 0 { let fi = self.rng.below(nf); self.set(&mut r, fi); }
                    self.all_gets(&c);
                    self.all_gets(&r);
                    if self.rng.chance(1, 2) { self.clone_from(&mut c, &r); self.all_gets(&c); }
                    if self.rng.chance(1, 2) { self.clone_from_bomb(&mut c, &r); self.all_gets(&c); }
                    self.end_of_life(c);
                }
            }
            if self.rng.chance(1, 2) { self.clone_bomb(&r); }
            if self.rng.chance(1, 2) { self.de_bad(&r); }
            if self.rng.chance(1, 2) {
                let fmt = *self.rng.pick(&["json", "json", "jsonv", "jsonr", "bincode", "bincode"]);
                if let Some(d) = self.serde(&r, fmt) { self.all_gets(&d); self.end_of_life(d); }
            }
            // conversion chain from v to the last variant (random forms), or stop early
            let mut cur = r;
            let mut k = v;
            while k + 1 < nv && self.rng.chance(3, 4) {
                let form = if allinit { *self.rng.pick(&["fs", "fo"]) } else { *self.rng.pick(&["fs", "us", "fo", "uo"]) };
                cur = self.conv(cur, form);
                k += 1;
                if self.rng.chance(1, 4) { let p = *self.rng.pick(&[Place::Boxed, Place::InVec, Place::Stack]); cur = self.place(cur, p); }
                self.all_gets(&cur);
                let nf = self.vs[k].data.len();
                if nf > 0 && self.rng.chance(1, 2) { let fi = self.rng.below(nf); self.set(&mut cur, fi); self.get(&cur, fi); }
            }
            self.end_of_life(cur);
            // uninit constructor: mandatory fields back, later writes of the others
            let mut u = self.new_rec(v, true);
            self.all_gets(&u);
            for fi in 0..nf { if !u.init[fi] && (allinit || self.rng.chance(2, 3)) { self.set(&mut u, fi); self.get(&u, fi); } }
            if v + 1 < nv && self.rng.chance(1, 2) {
                let form = if allinit { *self.rng.pick(&["fs", "fo"]) } else { *self.rng.pick(&["fs", "us", "fo", "uo"]) };
                u = self.conv(u, form);
                self.all_gets(&u);
            }
            self.drop_rec(u);
        }
    }
}

fn build_def(rng: &mut Rng, req: &mut String) -> RecordDefinition<NativeDatumDetails> {
    let mut b = NativeRecordDefinitionBuilder::new(HostTypeResolver);
    writeln!(req, "reset native 0 n").unwrap();
    let nvar = 1 + rng.below(4);
    let mut live: Vec<usize> = vec![];
    let mut ctr = 0;
    let fixed = if rng.chance(1, 2) { Some(rng.below(4)) } else { None };
    let mut names: std::collections::BTreeMap<usize, String> = Default::default();
    // module shapes: 0 = mixed; 1 = wide (a variant with more than 16 fields: serde's tuple boundary); 2 = every field plain data that may
    // stay uninitialised (whole-record fast paths); 3 = many zero-size fields (fields sharing an offset)
    // 4 = owning data first, later variants only remove or add plain data that may stay uninitialised (whole-record shortcuts
    //     keyed on what a step adds rather than on what the variant holds)
    // 5 = an empty variant inside the history: either the first variant is empty (the first data appear in the second), or a step
    //     removes everything and adds nothing (conversions that only remove, then conversions from an empty record)
    let shape = match rng.below(18) { 0 | 1 => 1, 2 | 3 => 2, 4 | 5 => 3, 6 | 7 => 4, 8 | 9 => 5, _ => 0 };
    let nvar = if shape == 5 { 3 + rng.below(2) } else { nvar };
    let empty_first = shape == 5 && rng.chance(1, 2);
    for v in 0..nvar {
        let mut freed_names: Vec<String> = vec![];
        if v > 0 {
            for id in live.clone() {
                if rng.chance(1, 3) || (shape == 5 && !empty_first && v == 1) {
                    b.remove_datum(truc::record::definition::DatumId::from(id)).unwrap();
                    writeln!(req, "rm {}", id).unwrap();
                    live.retain(|&x| x != id);
                    freed_names.push(names[&id].clone());
                }
            }
        }
        let nadd = if shape == 1 && v == 0 { 17 + rng.below(4) } else if shape == 5 && ((empty_first && v == 0) || (!empty_first && v == 1)) { 0 }
                   else if rng.chance(1, 8) && shape != 5 { 0 } else { 1 + rng.below(5) };
        // a datum added and cancelled again before the close, recorded with type information that would not hold at the compile
        // site (a type that does not exist / a wrong alignment): it belongs to no variant and must not reach the generated code
        if rng.chance(1, 4) {
            ctr += 1;
            let name = format!("c{}", ctr);
            // (or right information of a type more aligned than most: the cancelled datum still counts for the record alignment)
            let (ty, size, align) = match rng.below(3) { 0 => ("NoSuchType", 4, 2), 1 => ("P8", 8, 4), _ => ("P32", 32, 32) };
            let id = b.add_datum_override::<(), _>(name.clone(), DatumDefinitionOverride { type_name: Some(ty.to_string()), size: Some(size), align: Some(align), allow_uninit: Some(false) }).unwrap();
            writeln!(req, "add {} {} {} {} 0 override", name, ty, size, align).unwrap();
            let idn: usize = format!("{}", id).parse().unwrap();
            b.remove_datum(id).unwrap();
            writeln!(req, "rm {}", idn).unwrap();
        }
        for _ in 0..nadd {
            let (ty, size, align, copy) = loop {
                // the Miri lab (VERIF_X_ALLINIT) leans on the over-aligned types: stores into bare locals are where alignment assumptions bite
                let over = std::env::var("VERIF_X_ALLINIT").is_ok() && rng.chance(1, 3);
                let t = if over { *rng.pick(&[TYPES[12], TYPES[7], TYPES[16]]) } else if shape == 0 && rng.chance(1, 10) { TYPES[11] } else { TYPES[rng.below(TYPES.len())] };
                if shape == 2 && !t.3 { continue; }
                if shape == 4 && v > 0 && !t.3 { continue; }
                if shape == 4 && v == 0 && t.3 && rng.chance(2, 3) { continue; }
                if shape == 3 && t.1 != 0 && rng.chance(1, 2) { continue; }
                break t;
            };
            ctr += 1;
            // sometimes re-use the name of a datum removed in this very step (legal: names are per variant)
            // field names: mostly f<n>; sometimes shapes that name-based shortcuts in a generator could trip over
            let name = if !freed_names.is_empty() && rng.chance(1, 3) { freed_names.remove(0) } else {
                match rng.below(12) { 0 => format!("f{}_mut", ctr), 1 => format!("_f{}", ctr), 2 => format!("get_f{}", ctr), 3 => format!("f{}_", ctr), 4 => format!("is_mut{}", ctr), _ => format!("f{}", ctr) }
            };
            let uninit = copy && (shape == 2 || (shape == 4 && v > 0) || rng.chance(1, 3));
            let id = b.add_datum_override::<(), _>(name.clone(), DatumDefinitionOverride { type_name: Some(ty.to_string()), size: Some(size), align: Some(align), allow_uninit: Some(uninit) }).unwrap();
            let id: usize = format!("{}", id).parse().unwrap();
            writeln!(req, "add {} {} {} {} {} override", name, ty, size, align, if uninit { 1 } else { 0 }).unwrap();
            live.push(id);
            names.insert(id, name);
        }
        let s = fixed.unwrap_or_else(|| rng.below(4));
        match s {
            0 => { b.close_record_variant_with(nvariant::simple); writeln!(req, "close simple").unwrap(); }
            1 => { b.close_record_variant_with(nvariant::basic); writeln!(req, "close basic").unwrap(); }
            2 => { b.close_record_variant_with(nvariant::append_data); writeln!(req, "close append").unwrap(); }
            _ => { b.close_record_variant_with(nvariant::append_data_reverse); writeln!(req, "close append_rev").unwrap(); }
        }
    }
    writeln!(req, "build").unwrap();
    b.build()
}

fn main() {
    let args: Vec<String> = std::env::args().collect();
    let seed: u64 = args[1].parse().unwrap();
    let ndefs: usize = args[2].parse().unwrap();
    let labdir = &args[3];
    let reqfile = &args[4];
    let mut rng = Rng::new(seed);
    let mut req = String::new();
    let mut main_rs = String::from("#![allow(unused_mut, unused_variables, dead_code, unused_imports, clippy::all)]\n#[macro_use]\nextern crate static_assertions;\nmod support;\nuse support::*;\n\n");
    let mut calls = String::new();
    verif_harness::silence_panics();
    let mut panics = String::new();
    let mut layouts = String::new();
    let mut i = 0usize;
    let mut attempts = 0usize;
    while i < ndefs && attempts < 4 * ndefs + 8 {
        attempts += 1;
        let mut r = rng.fork();
        // building or generating an accepted definition must not panic (C13): a panic is recorded with the requests
        // that led to it, and the module is skipped so that the other properties can still be examined
        let mut local = String::new();
        let built = std::panic::catch_unwind(std::panic::AssertUnwindSafe(|| {
            let def = build_def(&mut r, &mut local);
            let cfg = GeneratorConfig::default_with_custom_generators([Box::new(CloneImplGenerator) as Box<dyn FragmentGenerator>, Box::new(SerdeImplGenerator) as Box<dyn FragmentGenerator>]);
            let text = truc::generator::generate(&def, &cfg);
            (def, text)
        }));
        let (def, text) = match built {
            Ok(x) => x,
            Err(_) => {
                panics.push_str(&format!("PANIC while building / generating this definition\n{}--\n", local));
                continue;
            }
        };
        req.push_str(&local);
        // the real builder's layout of every variant, for the independent overlap / alignment oracle
        for (k, v) in def.variants().enumerate() {
            let items: Vec<String> = v.data_sorted().map(|d| { let dd = &def[d]; format!("{}:{}:{}:{}", dd.name(), dd.details().offset(), dd.details().size(), dd.details().type_align()) }).collect();
            layouts.push_str(&format!("m{} v{} {}\n", i, k, items.join(",")));
        }
        let m = format!("m{}", i);
        writeln!(main_rs, "mod {} {{\n    use crate::support::*;\n{}\n}}\n", m, text).unwrap();
        // every fourth definition: the other three fragment selections must compile too
        if i % 4 == 0 {
            for (k, custom) in [vec![], vec![0], vec![1]].into_iter().enumerate() {
                let gens: Vec<Box<dyn FragmentGenerator>> = custom.iter().map(|&c| if c == 0 { Box::new(CloneImplGenerator) as Box<dyn FragmentGenerator> } else { Box::new(SerdeImplGenerator) as Box<dyn FragmentGenerator> }).collect();
                let t = truc::generator::generate(&def, &GeneratorConfig::default_with_custom_generators(gens));
                writeln!(main_rs, "mod {}_cfg{} {{\n    use crate::support::*;\n{}\n}}\n", m, k, t).unwrap();
            }
        }
        let extra = [0usize, 0, 8, 3][i % 4];
        writeln!(req, "xmod {}", extra).unwrap();
        let mut g = Gen { rng: &mut r, req: String::new(), code: String::new(), vals: 100 * (i as u64 + 1), next_reg: 0, vs: variants_of(&def), m: m.clone(), extra };
        g.script();
        req.push_str(&g.req);
        writeln!(main_rs, "fn run_{}(out: &mut Out) {{\n    out.marker();\n{}}}\n", m, g.code).unwrap();
        writeln!(calls, "    run_m{}(&mut out);", i).unwrap();
        i += 1;
    }
    std::fs::create_dir_all(labdir).unwrap();
    std::fs::write(format!("{}/panics.txt", labdir), &panics).unwrap();
    std::fs::write(format!("{}/layouts.txt", labdir), layouts).unwrap();
    for (name, close) in [("mempty", false), ("mempty1", true)] {
        let built = std::panic::catch_unwind(|| {
            let mut b = NativeRecordDefinitionBuilder::new(HostTypeResolver);
            if close { b.close_record_variant(); }
            let def = b.build();
            let cfg = GeneratorConfig::default_with_custom_generators([Box::new(CloneImplGenerator) as Box<dyn FragmentGenerator>, Box::new(SerdeImplGenerator) as Box<dyn FragmentGenerator>]);
            (truc::generator::generate(&def, &cfg), truc::generator::generate(&def, &GeneratorConfig::default()))
        });
        match built {
            Ok((t1, t2)) => {
                writeln!(main_rs, "mod {} {{\n    use crate::support::*;\n{}\n}}\nmod {}_cfg0 {{\n    use crate::support::*;\n{}\n}}\n", name, t1, name, t2).unwrap();
            }
            Err(_) => panics.push_str(&format!("PANIC while building / generating this definition\nreset native 0 n\n{}build\n--\n", if close { "close simple\n" } else { "" })),
        }
    }
    std::fs::write(format!("{}/panics.txt", labdir), &panics).unwrap();
    writeln!(main_rs, "fn main() {{\n    let dir = std::env::args().nth(1).unwrap();\n    let mut out = Out::open(&dir);\n{}}}", calls).unwrap();
    std::fs::create_dir_all(format!("{}/src", labdir)).unwrap();
    std::fs::write(format!("{}/src/main.rs", labdir), main_rs).unwrap();
    std::fs::write(reqfile, req).unwrap();
}
