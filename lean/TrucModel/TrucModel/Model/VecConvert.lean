/-
  `try_convert_vec_in_place` (`truc_runtime/src/convert.rs`) as a machine over the vector's slots.
  The buffer is a list of slots; `fm` = `first_moved`, `ft` = `first_ttt`.  Reading a slot that is not
  a live input, storing over a live slot, handing out a "previous output" that is not a live output,
  or dropping a slot as the wrong kind are explicit errors (`VErr`): they are what the unsafe code
  would turn into use-after-move / leak / type confusion.
-/
namespace Truc.Vec

inductive Slot (T U : Type) where
  | inp (t : T)
  | out (u : U)
  | dead
deriving Repr, DecidableEq, Inhabited

/-- what one converter call does: its result, and the value it leaves in the previous output slot
    (it gets `&mut U` to it).  The converter owns its input; what it does with it is its business
    (`ConverterContract`). -/
inductive COut (U E P : Type) where
  | converted (u : U) (prev' : Option U)
  | abandoned (prev' : Option U)
  | err (e : E) (prev' : Option U)
  | panic (p : P) (prev' : Option U)
deriving Repr, Inhabited

inductive VErr where
  | readNotInput | overwriteLive | prevNotOutput | dropWrongKind
deriving Repr, DecidableEq, Inhabited

structure VS (T U : Type) where
  slots : List (Slot T U)
  fm : Nat
  ft : Nat
  calls : List (T × Option U)
deriving Repr, Inhabited

/-- how the call ends -/
inductive VOut (T U E P : Type) where
  /-- `Ok`: `set_len(first_moved)` + reinterpretation of the same allocation; `leaked` = live slots cut off -/
  | done (outs : List (Slot T U)) (leaked : List (Slot T U)) (calls : List (T × Option U))
  /-- `Err(e)` / re-raised panic `p`: what the cleanup dropped, what it left alive, whether the buffer was released -/
  | failed (why : Sum E P) (dropped : List (Slot T U)) (leaked : List (Slot T U)) (freed : Bool)
      (calls : List (T × Option U))
  /-- refused before taking ownership (layout assertions): the input vector is dropped normally -/
  | refused (dropped : List (Slot T U)) (calls : List (T × Option U))
  | ub (e : VErr)
deriving Repr, Inhabited, DecidableEq

def isLive {T U : Type} : Slot T U → Bool
  | .dead => false
  | _ => true

def isOut {T U : Type} : Slot T U → Bool
  | .out _ => true
  | _ => false

def isInp {T U : Type} : Slot T U → Bool
  | .inp _ => true
  | _ => false

/-- store through the `&mut U` the converter received -/
def writePrev {T U : Type} (slots : List (Slot T U)) (fm : Nat) (prev' : Option U) : List (Slot T U) :=
  match fm, prev' with
  | fm + 1, some u => slots.set fm (.out u)
  | _, _ => slots

/-- `clean_on_error`: drop `[0, fm)` as `U`, `[ft, len)` as `T`; after the fix the vector is emptied and released -/
def cleanup {T U E P : Type} (why : Sum E P) (slots : List (Slot T U)) (fm ft : Nat) (calls : List (T × Option U)) :
    VOut T U E P :=
  let outs := slots.take fm
  let ins := slots.drop ft
  if outs.all isOut && ins.all isInp then
    .failed why (outs ++ ins) (((slots.take ft).drop fm).filter isLive) true calls
  else .ub .dropWrongKind

variable {T U E P : Type}

/-- the `Option<&mut U>` handed to the converter: the slot before `first_moved`, which must hold a live output -/
def getPrev (slots : List (Slot T U)) (fm : Nat) : Except VErr (Option U) :=
  if fm > 0 then
    match slots[fm - 1]? with
    | some (.out u) => .ok (some u)
    | _ => .error .prevNotOutput
  else .ok none

/-- the `while first_ttt < slice.len()` loop; `fuel` ≥ number of remaining slots -/
def vloop (conv : Nat → T → Option U → COut U E P) : Nat → VS T U → VOut T U E P
  | 0, s => .done (s.slots.take s.fm) ((s.slots.drop s.fm).filter isLive) s.calls
  | fuel + 1, s =>
    if s.ft < s.slots.length then
      match s.slots[s.ft]? with
      | some (.inp t) =>
        let slots1 := s.slots.set s.ft .dead           -- copy_nonoverlapping out of the slot
        let ft1 := s.ft + 1                             -- `first_ttt += 1` before the call
        match getPrev slots1 s.fm with
        | .error e => .ub e
        | .ok prev =>
          let calls1 := s.calls ++ [(t, prev)]
          match conv s.calls.length t prev with
          | .converted u prev' =>
            let slots2 := writePrev slots1 s.fm prev'
            match slots2[s.fm]? with
            | some .dead => vloop conv fuel ⟨slots2.set s.fm (.out u), s.fm + 1, ft1, calls1⟩
            | _ => .ub .overwriteLive
          | .abandoned prev' => vloop conv fuel ⟨writePrev slots1 s.fm prev', s.fm, ft1, calls1⟩
          | .err e prev' => cleanup (.inl e) (writePrev slots1 s.fm prev') s.fm ft1 calls1
          | .panic p prev' => cleanup (.inr p) (writePrev slots1 s.fm prev') s.fm ft1 calls1
      | _ => .ub .readNotInput
    else .done (s.slots.take s.fm) ((s.slots.drop s.fm).filter isLive) s.calls

/-- the whole function: the two layout assertions come first -/
def tryConvert (layoutT layoutU : Nat × Nat) (conv : Nat → T → Option U → COut U E P) (input : List T) :
    VOut T U E P :=
  if layoutT.1 ≠ layoutU.1 ∨ layoutT.2 ≠ layoutU.2 then .refused (input.map .inp) []
  else vloop conv input.length ⟨input.map .inp, 0, 0, []⟩

/-! ### the specification: a plain left-to-right pass over the input list -/

def setLast (outs : List U) (prev' : Option U) : List U :=
  match outs.length, prev' with
  | n + 1, some u => outs.set n u
  | _, _ => outs

inductive SpecOut (T U E P : Type) where
  | ok (outs : List U) (calls : List (T × Option U))
  | failed (why : Sum E P) (outs : List U) (rest : List T) (calls : List (T × Option U))
deriving Repr, Inhabited

def spec (conv : Nat → T → Option U → COut U E P) : List T → List U → List (T × Option U) → SpecOut T U E P
  | [], outs, calls => .ok outs calls
  | t :: rest, outs, calls =>
    let prev := outs.getLast?
    let calls1 := calls ++ [(t, prev)]
    match conv calls.length t prev with
    | .converted u prev' => spec conv rest (setLast outs prev' ++ [u]) calls1
    | .abandoned prev' => spec conv rest (setLast outs prev') calls1
    | .err e prev' => .failed (.inl e) (setLast outs prev') rest calls1
    | .panic p prev' => .failed (.inr p) (setLast outs prev') rest calls1

end Truc.Vec
