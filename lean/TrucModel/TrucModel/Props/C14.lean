import TrucModel.Proofs.StaticProps
/-
  C14 — A record is sendable or shareable across threads only if all its fields are.
  Full statement: `recordSend env s ↔ ∀ x ∈ s.data, env.send x.ty` (same for `Sync`), under the
  structural auto-trait rule.  The `←` direction holds; the `→` direction is FALSE of the code as it
  is: every generated record struct has the single field `data: RecordMaybeUninit<CAP>` (raw bytes)
  and no marker of its field types, so it is `Send + Sync` whatever it stores.  Known finding K1
  (not repairable without changing the emitted struct, which the unedited tests compare).
-/
namespace Truc.Static
open Truc.Gen

/-- "it can whenever all of them can" -/
theorem C14_if_partial (env : TyEnv) (s : Spec) (_h : ∀ x ∈ s.data, env.send x.ty = true ∧ env.sync x.ty = true) :
    recordSend env s = true ∧ recordSync env s = true := by
  simp [recordSend, recordSync, recordFieldTypes]

/-- "only if": refuted by a record holding an `Rc` -/
theorem C14_only_if_refuted :
    ∃ (env : TyEnv) (s : Spec), recordSend env s = true ∧ recordSync env s = true ∧
      ∃ x ∈ s.data, env.send x.ty = false ∧ env.sync x.ty = false :=
  ⟨{ size := fun _ => 8, align := fun _ => 8, copy := fun _ => false, send := fun _ => false, sync := fun _ => false },
   { vid := 0, align := 8, data := [⟨0, "rc", "std::rc::Rc<u8>", 8, 8, 0, false⟩], minus := [], plus := [], hasPrev := false, prevVid := 0 },
   by simp [recordSend, recordFieldTypes], by simp [recordSync, recordFieldTypes], _, List.mem_singleton.2 rfl, rfl, rfl⟩

/-- the emitted record struct indeed has that single byte-buffer field, for every variant -/
theorem C14_record_struct_shape (s : Spec) :
    fragRecord s = [.raw (s!"#[repr(align({s.align}))]pub struct {capped s.vid}<{CAPG}>" ++ "{data:RecordMaybeUninit<CAP>,}"),
                    .raw (s!"pub type Record{s.vid}={capped s.vid}<" ++ "{MAX_SIZE}>;")] := rfl

end Truc.Static
