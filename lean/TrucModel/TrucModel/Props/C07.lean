import TrucModel.Proofs.Memory
import TrucModel.Generated.Primitives
import TrucModel.Proofs.Corollaries
import TrucModel.Proofs.Reachable
import TrucModel.Proofs.MachineWFProps
/-
  C07 — Generated code only touches storage it owns, aligned, with the right type.
-/
namespace Truc.Mach
open Truc.Gen Truc.Generated

/-- constructors and conversions store into a *bare local* buffer (`RecordMaybeUninit<CAP>`, alignment
    1): the store primitive must therefore not require alignment.  Decided on the translated source. -/
theorem C07_store_tolerates_misalignment : primWrite.access = .ptrWriteUnaligned := by decide

/-- typed loads and references do require alignment … -/
theorem C07_loads_are_typed : primRead.access = .ptrRead ∧ primGet.access = .refShared ∧ primGetMut.access = .refMut := by
  decide

/-- … and have it: they are only issued on the buffer *inside* a `#[repr(align(A))]` record, whose
    address is a multiple of `A` wherever it lives; `A` is a multiple of the field's alignment
    (C02_record_align) which divides the field's offset (C02_aligned). -/
theorem C07_aligned_access (base off a A : Nat) (hbase : A ∣ base) (haA : a ∣ A) (hoff : a ∣ off) : a ∣ base + off :=
  Nat.dvd_add (Nat.dvd_trans haA hbase) hoff

/-- every access lies inside the capacity: the machine's `oob` error needs `off + size > cap` -/
theorem C07_in_bounds (dr : String → Bool) (b : Buf) (d : D) (h : d.offset + d.size ≤ b.cap) :
    b.load dr d ≠ .error .oob := by
  unfold Buf.load
  rw [if_neg (by omega)]
  cases b.find d with
  | some e => simp
  | none => by_cases hd : dr d.ty = true <;> simp [hd]

/-- **no machine error, ever.** The machine's errors are exactly the property's clauses (`oob`: outside
    the capacity; `readMoved`: a droppable value read where none of that type is currently stored /
    already moved out; `storeOverOwned`: a store landing on a value the record still owns;
    `doubleFree`: drop glue finding a moved value).  On every record reached by any sequence of
    constructor / conversion / write, of a well-formed module with any capacity `cap` (= `MAX_SIZE` or
    larger): dropping, unpacking, every read accessor and every conversion form run to completion. -/
theorem C07_no_machine_error (dr : String → Bool) (cap : Nat) (specs : List Spec) (hm : ModuleWF dr cap specs)
    (k : Nat) (b : Buf) (h : Reach dr cap specs k b) :
    ∃ s, specs[k]? = some s ∧
      (∃ st, call dr cap (dropFn s) { self_ := some b } = .ok st) ∧
      ("record" ∉ s.data.map (·.name) → ∃ st, call dr cap (unpackFn s) { self_ := some b, selfGlue := some s.data } = .ok st) ∧
      (∀ d ∈ s.data, ∀ sig, ∃ st, call dr cap ⟨sig, [.get d]⟩ { self_ := some b } = .ok st) ∧
      (∀ s', specs[k + 1]? = some s' → ∀ uninit andOut vals, vals.length = (plusWritten s' uninit).length →
        (∀ p ∈ (plusWritten s' uninit).zip vals, p.2.ty = p.1.ty) →
        ∃ st, call dr cap (convFn s' uninit andOut)
          { from_ := some b, fromGlue := some s.data, args := [("plus", fieldsOf (plusWritten s' uninit) vals)] } = .ok st) := by
  obtain ⟨s, hs, hc, hinv⟩ := reach_inv dr cap specs hm k b h
  have hwf := hm.data s (List.mem_of_getElem? hs)
  refine ⟨s, hs, ?_, ?_, ?_, ?_⟩
  · obtain ⟨st, h1, _⟩ := drop_inv_ok dr cap s b hc hwf hinv; exact ⟨st, h1⟩
  · intro hrec; obtain ⟨st, h1, _⟩ := unpack_inv_ok dr cap s b hc hwf hrec hinv; exact ⟨st, h1⟩
  · intro d hd sig; exact ⟨_, get_inv_ok dr cap sig s b hc hwf hinv d hd⟩
  · intro s' hs' uninit andOut vals hl hty
    obtain ⟨hcw, hrec, hz⟩ := hm.conv k s s' hs hs'
    have hpod : ∀ d ∈ s'.plus, d.uninit = true → dr d.ty = false :=
      fun d hd => hm.pod s' (List.mem_of_getElem? hs') d (hcw.plusSub.subset hd)
    obtain ⟨b2, st, hcall, _⟩ := conv_ok dr cap s s' uninit andOut hcw b hc hinv hrec hpod hz vals hl hty
    exact ⟨st, hcall⟩

/-- the executable premise check the driver evaluates on every compiled module (`xmod` answers `wf=…`) decides
    `ModuleWF` exactly, so wherever it answered `true` the theorem above applies to that very module … -/
theorem C07_premise_check_decides (dr : String → Bool) (cap : Nat) (specs : List Spec) :
    moduleWFB dr cap specs = true ↔ ModuleWF dr cap specs :=
  moduleWFB_iff dr cap specs

/-- … in one statement: a module that passes the check has no machine error on any reachable record -/
theorem C07_checked_module_no_error (dr : String → Bool) (cap : Nat) (specs : List Spec)
    (hchk : moduleWFB dr cap specs = true) (k : Nat) (b : Buf) (h : Reach dr cap specs k b) :
    ∃ s, specs[k]? = some s ∧ (∃ st, call dr cap (dropFn s) { self_ := some b } = .ok st) ∧
      (∀ d ∈ s.data, ∀ sig, ∃ st, call dr cap ⟨sig, [.get d]⟩ { self_ := some b } = .ok st) := by
  obtain ⟨s, hs, hd, _, hg, _⟩ := C07_no_machine_error dr cap specs ((moduleWFB_iff dr cap specs).1 hchk) k b h
  exact ⟨s, hs, hd, hg⟩

/-- non-vacuity: the check accepts a two-variant module (a carried-over field, one removed, one added) and rejects one whose
    fields overlap -/
example :
    let a : D := ⟨0, "a", "u32", 4, 4, 0, false⟩
    let b : D := ⟨1, "b", "String", 24, 8, 8, false⟩
    let c : D := ⟨2, "c", "u16", 2, 2, 4, true⟩
    let c' : D := ⟨2, "c", "u16", 2, 2, 2, true⟩
    moduleWFB (fun t => t == "String") 32 [⟨0, 8, [a, b], [], [], false, 0⟩, ⟨1, 4, [a, c], [b], [c], true, 0⟩] = true ∧
    moduleWFB (fun t => t == "String") 32 [⟨0, 8, [a, b], [], [], false, 0⟩, ⟨1, 4, [a, c'], [b], [c'], true, 0⟩] = false := by
  decide +kernel

example : (4 : Nat) ∣ 64 + 12 := C07_aligned_access 64 12 4 16 (by decide) (by decide) (by decide)

end Truc.Mach
