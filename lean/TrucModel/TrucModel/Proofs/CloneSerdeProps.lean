import TrucModel.Model.CloneSerde
/-
  Helper lemmas about the visitor's element loop (used by C15).
-/
namespace Truc.Frag
open Truc.Gen Truc.Mach

theorem readElems_roundtrip (dr : String → Bool) : ∀ (ds : List D) (vals acc : List Val) (k : Nat),
    vals.length = ds.length → readElems dr k ds (serialize vals) acc = .ok (acc ++ vals) := by
  intro ds
  induction ds with
  | nil => intro vals acc k h; simp at h; subst h; simp [readElems, serialize]
  | cons d ds ih =>
    intro vals acc k h
    cases vals with
    | nil => simp at h
    | cons v vs =>
      simp only [serialize, List.map_cons, readElems]
      have := ih vs (acc ++ [v]) (k + 1) (by simpa using h)
      simp only [serialize] at this
      rw [this]; simp

theorem readElems_short (dr : String → Bool) : ∀ (ds : List D) (vals acc : List Val) (k : Nat),
    vals.length < ds.length →
    readElems dr k ds (serialize vals) acc = .err (.missingField (k + vals.length)) ((acc ++ vals).filter fun x => dr x.ty) := by
  intro ds
  induction ds with
  | nil => intro vals acc k h; simp at h
  | cons d ds ih =>
    intro vals acc k h
    cases vals with
    | nil => simp [serialize, readElems]
    | cons v vs =>
      simp only [serialize, List.map_cons, readElems]
      have := ih vs (acc ++ [v]) (k + 1) (by simpa using h)
      simp only [serialize] at this
      rw [this]
      simp [Nat.add_comm, Nat.add_left_comm]

end Truc.Frag
