import TrucModel.Proofs.VecSpec
/-
  C08 — In-place vector conversion returns exactly the converted elements, in place.
  For every input vector (any length), every converter that never fails (arbitrary function of the
  call index, the input element and the previous output, free to modify the previous output), the
  unsafe loop — modelled slot by slot with use-after-move / overwrite / type-confusion as explicit
  errors — behaves exactly like the plain left-to-right pass `spec`.
-/
namespace Truc.Vec

variable {T U E P : Type}

/-- the loop never hits a memory error and returns exactly what the left-to-right pass produces, in
    the same allocation (`done`), cutting off nothing live (`leaked = []`) -/
theorem C08_result (lay : Nat × Nat) (conv : Nat → T → Option U → COut U E P) (h : neverFails conv) (input : List T) :
    ∃ outs calls, spec conv input [] [] = .ok outs calls ∧
      tryConvert lay lay conv input = .done (outs.map .out) [] calls := by
  obtain ⟨outs, calls, hs⟩ := spec_ok_of_neverFails conv h input [] []
  exact ⟨outs, calls, hs, by rw [tryConvert_refines, hs]; rfl⟩

/-- the converter receives each input element exactly once, in order … -/
theorem C08_calls (conv : Nat → T → Option U → COut U E P) (input : List T) (outs : List U)
    (calls : List (T × Option U)) (h : spec conv input [] [] = .ok outs calls) : calls.map (·.1) = input := by
  simpa using spec_ok_calls conv input [] [] outs calls h

/-- … together with the most recently produced output (none before the first): unfolding of `spec` -/
theorem C08_prev_is_last_output (conv : Nat → T → Option U → COut U E P) (t : T) (rest : List T) (outs : List U)
    (calls : List (T × Option U)) (u : U) (p' : Option U) (hc : conv calls.length t outs.getLast? = .converted u p') :
    spec conv (t :: rest) outs calls = spec conv rest (setLast outs p' ++ [u]) (calls ++ [(t, outs.getLast?)]) := by
  conv => lhs; unfold spec
  simp only [hc]

/-- abandoned elements are skipped: an always-abandoning converter yields the empty vector -/
theorem C08_all_abandoned (lay : Nat × Nat) (input : List T) :
    ∃ calls, tryConvert (E := E) (P := P) (U := U) lay lay (fun _ _ _ => .abandoned none) input = .done [] [] calls := by
  have hnf : neverFails (E := E) (P := P) (fun (_ : Nat) (_ : T) (_ : Option U) => COut.abandoned none) :=
    fun _ _ _ => Or.inr ⟨none, rfl⟩
  obtain ⟨outs, calls, hs, hr⟩ := C08_result lay _ hnf input
  suffices outs = [] by subst this; exact ⟨calls, hr⟩
  clear hr
  suffices h : ∀ (input : List T) (calls : List (T × Option U)) (outs : List U) calls',
      spec (E := E) (P := P) (fun _ _ _ => COut.abandoned none) input [] calls = .ok outs calls' → outs = [] from
    h input [] outs calls hs
  intro input
  induction input with
  | nil => intro calls outs calls' h; simp only [spec, SpecOut.ok.injEq] at h; exact h.1.symm
  | cons t rest ih =>
    intro calls outs calls' h
    unfold spec at h
    simp only [setLast, List.length_nil] at h
    exact ih _ _ _ h

/-- the everyday case, stated outright: a converter that converts every element with a function `f`
    and hands the previous output back untouched turns the vector into `input.map f` — same length,
    same order, in the same allocation, nothing leaked — for every input of every length -/
theorem C08_map (lay : Nat × Nat) (f : T → U) (conv : Nat → T → Option U → COut U E P)
    (hc : ∀ k t p, conv k t p = .converted (f t) p) (input : List T) :
    ∃ calls, tryConvert lay lay conv input = .done ((input.map f).map .out) [] calls := by
  obtain ⟨calls, hs⟩ := spec_map f conv hc input [] []
  exact ⟨calls, by rw [tryConvert_refines, hs]; rfl⟩

example : tryConvert (E := Unit) (P := Unit) (8, 8) (8, 8)
    (fun _ (t : Nat) (p : Option Nat) => .converted (t * 10) p) [1, 2, 3]
    = .done [.out 10, .out 20, .out 30] [] [(1, none), (2, some 10), (3, some 20)] := by decide +kernel

/-- non-vacuity: a concrete converter that converts, touches the previous output and abandons -/
example : tryConvert (E := Unit) (P := Unit) (8, 8) (8, 8)
    (fun k (t : Nat) (p : Option Nat) =>
      if k = 1 then .abandoned (p.map (· + 100)) else .converted (t * 10) p) [1, 2, 3]
    = .done [.out 110, .out 30] [] [(1, none), (2, some 10), (3, some 110)] := by decide +kernel

end Truc.Vec
