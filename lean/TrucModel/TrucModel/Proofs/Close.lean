import TrucModel.Proofs.Layout
/-
  What one variant close must achieve (`CloseOk`), and the proofs for `append_data`,
  `append_data_reverse` and `basic`.
-/
namespace Truc

/-- what the builder guarantees about the additions handed to a strategy -/
structure Fresh (defs : Defs) (base add : List Nat) : Prop where
  notin    : ∀ a ∈ add, a ∉ base
  inRange  : ∀ a ∈ add, a < defs.length
  nodup    : add.Nodup
  alignPos : ∀ a ∈ add, 0 < al defs a

/-- the structural half: membership, and the collection changes only at the offsets of the additions -/
structure CloseFrame (defs : Defs) (base add : List Nat) (defs' : Defs) (l' : List Nat) : Prop where
  perm  : l'.Perm (base ++ add)
  len   : defs'.length = defs.length
  frame : ∀ id, id ∉ add → info defs' id = info defs id
  shape : ∀ id, sameShape (info defs' id) (info defs id)

structure CloseOk (defs : Defs) (base add : List Nat) (defs' : Defs) (l' : List Nat) : Prop
    extends CloseFrame defs base add defs' l' where
  inv : LInv defs' l'

theorem CloseFrame.nil (defs : Defs) (l : List Nat) : CloseFrame defs l [] defs l :=
  ⟨by simp, rfl, fun _ _ => rfl, fun _ => sameShape_refl _⟩

/-- composing "place `id` (anywhere in the list)" with the rest of the loop -/
theorem CloseFrame.cons {defs : Defs} {l : List Nat} {id o : Nat} {rest l1 : List Nat} {defs' : Defs} {l' : List Nat}
    (hperm1 : l1.Perm (id :: l))
    (h : CloseFrame (setOffset defs id o) l1 rest defs' l') : CloseFrame defs l (id :: rest) defs' l' := by
  refine ⟨?_, ?_, ?_, ?_⟩
  · refine h.perm.trans ?_
    refine (List.Perm.append_right rest hperm1).trans ?_
    simpa using (List.perm_middle (l₁ := l) (l₂ := rest) (a := id)).symm
  · rw [h.len]; simp
  · intro j hj
    have hj1 : j ≠ id := fun e => hj (e ▸ List.mem_cons_self)
    have hj2 : j ∉ rest := fun e => hj (List.mem_cons_of_mem _ e)
    rw [h.frame j hj2, info_setOffset]; simp [hj1]
  · intro j
    exact sameShape_trans (h.shape j) (sameShape_setOffset defs id o j)

theorem Fresh.tail {defs : Defs} {l : List Nat} {id : Nat} {rest l1 : List Nat} (o : Nat)
    (hf : Fresh defs l (id :: rest)) (hperm1 : l1.Perm (id :: l)) :
    Fresh (setOffset defs id o) l1 rest := by
  have hnd := List.nodup_cons.1 hf.nodup
  refine ⟨?_, ?_, hnd.2, ?_⟩
  · intro a ha hin
    rw [hperm1.mem_iff] at hin
    rcases List.mem_cons.1 hin with rfl | hin
    · exact hnd.1 ha
    · exact hf.notin a (List.mem_cons_of_mem _ ha) hin
  · intro a ha; simpa using hf.inRange a (List.mem_cons_of_mem _ ha)
  · intro a ha; simpa using hf.alignPos a (List.mem_cons_of_mem _ ha)

/-! ### append_data / append_data_reverse -/

theorem pushAll_ok (add : List Nat) : ∀ (defs : Defs) (l : List Nat), LInv defs l → Fresh defs l add →
    CloseOk defs l add (pushAll defs l add).1 (pushAll defs l add).2 := by
  induction add with
  | nil => intro defs l h _; exact { CloseFrame.nil defs l with inv := h }
  | cons id rest ih =>
    intro defs l h hf
    have hid : id ∉ l := hf.notin id List.mem_cons_self
    have hlt : id < defs.length := hf.inRange id List.mem_cons_self
    have hpos : 0 < al defs id := hf.alignPos id List.mem_cons_self
    have h1 := h.push hid hlt hpos
    have hperm1 : (l ++ [id]).Perm (id :: l) := by simpa using (List.perm_append_singleton id l)
    unfold pushDatum at h1; simp only at h1
    have hf1 := hf.tail (alignUp (endOf defs l) (al defs id)) hperm1
    have := ih _ _ h1 hf1
    unfold pushAll pushDatum; simp only
    exact { CloseFrame.cons hperm1 this.toCloseFrame with inv := this.inv }

theorem Fresh.reverse {defs : Defs} {l add : List Nat} (hf : Fresh defs l add) : Fresh defs l add.reverse :=
  ⟨fun a ha => hf.notin a (List.mem_reverse.1 ha), fun a ha => hf.inRange a (List.mem_reverse.1 ha),
   (List.reverse_perm add).nodup_iff.2 hf.nodup, fun a ha => hf.alignPos a (List.mem_reverse.1 ha)⟩

theorem CloseOk.of_reverse {defs : Defs} {l add : List Nat} {defs' : Defs} {l' : List Nat}
    (h : CloseOk defs l add.reverse defs' l') : CloseOk defs l add defs' l' :=
  { inv := h.inv
    perm := h.perm.trans (List.Perm.append_left l (List.reverse_perm add))
    len := h.len
    frame := fun id hid => h.frame id (fun hm => hid (List.mem_reverse.1 hm))
    shape := h.shape }

/-! ### basic -/

/-- `J`: everything listed before the data caret ends at or before the byte caret -/
def BasicJ (defs : Defs) (data : List Nat) (dc bc : Nat) : Prop :=
  dc ≤ data.length ∧ ∀ e ∈ data.take dc, stop defs e ≤ bc

theorem basicScan_spec (defs : Defs) (data : List Nat) (dsz dal : Nat) (hpos : 0 < dal) (hs : Sorted defs data) :
    ∀ (dc bc : Nat), BasicJ defs data dc bc →
      let r := basicScan defs data dsz dal dc bc
      BasicJ defs data r.1 r.2 ∧
      (∀ e ∈ data.drop r.1, alignUp r.2 dal + dsz ≤ off defs e) := by
  intro dc bc
  fun_induction basicScan defs data dsz dal dc bc with
  | case1 dc hlt c ih =>
    intro hJ
    apply ih
    refine ⟨by omega, ?_⟩
    intro e he
    rw [List.take_add_one, List.mem_append] at he
    rcases he with he | he
    · have := hJ.2 e he; omega
    · simp [List.getElem?_eq_getElem hlt] at he
      subst he; exact Nat.le_refl _
  | case2 dc bc hlt c hne bc' hfit =>
    intro hJ
    refine ⟨⟨hJ.1, ?_⟩, ?_⟩
    · intro e he
      have := hJ.2 e he
      have := le_alignUp bc dal hpos
      show stop defs e ≤ bc'
      omega
    · intro e he
      show alignUp bc' dal + dsz ≤ off defs e
      rw [alignUp_of_dvd bc' dal hpos (alignUp_dvd bc dal)]
      -- e is at or after position dc: it starts at or after `c`
      rw [List.drop_eq_getElem_cons hlt] at he
      rcases List.mem_cons.1 he with rfl | he
      · exact hfit
      · have hc : data[dc] ∈ data.take (dc + 1) := by
          rw [List.mem_take_iff_getElem]; exact ⟨dc, by omega, rfl⟩
        have hsplit : Sorted defs (data.take (dc + 1) ++ data.drop (dc + 1)) := by rw [List.take_append_drop]; exact hs
        unfold Sorted at hsplit
        rw [List.pairwise_append] at hsplit
        have := hsplit.2.2 _ hc e he
        unfold stop at this
        have hfit' : bc' + dsz ≤ off defs data[dc] := hfit
        omega
  | case3 dc bc hlt c hne bc' hnofit ih =>
    intro hJ
    apply ih
    refine ⟨by omega, ?_⟩
    intro e he
    rw [List.take_add_one, List.mem_append] at he
    rcases he with he | he
    · -- sortedness: e ends before c starts
      have hcd : data[dc] ∈ data.drop dc := by rw [List.drop_eq_getElem_cons hlt]; exact List.mem_cons_self
      have hsplit : Sorted defs (data.take dc ++ data.drop dc) := by rw [List.take_append_drop]; exact hs
      unfold Sorted at hsplit
      rw [List.pairwise_append] at hsplit
      have := hsplit.2.2 e he _ hcd
      show stop defs e ≤ off defs data[dc] + sz defs data[dc]
      omega
    · simp [List.getElem?_eq_getElem hlt] at he
      subst he; exact Nat.le_refl _
  | case4 dc bc hge =>
    intro hJ
    refine ⟨hJ, ?_⟩
    intro e he
    rw [List.drop_eq_nil_of_le (by omega)] at he
    simp at he

theorem basicLoop_ok (add : List Nat) : ∀ (defs : Defs) (data : List Nat) (dc bc : Nat),
    LInv defs data → Fresh defs data add → BasicJ defs data dc bc →
    ∃ defs' l', basicLoop defs data dc bc add = some (defs', l') ∧ CloseOk defs data add defs' l' := by
  induction add with
  | nil => intro defs data dc bc h _ _; exact ⟨defs, data, rfl, { CloseFrame.nil defs data with inv := h }⟩
  | cons id rest ih =>
    intro defs data dc bc h hf hJ
    have hid : id ∉ data := hf.notin id List.mem_cons_self
    have hlt : id < defs.length := hf.inRange id List.mem_cons_self
    have hpos : 0 < al defs id := hf.alignPos id List.mem_cons_self
    have hscan := basicScan_spec defs data (sz defs id) (al defs id) hpos h.sorted dc bc hJ
    simp only at hscan
    unfold basicLoop
    generalize hr : basicScan defs data (sz defs id) (al defs id) dc bc = r at hscan
    obtain ⟨dc', bc'⟩ := r
    simp only at hscan ⊢
    obtain ⟨⟨hdc, hbefore⟩, hafter⟩ := hscan
    rw [insertAt?_of_le hdc]
    simp only
    have hb' : ∀ e ∈ data.take dc', stop defs e ≤ alignUp bc' (al defs id) := fun e he =>
      Nat.le_trans (hbefore e he) (le_alignUp _ _ hpos)
    have h1 := h.insert (k := dc') (o := alignUp bc' (al defs id)) hid hlt hb' hafter (alignUp_dvd _ _)
    have hperm1 := perm_insert data dc' id
    have hf1 := hf.tail (alignUp bc' (al defs id)) hperm1
    have hJ1 : BasicJ (setOffset defs id (alignUp bc' (al defs id))) (data.take dc' ++ id :: data.drop dc') dc' (alignUp bc' (al defs id)) := by
      refine ⟨by simp; omega, ?_⟩
      intro e he
      have hlen : (data.take dc').length = dc' := by simp; omega
      rw [List.take_append_of_le_length (by omega)] at he
      rw [List.take_of_length_le (by omega)] at he
      have hel : e ∈ data := List.mem_of_mem_take he
      rw [stop_setOffset_ne _ _ _ _ (fun (heq : e = id) => hid (heq ▸ hel))]
      exact hb' e he
    obtain ⟨defs', l', heq, hok⟩ := ih _ _ _ _ h1 hf1 hJ1
    exact ⟨defs', l', heq, { CloseFrame.cons hperm1 hok.toCloseFrame with inv := hok.inv }⟩

end Truc
