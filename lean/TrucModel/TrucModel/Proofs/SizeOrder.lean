import TrucModel.Proofs.BuilderProps
/-
  The size-ordered traversal of the pending additions in the `simple` strategy
  (`BTreeMap<usize, Vec<_>>`, `.into_values().rev().flatten()`): sorted by decreasing size and
  *stable* — inside one size class the request order is kept.  Used by C19.
-/
namespace Truc

def SizeDesc (defs : Defs) (l : List Nat) : Prop := l.Pairwise (fun a b => sz defs b ≤ sz defs a)

theorem insertBySize_mem (defs : Defs) (id : Nat) (xs : List Nat) (y : Nat) :
    y ∈ insertBySize defs id xs ↔ y = id ∨ y ∈ xs := by
  have := (insertBySize_perm defs id xs).mem_iff (a := y)
  simpa using this

theorem insertBySize_sorted (defs : Defs) (id : Nat) (xs : List Nat) (h : SizeDesc defs xs) :
    SizeDesc defs (insertBySize defs id xs) := by
  induction xs with
  | nil => simp [insertBySize, SizeDesc]
  | cons x xs ih =>
    unfold SizeDesc at h ih ⊢
    rw [List.pairwise_cons] at h
    unfold insertBySize
    split
    · rename_i hlt
      refine List.pairwise_cons.2 ⟨?_, List.pairwise_cons.2 h⟩
      intro b hb
      rcases List.mem_cons.1 hb with rfl | hb
      · omega
      · have := h.1 b hb; omega
    · rename_i hge
      refine List.pairwise_cons.2 ⟨?_, ih h.2⟩
      intro b hb
      rcases (insertBySize_mem defs id xs b).1 hb with rfl | hb
      · omega
      · exact h.1 b hb

theorem insertBySize_filter (defs : Defs) (id : Nat) (k : Nat) (xs : List Nat) (h : SizeDesc defs xs) :
    (insertBySize defs id xs).filter (fun d => sz defs d = k) =
      xs.filter (fun d => sz defs d = k) ++ (if sz defs id = k then [id] else []) := by
  induction xs with
  | nil => simp [insertBySize, List.filter_cons]
  | cons x xs ih =>
    unfold SizeDesc at h ih
    rw [List.pairwise_cons] at h
    unfold insertBySize
    split
    · rename_i hlt
      by_cases hk : sz defs id = k
      · have hnone : (x :: xs).filter (fun d => decide (sz defs d = k)) = [] := by
          rw [List.filter_eq_nil_iff]
          intro b hb
          rcases List.mem_cons.1 hb with rfl | hb
          · simp; omega
          · have := h.1 b hb; simp; omega
        rw [List.filter_cons, hnone]; simp [hk]
      · rw [List.filter_cons]; simp [hk]
    · rw [List.filter_cons, List.filter_cons, ih h.2]
      split <;> simp

theorem sortBySizeDesc_aux (defs : Defs) (k : Nat) (add acc : List Nat) (h : SizeDesc defs acc) :
    SizeDesc defs (add.foldl (fun acc id => insertBySize defs id acc) acc) ∧
    (add.foldl (fun acc id => insertBySize defs id acc) acc).filter (fun d => sz defs d = k) =
      acc.filter (fun d => sz defs d = k) ++ add.filter (fun d => sz defs d = k) := by
  induction add generalizing acc with
  | nil => simp [h]
  | cons a rest ih =>
    simp only [List.foldl_cons]
    have hs := insertBySize_sorted defs a acc h
    obtain ⟨h1, h2⟩ := ih (insertBySize defs a acc) hs
    refine ⟨h1, ?_⟩
    rw [h2, insertBySize_filter defs a k acc h, List.filter_cons]
    split <;> simp [*]

theorem sortBySizeDesc_sorted (defs : Defs) (add : List Nat) : SizeDesc defs (sortBySizeDesc defs add) :=
  (sortBySizeDesc_aux defs 0 add [] List.Pairwise.nil).1

theorem sortBySizeDesc_stable (defs : Defs) (add : List Nat) (k : Nat) :
    (sortBySizeDesc defs add).filter (fun d => sz defs d = k) = add.filter (fun d => sz defs d = k) := by
  have := (sortBySizeDesc_aux defs k add [] List.Pairwise.nil).2
  simpa [sortBySizeDesc] using this

end Truc
