/-
  Model of truc's layout data: datum descriptions, the datum collection, and the helpers of
  `builder/native/variant/mod.rs` (`align_bytes`, `end`, `remove_data`, `push_datum`).
  Core Lean only (the driver links against this).
-/
namespace Truc

/-- `NativeDatumDetails` + name of a `DatumDefinition`. The id of a datum is its index in `Defs`. -/
structure Info where
  name   : String
  ty     : String
  size   : Nat
  align  : Nat
  offset : Nat
  uninit : Bool
deriving Repr, DecidableEq, Inhabited

/-- `usize::MAX`, written as the offset by every `add_*` entry point. -/
def UNSET : Nat := 2 ^ 64 - 1

/-- `DatumDefinitionCollection`: append-only, id = index. -/
abbrev Defs := List Info

def Info.dummy : Info := ⟨"", "", 0, 1, UNSET, false⟩

/-- `datum_definitions.get(id).unwrap_or_else(panic)`; ids of reachable states are always in range
    (lemma `Reach.ids_lt`), the default is never used there. -/
def info (defs : Defs) (id : Nat) : Info := (defs[id]?).getD Info.dummy

def off (defs : Defs) (id : Nat) : Nat := (info defs id).offset
def sz (defs : Defs) (id : Nat) : Nat := (info defs id).size
def al (defs : Defs) (id : Nat) : Nat := (info defs id).align
def stop (defs : Defs) (id : Nat) : Nat := off defs id + sz defs id

/-- `datum_mut.details_mut().offset = o` -/
def setOffset (defs : Defs) (id : Nat) (o : Nat) : Defs :=
  defs.modify id (fun i => { i with offset := o })

/-- hand copy of `align_bytes` (`Generated.alignBytes` is the translated one; proved equal). -/
def alignUp (caret align : Nat) : Nat := (caret + align - 1) / align * align

/-- `NativeDataUpdater::end` -/
def endOf (defs : Defs) (l : List Nat) : Nat :=
  match l.getLast? with
  | some d => stop defs d
  | none => 0

/-- `NativeDataUpdater::remove_data` (`retain`) -/
def removeData (l : List Nat) (rm : List Nat) : List Nat :=
  l.filter (fun d => !rm.contains d)

/-- `NativeDataUpdater::push_datum`; returns (defs, list, end, offset). -/
def pushDatum (defs : Defs) (l : List Nat) (id : Nat) : Defs × List Nat × Nat × Nat :=
  let e := endOf defs l
  let o := alignUp e (al defs id)
  (setOffset defs id o, l ++ [id], e, o)

end Truc
