import TrucModel.Proofs.Corollaries
import TrucModel.Props.Examples
import TrucModel.Proofs.GenProps
/-
  C02 — Every datum is aligned, inside the published capacity, listed in address order.
-/
namespace Truc

/-- every datum's offset is a multiple of its alignment -/
theorem C02_aligned (reqs : List Req) (hv : ∀ r ∈ reqs, r.valid) :
    ∀ v ∈ (run reqs).variants, ∀ d ∈ v, al (run reqs).defs d ∣ off (run reqs).defs d :=
  fun v hvm d hd => ((reachable_BInv reqs hv).vinv v hvm).aligned d hd

/-- offset + size never exceeds the capacity (`max_size()`, the number emitted as `MAX_SIZE`) -/
theorem C02_contained (reqs : List Req) (def_ : Definition) (hb : (run reqs).build = some def_)
    (m : Nat) (hm : def_.maxSize = some m) :
    ∀ v ∈ def_.variants, ∀ d ∈ v, off def_.defs d + sz def_.defs d ≤ m :=
  fun _ hvm _ hd => maxSize_ge hm hvm hd

/-- the alignment imposed on the record types (`max_type_align()`) is a multiple of every datum's
    alignment, when alignments are powers of two -/
theorem C02_record_align (reqs : List Req) (def_ : Definition) (hb : (run reqs).build = some def_)
    (hp : ∀ i ∈ def_.defs, IsPow2 i.align) :
    ∀ v ∈ def_.variants, ∀ d ∈ v, d < def_.defs.length → al def_.defs d ∣ def_.maxTypeAlign := by
  intro v _ d _ hlt
  have hmem : info def_.defs d ∈ def_.defs := by
    unfold info; rw [List.getElem?_eq_getElem hlt]; exact List.getElem_mem hlt
  exact maxTypeAlign_dvd def_ hp hmem

/-- list order is address order: a datum listed earlier ends at or before the start of every datum
    listed later; hence non-zero-size data are strictly increasing in offset -/
theorem C02_order (reqs : List Req) (hv : ∀ r ∈ reqs, r.valid) :
    ∀ v ∈ (run reqs).variants,
      v.Pairwise (fun a b => off (run reqs).defs a + sz (run reqs).defs a ≤ off (run reqs).defs b) :=
  fun v hvm => ((reachable_BInv reqs hv).vinv v hvm).sorted

theorem C02_order_strict (reqs : List Req) (hv : ∀ r ∈ reqs, r.valid) :
    ∀ v ∈ (run reqs).variants,
      (v.filter (fun d => 0 < sz (run reqs).defs d)).Pairwise
        (fun a b => off (run reqs).defs a < off (run reqs).defs b) := by
  intro v hvm
  have h := (C02_order reqs hv v hvm).sublist (List.filter_sublist (p := fun d => decide (0 < sz (run reqs).defs d)))
  refine List.Pairwise.imp_of_mem ?_ h
  intro a b ha _ hab
  have := (List.mem_filter.1 ha).2
  simp at this
  omega

/-- the numbers of the theorems above are the ones published with the generated code: `MAX_SIZE` is
    `max_size()`, and `RecordUninitialized` as well as *every* record struct carry
    `#[repr(align(max_type_align()))]` -/
theorem C02_published (d : Definition) (cfg : Gen.Cfg) (items : List Gen.Item) (h : Gen.module d cfg = some items) :
    ∃ ms, d.maxSize = some ms ∧
      Gen.Item.raw s!"pub const MAX_SIZE:usize={ms};" ∈ items ∧
      Gen.Item.raw (s!"#[repr(align({d.maxTypeAlign}))]pub struct RecordUninitialized<{Gen.CAPG}>" ++ "{_data:RecordMaybeUninit<CAP>,}") ∈ items ∧
      ∀ s ∈ Gen.specs d,
        Gen.Item.raw (s!"#[repr(align({d.maxTypeAlign}))]pub struct {Gen.capped s.vid}<{Gen.CAPG}>" ++ "{data:RecordMaybeUninit<CAP>,}") ∈ items :=
  Gen.module_layout_items d cfg items h

/-- the published capacity is not merely an upper bound: it is *attained* — either the definition
    stores nothing (capacity 0) or some datum of some variant ends exactly at `MAX_SIZE`; so no
    smaller constant would contain every datum (`C02_contained` is tight) -/
theorem C02_capacity_tight (def_ : Definition) (m : Nat) (hm : def_.maxSize = some m) :
    m = 0 ∨ ∃ v ∈ def_.variants, ∃ d ∈ v, off def_.defs d + sz def_.defs d = m := by
  unfold Definition.maxSize at hm
  simp only at hm
  split at hm
  · simp at hm
  · simp only [Option.some.injEq] at hm
    subst hm
    rcases foldl_max_mem ((def_.variants.flatten).map (fun id => stop def_.defs id)) 0 with h | h
    · left; exact h
    · right
      obtain ⟨id, hid, he⟩ := List.mem_map.1 h
      obtain ⟨v, hv, hidv⟩ := List.mem_flatten.1 hid
      exact ⟨v, hv, id, hidv, he⟩

/-- the three statements combined, in the form a user of the generated code relies on: for a
    definition built from any valid history, if the record buffer starts at an address that is a
    multiple of the imposed record alignment (`#[repr(align(max_type_align()))]`), then the *absolute
    address* of every datum of every variant is a multiple of that datum's alignment and the datum's
    bytes lie inside `[base, base + MAX_SIZE)` -/
theorem C02_address_aligned_contained (reqs : List Req) (hv : ∀ r ∈ reqs, r.valid) (def_ : Definition)
    (hb : (run reqs).build = some def_) (hp : ∀ i ∈ def_.defs, IsPow2 i.align)
    (m : Nat) (hm : def_.maxSize = some m) (base : Nat) (hbase : def_.maxTypeAlign ∣ base) :
    ∀ v ∈ def_.variants, ∀ d ∈ v,
      al def_.defs d ∣ base + off def_.defs d ∧
      base + off def_.defs d + sz def_.defs d ≤ base + m := by
  intro v hvm d hd
  have hdef : def_ = ⟨(run reqs).defs, (run reqs).variants⟩ := by
    unfold BState.build at hb
    split at hb
    · exact (Option.some.inj hb).symm
    · simp at hb
  have hvm' : v ∈ (run reqs).variants := by rw [hdef] at hvm; exact hvm
  have hinv := (reachable_BInv reqs hv).vinv v hvm'
  have hlt : d < def_.defs.length := by rw [hdef]; exact hinv.inRange d hd
  have h1 : al def_.defs d ∣ off def_.defs d := by rw [hdef]; exact hinv.aligned d hd
  have h2 : al def_.defs d ∣ def_.maxTypeAlign := C02_record_align reqs def_ hb hp v hvm d hd hlt
  have h3 := C02_contained reqs def_ hb m hm v hvm d hd
  exact ⟨Nat.dvd_add (Nat.dvd_trans h2 hbase) h1, by omega⟩

/-- the data of one variant fit side by side: the sum of their sizes never exceeds the capacity -/
theorem C02_sizes_sum_le_capacity (reqs : List Req) (hv : ∀ r ∈ reqs, r.valid) (def_ : Definition)
    (hb : (run reqs).build = some def_) (m : Nat) (hm : def_.maxSize = some m) :
    ∀ v ∈ def_.variants, (v.map (sz def_.defs)).sum ≤ m := by
  intro v hvm
  have hdef : def_ = ⟨(run reqs).defs, (run reqs).variants⟩ := by
    unfold BState.build at hb
    split at hb
    · exact (Option.some.inj hb).symm
    · simp at hb
  have hs : v.Pairwise (fun a b => off def_.defs a + sz def_.defs a ≤ off def_.defs b) := by
    rw [hdef] at hvm ⊢; exact C02_order reqs hv v hvm
  have := sum_sizes_le def_.defs m v 0 hs (fun d hd => C02_contained reqs def_ hb m hm v hvm d hd)
    (fun _ _ => Nat.zero_le _) (Nat.zero_le _)
  simpa using this

/-- non-vacuity of the premises of `C02_address_aligned_contained`: a concrete valid history builds,
    has power-of-two alignments and a finite capacity -/
example : (∀ r ∈ Ex.h1, r.valid) ∧ ((run Ex.h1).build.bind (·.maxSize)) = some 24 ∧
    ((run Ex.h1).build.map (fun d => d.defs.all (fun i => i.align ∈ [1, 2, 4, 8, 16]))) = some true := by
  refine ⟨?_, by decide +kernel⟩
  intro r hr
  simp only [Ex.h1, List.mem_cons, List.mem_nil_iff, or_false] at hr
  rcases hr with rfl | rfl | rfl | rfl | rfl | rfl | rfl | rfl | rfl | rfl <;> simp [Req.valid, Ex.I, Strategy.isNative]

/-- non-vacuity -/
example : ((run Ex.h1).build.bind (·.maxSize)) = some 24 ∧ ((run Ex.h1).build.map (·.maxTypeAlign)) = some 4 ∧
    ((run Ex.h1).build.map (fun d => d.defs.map (·.align))) = some [4, 2, 1, 4, 1, 2] := by
  decide +kernel

end Truc
