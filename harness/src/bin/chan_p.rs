//! Compile probes (C11, C13, C14): tiny definitions whose recorded type information is perturbed, or whose
//! fields are not Send/Sync; each becomes one bin of a probe crate; only "compiles / does not compile" is observed.
//! usage: chan_p <probedir> <reqfile>
use std::fmt::Write as _;
use truc::generator::config::GeneratorConfig;
use truc::record::definition::builder::native::{DatumDefinitionOverride, NativeRecordDefinitionBuilder};
use truc::record::type_resolver::HostTypeResolver;

const TYPES: [(&str, usize, usize, bool); 13] = [
    ("P1", 1, 1, true), ("P2", 2, 2, true), ("P4", 4, 4, true), ("P8", 8, 8, true), ("P16", 16, 16, true),
    ("P3", 3, 1, true), ("P12", 12, 4, true), ("P24", 24, 8, true),
    ("H", 8, 8, false), ("O3", 3, 1, false), ("A16", 16, 16, false), ("Z", 0, 1, false), ("Z8", 0, 8, false),
];

struct Probe { kind: String, desc: String, req: String, text: String, tail: String }

fn build(fields: &[(usize, &str, usize, usize, bool)], nvar: usize) -> (String, String) { build_rm(fields, nvar, &[]) }

/// `removals`: (variant at whose start the datum is removed, index of the datum in `fields`)
fn build_rm(fields: &[(usize, &str, usize, usize, bool)], nvar: usize, removals: &[(usize, usize)]) -> (String, String) {
    // fields: (variant in which it is added, type, size, align, uninit)
    let mut b = NativeRecordDefinitionBuilder::new(HostTypeResolver);
    let mut req = String::from("reset native 0 n\n");
    let mut n = 0;
    let mut ids: std::collections::BTreeMap<usize, truc::record::definition::DatumId> = Default::default();
    for v in 0..nvar {
        for (_, k) in removals.iter().filter(|r| r.0 == v) {
            let id = ids[k];
            b.remove_datum(id).unwrap();
            writeln!(req, "rm {}", id).unwrap();
        }
        for (k, f) in fields.iter().enumerate().filter(|(_, f)| f.0 == v) {
            n += 1;
            let id = b.add_datum_override::<(), _>(format!("f{}", n), DatumDefinitionOverride { type_name: Some(f.1.to_string()), size: Some(f.2), align: Some(f.3), allow_uninit: Some(f.4) }).unwrap();
            ids.insert(k, id);
            writeln!(req, "add f{} {} {} {} {} override", n, f.1, f.2, f.3, if f.4 { 1 } else { 0 }).unwrap();
        }
        b.close_record_variant();
        req.push_str("close simple\n");
    }
    req.push_str("build\n");
    let def = b.build();
    (truc::generator::generate(&def, &GeneratorConfig::default()), req)
}

fn main() {
    let args: Vec<String> = std::env::args().collect();
    let dir = &args[1];
    let mut probes: Vec<Probe> = vec![];
    for (ty, size, align, copy) in TYPES {
        for later in [false, true] {
            let v = if later { 1 } else { 0 };
            let nvar = if later { 2 } else { 1 };
            let base = vec![(0usize, "P4", 4usize, 4usize, false)];
            let mk = |s: usize, a: usize, u: bool| { let mut f = base.clone(); f.push((v, ty, s, a, u)); f };
            let mut add = |kind: &str, desc: String, fields: Vec<(usize, &str, usize, usize, bool)>| {
                let (text, req) = build(&fields, nvar);
                probes.push(Probe { kind: kind.into(), desc, req, text, tail: String::new() });
            };
            add("ok", format!("{} recorded correctly, variant {}", ty, v), mk(size, align, false));
            add("size", format!("{} recorded with size {} (real {}), variant {}", ty, size + 1, size, v), mk(size + 1, align, false));
            if size > 0 { add("size", format!("{} recorded with size {} (real {}), variant {}", ty, size - 1, size, v), mk(size - 1, align, false)); }
            add("align", format!("{} recorded with alignment {} (real {}), variant {}", ty, align * 2, align, v), mk(size, align * 2, false));
            if align > 1 { add("align", format!("{} recorded with alignment {} (real {}), variant {}", ty, align / 2, align, v), mk(size, align / 2, false)); }
            if copy { add("ok", format!("{} may stay uninitialised (Copy), variant {}", ty, v), mk(size, align, true)); }
            else { add("copy", format!("{} declared may-be-uninitialised but is not Copy, variant {}", ty, v), mk(size, align, true)); }
        }
    }
    // a wrongly recorded datum that is removed again before the last variant: the earlier record types still use it
    for (ty, size, align, copy) in [TYPES[2], TYPES[3], TYPES[8], TYPES[6], TYPES[5]] {
        for (add_at, rm_at, nvar) in [(0usize, 1usize, 2usize), (1, 2, 3), (0, 1, 3)] {
            let mut cases: Vec<(&str, String, (usize, &str, usize, usize, bool))> = vec![
                ("ok", format!("{} recorded correctly, added in variant {} and removed in variant {}", ty, add_at, rm_at), (add_at, ty, size, align, false)),
                ("size", format!("{} recorded with size {} (real {}), added in variant {} and removed in variant {}", ty, size + 1, size, add_at, rm_at), (add_at, ty, size + 1, align, false)),
                ("align", format!("{} recorded with alignment {} (real {}), added in variant {} and removed in variant {}", ty, align * 2, align, add_at, rm_at), (add_at, ty, size, align * 2, false)),
            ];
            if align > 1 { cases.push(("align", format!("{} recorded with alignment {} (real {}), added in variant {} and removed in variant {}", ty, align / 2, align, add_at, rm_at), (add_at, ty, size, align / 2, false))); }
            if !copy { cases.push(("copy", format!("{} declared may-be-uninitialised but is not Copy, added in variant {} and removed in variant {}", ty, add_at, rm_at), (add_at, ty, size, align, true))); }
            for (kind, desc, f) in cases {
                let fields = vec![(0usize, "P4", 4usize, 4usize, false), f, (nvar - 1, "P2", 2, 2, false)];
                let (text, req) = build_rm(&fields, nvar, &[(rm_at, 1)]);
                probes.push(Probe { kind: kind.into(), desc, req, text, tail: String::new() });
            }
        }
    }
    // a may-be-uninitialised datum of a non-Copy type next to a mandatory datum of the same type (either order, first or later variant)
    for (ty, size, align, copy) in [TYPES[8], TYPES[9], TYPES[10], TYPES[2]] {
        for (flagged_first, later) in [(true, false), (false, false), (true, true), (false, true)] {
            let v = if later { 1 } else { 0 };
            let plain = (v, ty, size, align, false);
            let flagged = (v, ty, size, align, true);
            let mut fields = vec![(0usize, "P2", 2usize, 2usize, true)];
            if flagged_first { fields.push(flagged); fields.push(plain); } else { fields.push(plain); fields.push(flagged); }
            let (text, req) = build(&fields, if later { 2 } else { 1 });
            probes.push(Probe { kind: if copy { "ok".into() } else { "copy".into() }, desc: format!("two {} data in variant {}, the {} one may stay uninitialised ({})", ty, v, if flagged_first { "first" } else { "second" }, if copy { "Copy: accepted" } else { "not Copy: must be refused" }), req, text, tail: String::new() });
        }
    }
    // two data of the same type, one of them recorded wrongly (the other correctly): both must be guarded
    for (ty, size, align, _) in [TYPES[2], TYPES[3], TYPES[8], TYPES[6]] {
        for (wrong_first, later) in [(true, false), (false, false), (true, true), (false, true)] {
            let wrong_a = (if later && !wrong_first { 1 } else { 0 }, ty, size, if align > 1 { align / 2 } else { align * 2 }, false);
            let right = (if later && wrong_first { 1 } else { 0 }, ty, size, align, false);
            let fields = if wrong_first { vec![wrong_a, right] } else { vec![right, wrong_a] };
            let (text, req) = build(&fields, if later { 2 } else { 1 });
            probes.push(Probe { kind: "align".into(), desc: format!("two {} data, one recorded with alignment {} (real {}), wrong one {} (later variant: {})", ty, wrong_a.3, align, if wrong_first { "first" } else { "second" }, later), req, text, tail: String::new() });
            let wrong_s = (wrong_a.0, ty, size + 1, align, false);
            let fields = if wrong_first { vec![wrong_s, right] } else { vec![right, wrong_s] };
            let (text, req) = build(&fields, if later { 2 } else { 1 });
            probes.push(Probe { kind: "size".into(), desc: format!("two {} data, one recorded with size {} (real {}), wrong one {} (later variant: {})", ty, size + 1, size, if wrong_first { "first" } else { "second" }, later), req, text, tail: String::new() });
        }
    }
    // auto traits (C14): records holding a non-Send / non-Sync field
    for (ty, what) in [("NS", "send"), ("NS", "sync"), ("NY", "sync"), ("NY", "send"), ("H", "send"), ("H", "sync")] {
        let (text, req) = build(&[(0, "P4", 4, 4, false), (0, ty, 8, 8, false)], 1);
        let tail = format!("fn is_{w}<T: {W}>() {{}}\nfn probe() {{ is_{w}::<m::Record0>(); }}\n", w = what, W = if what == "send" { "Send" } else { "Sync" });
        probes.push(Probe { kind: format!("auto-{}", what), desc: format!("record with a {} field must {}be {}", ty, if (ty == "NS") || (ty == "NY" && what == "sync") { "NOT " } else { "" }, what), req, text, tail });
    }
    std::fs::create_dir_all(format!("{}/src/bin", dir)).unwrap();
    let mut listing = String::new();
    let mut reqs = String::new();
    for (k, p) in probes.iter().enumerate() {
        let src = format!("#![allow(dead_code, unused)]\n#[macro_use]\nextern crate static_assertions;\n#[path = \"../support.rs\"]\nmod support;\npub struct NS(pub std::rc::Rc<u64>);\npub struct NY(pub std::cell::Cell<u64>);\nmod m {{\n    use crate::support::*;\n    use crate::{{NS, NY}};\n{}\n}}\n{}\nfn main() {{}}\n", p.text, p.tail);
        std::fs::write(format!("{}/src/bin/p{}.rs", dir, k), src).unwrap();
        writeln!(listing, "{}\t{}\t{}", k, p.kind, p.desc).unwrap();
        reqs.push_str(&p.req);
        reqs.push_str(if p.kind.starts_with("auto") { "autotraits\n" } else { "static\n" });
    }
    std::fs::write(format!("{}/probes.tsv", dir), listing).unwrap();
    std::fs::write(&args[2], reqs).unwrap();
}
