import TrucModel.Model.Gen
/-
  The compiler rules that are *modelled* (validated by compile probes in channel X): evaluation of
  the emitted const assertions, `T: Copy` obligations at the emitted turbofish instantiations, and
  the structural auto-trait rule for `Send` / `Sync`.
-/
namespace Truc.Static
open Truc.Gen

/-- what the compiler knows about the field types where the generated code is compiled -/
structure TyEnv where
  size  : String → Nat
  align : String → Nat
  copy  : String → Bool
  send  : String → Bool
  sync  : String → Bool

/-- the `(type, size)` const assertions the generator emits -/
def sizeAsserts (d : Definition) : List (String × Nat) := sizeAssertions (specs d)

/-- the `(type, alignment)` const assertions the generator emits -/
def alignAsserts (d : Definition) : List (String × Nat) := alignAssertions (specs d)

/-- the types substituted for a `T: Copy` parameter: `new_uninit` instantiates the helper of the
    variant's data, the `uninit` conversions that of the added data -/
def copyObligations (d : Definition) : List String :=
  ((specs d).map fun s => ((s.data.filter (·.uninit)).map (·.ty)) ++ (if s.hasPrev then (s.plus.filter (·.uninit)).map (·.ty) else [])).flatten

/-- the module type-checks as far as these three rules are concerned -/
def accepts (env : TyEnv) (d : Definition) : Prop :=
  (∀ p ∈ sizeAsserts d, env.size p.1 = p.2) ∧ (∀ p ∈ alignAsserts d, env.align p.1 = p.2) ∧
  (∀ t ∈ copyObligations d, env.copy t = true)

def acceptsB (env : TyEnv) (d : Definition) : Bool :=
  (sizeAsserts d).all (fun p => env.size p.1 == p.2) && (alignAsserts d).all (fun p => env.align p.1 == p.2) &&
  (copyObligations d).all (fun t => env.copy t)

/-- structural auto traits: a struct is `Send` iff all its fields' types are. Every generated record
    struct has the single field `data: RecordMaybeUninit<CAP>` = `[MaybeUninit<u8>; CAP]`. -/
def recordFieldTypes (_s : Spec) : List String := ["RecordMaybeUninit<CAP>"]

def recordSend (env : TyEnv) (s : Spec) : Bool := (recordFieldTypes s).all fun t => t == "RecordMaybeUninit<CAP>" || env.send t
def recordSync (env : TyEnv) (s : Spec) : Bool := (recordFieldTypes s).all fun t => t == "RecordMaybeUninit<CAP>" || env.sync t

end Truc.Static
