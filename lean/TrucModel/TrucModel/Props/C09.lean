import TrucModel.Proofs.VecSpec
/-
  C09 — A failing or panicking converter loses nothing and frees everything.
-/
namespace Truc.Vec

variable {T U E P : Type}

/-- if the left-to-right pass fails at some call (error value `e` or panic payload `p`), the real
    loop stops there (no later call), drops every output produced so far (as last modified) and every
    input not yet consumed exactly once — `dropped` lists each such slot once and `leaked = []` —,
    releases the buffer, and hands back that very error value / payload.  The consumed inputs were
    handed to the converter (which owns them: `ConverterContract`). -/
theorem C09_cleanup (lay : Nat × Nat) (conv : Nat → T → Option U → COut U E P) (input : List T)
    (why : Sum E P) (outs : List U) (rest : List T) (calls : List (T × Option U))
    (h : spec conv input [] [] = .failed why outs rest calls) :
    tryConvert lay lay conv input = .failed why (outs.map .out ++ rest.map .inp) [] true calls ∧
    ∃ (pre : List T) (t : T) (prev p' : Option U),
      input = pre ++ t :: rest ∧ calls.map (·.1) = pre ++ [t] ∧ calls.getLast? = some (t, prev) ∧
      ((∃ e, why = .inl e ∧ conv (calls.length - 1) t prev = .err e p') ∨
       (∃ p, why = .inr p ∧ conv (calls.length - 1) t prev = .panic p p')) := by
  refine ⟨by rw [tryConvert_refines, h]; rfl, ?_⟩
  obtain ⟨pre, t, prev, p', h1, h2, h3, h4⟩ := spec_failed conv input [] [] why outs rest calls h
  exact ⟨pre, t, prev, p', h1, by simpa using h2, h3, h4⟩

/-- every run ends in exactly one of the two ways, never in a memory error -/
theorem C09_no_memory_error (lay : Nat × Nat) (conv : Nat → T → Option U → COut U E P) (input : List T) :
    ∀ e, tryConvert lay lay conv input ≠ .ub e := by
  intro e
  rw [tryConvert_refines]
  cases spec conv input [] [] <;> simp [ofSpec]

/-- non-vacuity: failure at the third of four elements, after one conversion and one abandon -/
example : tryConvert (E := String) (P := Unit) (8, 8) (8, 8)
    (fun k (t : Nat) (p : Option Nat) =>
      if k = 0 then .converted (t * 10) p else if k = 1 then .abandoned (p.map (· + 1)) else .err "boom" p) [1, 2, 3, 4]
    = .failed (.inl "boom") [.out 11, .inp 4] [] true [(1, none), (2, some 10), (3, some 11)] := by decide +kernel

end Truc.Vec
