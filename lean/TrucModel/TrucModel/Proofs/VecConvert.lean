import TrucModel.Model.VecConvert
/-
  The loop of `try_convert_vec_in_place` refines the left-to-right specification: the three-region
  invariant (outputs, dead, inputs) as a representation function.
-/
namespace Truc.Vec

variable {T U E P : Type}

/-- the three regions -/
def repr (outs : List U) (d : Nat) (rest : List T) : List (Slot T U) :=
  outs.map .out ++ (List.replicate d .dead ++ rest.map .inp)

theorem repr_length (outs : List U) (d : Nat) (rest : List T) :
    (repr outs d rest : List (Slot T U)).length = outs.length + d + rest.length := by
  simp [repr]; omega

theorem repr_get_ft (outs : List U) (d : Nat) (t : T) (rest : List T) :
    (repr outs d (t :: rest) : List (Slot T U))[outs.length + d]? = some (.inp t) := by
  unfold repr
  rw [List.getElem?_append_right (by simp), List.getElem?_append_right (by simp)]
  simp

theorem repr_set_ft (outs : List U) (d : Nat) (t : T) (rest : List T) :
    (repr outs d (t :: rest) : List (Slot T U)).set (outs.length + d) .dead = repr outs (d + 1) rest := by
  unfold repr
  rw [List.set_append_right _ _ (by simp), List.set_append_right _ _ (by simp)]
  simp [List.replicate_succ']

theorem repr_get_prev (outs : List U) (d : Nat) (rest : List T) (h : 0 < outs.length) :
    (repr outs d rest : List (Slot T U))[outs.length - 1]? = outs.getLast?.map .out := by
  unfold repr
  rw [List.getElem?_append_left (by simp; omega)]
  rw [List.getLast?_eq_getElem?]
  simp

theorem setLast_length (outs : List U) (p : Option U) : (setLast outs p).length = outs.length := by
  unfold setLast; split <;> simp

theorem repr_writePrev (outs : List U) (d : Nat) (rest : List T) (p : Option U) :
    writePrev (repr outs d rest : List (Slot T U)) outs.length p = repr (setLast outs p) d rest := by
  unfold writePrev setLast
  cases hl : outs.length with
  | zero => cases p <;> rfl
  | succ n =>
    cases p with
    | none => simp
    | some u =>
      simp only
      unfold repr
      rw [List.set_append_left _ _ (by simp; omega)]
      simp [List.map_set]

theorem repr_get_fm (outs : List U) (d : Nat) (rest : List T) :
    (repr outs (d + 1) rest : List (Slot T U))[outs.length]? = some .dead := by
  unfold repr
  rw [List.getElem?_append_right (by simp)]
  simp [List.replicate_succ]

theorem repr_set_fm (outs : List U) (d : Nat) (rest : List T) (u : U) :
    (repr outs (d + 1) rest : List (Slot T U)).set outs.length (.out u) = repr (outs ++ [u]) d rest := by
  unfold repr
  rw [List.set_append_right _ _ (by simp)]
  simp [List.replicate_succ]

theorem repr_take_fm (outs : List U) (d : Nat) (rest : List T) :
    (repr outs d rest : List (Slot T U)).take outs.length = outs.map .out := by
  unfold repr
  rw [List.take_append_of_le_length (by simp)]
  rw [List.take_of_length_le (by simp)]

theorem repr_drop_fm (outs : List U) (d : Nat) (rest : List T) :
    (repr outs d rest : List (Slot T U)).drop outs.length = List.replicate d .dead ++ rest.map .inp := by
  unfold repr
  rw [List.drop_append_of_le_length (by simp)]
  simp

theorem repr_drop_ft (outs : List U) (d : Nat) (rest : List T) :
    (repr outs d rest : List (Slot T U)).drop (outs.length + d) = rest.map .inp := by
  unfold repr
  rw [List.drop_append, List.drop_append]
  simp

theorem filter_live_replicate (d : Nat) : (List.replicate d (Slot.dead : Slot T U)).filter isLive = [] := by
  induction d with
  | zero => rfl
  | succ n ih => simp [List.replicate_succ, isLive, ih]

theorem cleanup_repr (why : Sum E P) (outs : List U) (d : Nat) (rest : List T) (calls : List (T × Option U)) :
    cleanup why (repr outs d rest : List (Slot T U)) outs.length (outs.length + d) calls =
      .failed why (outs.map .out ++ rest.map .inp) [] true calls := by
  unfold cleanup
  simp only [repr_take_fm, repr_drop_ft]
  have h1 : (outs.map (Slot.out : U → Slot T U)).all isOut = true := by simp [isOut]
  have h2 : (rest.map (Slot.inp : T → Slot T U)).all isInp = true := by simp [isInp]
  simp only [h1, h2, Bool.and_self, if_true]
  congr 1
  have : ((repr outs d rest : List (Slot T U)).take (outs.length + d)).drop outs.length = List.replicate d .dead := by
    unfold repr
    rw [List.take_append, List.drop_append]
    simp
  rw [this, filter_live_replicate]

/-- what the specification's result looks like as a result of the real function -/
def ofSpec : SpecOut T U E P → VOut T U E P
  | .ok outs calls => .done (outs.map .out) [] calls
  | .failed why outs rest calls => .failed why (outs.map .out ++ rest.map .inp) [] true calls

theorem vloop_refines (conv : Nat → T → Option U → COut U E P) :
    ∀ (rest : List T) (outs : List U) (d : Nat) (calls : List (T × Option U)) (fuel : Nat), rest.length ≤ fuel →
      vloop conv fuel ⟨repr outs d rest, outs.length, outs.length + d, calls⟩ = ofSpec (spec conv rest outs calls) := by
  intro rest
  induction rest with
  | nil =>
    intro outs d calls fuel _
    have hdone : (VOut.done ((repr outs d ([] : List T) : List (Slot T U)).take outs.length)
        (((repr outs d ([] : List T) : List (Slot T U)).drop outs.length).filter isLive) calls : VOut T U E P)
        = ofSpec (spec conv [] outs calls) := by
      rw [repr_take_fm, repr_drop_fm]
      simp [spec, ofSpec, filter_live_replicate]
    cases fuel with
    | zero => simpa [vloop] using hdone
    | succ f =>
      unfold vloop
      have : ¬ (outs.length + d < (repr outs d ([] : List T) : List (Slot T U)).length) := by
        rw [repr_length]; simp
      simp only [this, if_false]
      exact hdone
  | cons t rest ih =>
    intro outs d calls fuel hfuel
    cases fuel with
    | zero => exact absurd hfuel (by simp)
    | succ f =>
      have hf : rest.length ≤ f := by simp at hfuel; omega
      unfold vloop
      have hlt : outs.length + d < (repr outs d (t :: rest) : List (Slot T U)).length := by
        rw [repr_length]; simp
      simp only [hlt, if_true, repr_get_ft, repr_set_ft]
      have hprev : getPrev (repr outs (d + 1) rest : List (Slot T U)) outs.length = .ok outs.getLast? := by
        unfold getPrev
        by_cases h0 : outs.length > 0
        · simp only [h0, if_true]
          rw [repr_get_prev _ _ _ h0]
          cases hl : outs.getLast? with
          | none =>
            rw [List.getLast?_eq_none_iff] at hl
            simp [hl] at h0
          | some u => rfl
        · have : outs = [] := List.length_eq_zero_iff.1 (by omega)
          subst this; simp
      rw [hprev]
      simp only
      unfold spec
      simp only
      cases hc : conv calls.length t outs.getLast? with
      | converted u p' =>
        simp only
        rw [repr_writePrev]
        have hl := setLast_length outs p'
        rw [← hl, repr_get_fm, repr_set_fm]
        have := ih (setLast outs p' ++ [u]) d (calls ++ [(t, outs.getLast?)]) f hf
        simp only [List.length_append, List.length_singleton] at this
        have hassoc : (setLast outs p').length + 1 + d = (setLast outs p').length + d + 1 := by omega
        rw [hassoc] at this
        rw [hl] at this ⊢
        exact this
      | abandoned p' =>
        simp only
        rw [repr_writePrev]
        have hl := setLast_length outs p'
        have := ih (setLast outs p') (d + 1) (calls ++ [(t, outs.getLast?)]) f hf
        rw [hl] at this
        exact this
      | err e p' =>
        simp only
        rw [repr_writePrev]
        have hl := setLast_length outs p'
        have := cleanup_repr (E := E) (P := P) (.inl e) (setLast outs p') (d + 1) rest (calls ++ [(t, outs.getLast?)])
        rw [hl] at this
        simp only [ofSpec]
        exact this
      | panic p p' =>
        simp only
        rw [repr_writePrev]
        have hl := setLast_length outs p'
        have := cleanup_repr (E := E) (P := P) (.inr p) (setLast outs p') (d + 1) rest (calls ++ [(t, outs.getLast?)])
        rw [hl] at this
        simp only [ofSpec]
        exact this

theorem tryConvert_refines (lay : Nat × Nat) (conv : Nat → T → Option U → COut U E P) (input : List T) :
    tryConvert lay lay conv input = ofSpec (spec conv input [] []) := by
  unfold tryConvert
  simp only [ne_eq, not_true_eq_false, or_self, if_false]
  have := vloop_refines conv input [] 0 [] input.length (Nat.le_refl _)
  simpa [repr] using this

end Truc.Vec
