/-
  `record/type_name.rs`: parse a type name (`syn::parse_str::<Type>`), strip the `alloc::` / `core::`
  paths of five std types at every depth (`TypeRewriter`), print the tokens (`quote!(..).to_string()`).
  syn's parser and quote's printer are *modelled* by a hand-written lexer / parser / printer for the
  grammar of the property: paths with generic type arguments, tuples, arrays, slices.
-/
namespace Truc.TN

mutual
inductive Ty where
  | path (leadingColon : Bool) (segs : Segs)
  | tuple (elems : Tys)
  | array (elem : Ty) (len : String)
  | slice (elem : Ty)
inductive Tys where
  | nil
  | cons (t : Ty) (ts : Tys)
inductive Segs where
  | nil
  | cons (name : String) (args : Tys) (rest : Segs)
end

instance : Inhabited Ty := ⟨.tuple .nil⟩

def Segs.names : Segs → List String
  | .nil => []
  | .cons n _ rest => n :: rest.names

/-- the last segment alone -/
def Segs.lastOnly : Segs → Segs
  | .nil => .nil
  | .cons n a .nil => .cons n a .nil
  | .cons _ _ rest => rest.lastOnly

/-- the five in-scope std types -/
def patterns : List (List String) :=
  [["alloc", "boxed", "Box"], ["alloc", "string", "String"], ["alloc", "vec", "Vec"],
   ["core", "option", "Option"], ["core", "result", "Result"]]

def isStdPath (lc : Bool) (names : List String) : Bool := !lc && patterns.contains names

mutual
/-- `TypeRewriter`: at every path without leading `::` whose segment names are exactly one of the
    five patterns, keep the last segment (with its arguments) only; then go into the arguments -/
def rewrite : Ty → Ty
  | .path lc segs =>
    let segs' := rewriteSegs segs
    .path lc (if isStdPath lc segs.names then segs'.lastOnly else segs')
  | .tuple es => .tuple (rewriteTys es)
  | .array e n => .array (rewrite e) n
  | .slice e => .slice (rewrite e)
def rewriteTys : Tys → Tys
  | .nil => .nil
  | .cons t ts => .cons (rewrite t) (rewriteTys ts)
def rewriteSegs : Segs → Segs
  | .nil => .nil
  | .cons n args rest => .cons n (rewriteTys args) (rewriteSegs rest)
end

/-! ### printer (`quote!(#ty).to_string()`): tokens separated by one space, none inside delimiters' edges -/

mutual
def toks : Ty → List String
  | .path lc segs => (if lc then ["::"] else []) ++ toksSegs segs
  | .tuple es => ["("] ++ toksTuple es ++ [")"]
  | .array e n => ["["] ++ toks e ++ [";", n, "]"]
  | .slice e => ["["] ++ toks e ++ ["]"]
/-- comma separated; a 1-tuple keeps its trailing comma -/
def toksTuple : Tys → List String
  | .nil => []
  | .cons t .nil => toks t ++ [","]
  | .cons t ts => toks t ++ [","] ++ toksArgs ts
def toksArgs : Tys → List String
  | .nil => []
  | .cons t .nil => toks t
  | .cons t ts => toks t ++ [","] ++ toksArgs ts
def toksSegs : Segs → List String
  | .nil => []
  | .cons n args rest =>
    [n] ++ (match args with | .nil => [] | _ => ["<"] ++ toksArgs args ++ [">"]) ++
    (match rest with | .nil => [] | _ => ["::"] ++ toksSegs rest)
end

/-- proc_macro2's Display: a space between tokens except after an opening and before a closing
    delimiter -/
def joinToks : List String → String
  | [] => ""
  | [t] => t
  | a :: b :: rest =>
    let sep := if a == "(" || a == "[" || b == ")" || b == "]" then "" else " "
    a ++ sep ++ joinToks (b :: rest)

def print (t : Ty) : String := joinToks (toks t)

/-! ### lexer and parser -/

def isIdentChar (c : Char) : Bool := c.isAlphanum || c == '_'

/-- tokens: identifiers / numbers, `::`, and single punctuation characters; whitespace separates -/
def flushCur (cur : List Char) (acc : List String) : List String :=
  if cur.isEmpty then acc else acc ++ [String.ofList cur]

def lex : List Char → List Char → List String → List String
  | [], cur, acc => flushCur cur acc
  | ':' :: ':' :: rest, cur, acc => lex rest [] (flushCur cur acc ++ ["::"])
  | c :: rest, cur, acc =>
    if isIdentChar c then lex rest (cur ++ [c]) acc
    else if c.isWhitespace then lex rest [] (flushCur cur acc)
    else lex rest [] (flushCur cur acc ++ [String.ofList [c]])

def isIdentTok (s : String) : Bool := match s.toList with | c :: _ => isIdentChar c | [] => false

mutual
/-- recursive descent with fuel; returns the parsed type and the remaining tokens -/
def parseTy : Nat → List String → Option (Ty × List String)
  | 0, _ => none
  | fuel + 1, "(" :: rest =>
    match parseTuple fuel rest with
    | some (es, rest') => some (.tuple es, rest')
    | none => none
  | fuel + 1, "[" :: rest =>
    match parseTy fuel rest with
    | some (e, ";" :: n :: "]" :: rest') => some (.array e n, rest')
    | some (e, "]" :: rest') => some (.slice e, rest')
    | _ => none
  | fuel + 1, "::" :: rest =>
    match parseSegs fuel rest with
    | some (segs, rest') => some (.path true segs, rest')
    | none => none
  | fuel + 1, toks =>
    match parseSegs fuel toks with
    | some (segs, rest') => some (.path false segs, rest')
    | none => none
/-- after `(`: types separated by commas up to `)` (a trailing comma is allowed) -/
def parseTuple : Nat → List String → Option (Tys × List String)
  | 0, _ => none
  | _ + 1, ")" :: rest => some (.nil, rest)
  | fuel + 1, toks =>
    match parseTy fuel toks with
    | some (t, "," :: rest) =>
      (match parseTuple fuel rest with
       | some (ts, rest') => some (.cons t ts, rest')
       | none => none)
    | some (t, ")" :: rest) => some (.cons t .nil, rest)
    | _ => none
/-- after `<`: types separated by commas up to `>` -/
def parseArgs : Nat → List String → Option (Tys × List String)
  | 0, _ => none
  | fuel + 1, toks =>
    match parseTy fuel toks with
    | some (t, "," :: rest) =>
      (match parseArgs fuel rest with
       | some (ts, rest') => some (.cons t ts, rest')
       | none => none)
    | some (t, ">" :: rest) => some (.cons t .nil, rest)
    | _ => none
def parseSegs : Nat → List String → Option (Segs × List String)
  | 0, _ => none
  | fuel + 1, name :: rest =>
    if !isIdentTok name then none
    else
      let withArgs : Option (Tys × List String) := match rest with
        | "<" :: rest' => parseArgs fuel rest'
        | _ => some (.nil, rest)
      match withArgs with
      | none => none
      | some (args, "::" :: rest'') =>
        (match parseSegs fuel rest'' with
         | some (more, r) => some (.cons name args more, r)
         | none => none)
      | some (args, rest'') => some (.cons name args .nil, rest'')
  | _ + 1, [] => none
end

def parse (s : String) : Option Ty :=
  let ts := lex s.toList [] []
  match parseTy (2 * ts.length + 2) ts with
  | some (t, []) => some t
  | _ => none

/-- `truc_dynamic_type_name`; `none` = syn rejects the text (panic "syn type") -/
def normalize (s : String) : Option String := (parse s).map (fun t => print (rewrite t))

end Truc.TN
