import TrucModel.Proofs.VecSpec
import TrucModel.Proofs.GenProps
/-
  C10 — Vector conversion refuses element types of different size or alignment.
-/
namespace Truc.Vec

variable {T U E P : Type}

/-- different size or different alignment: refused before any element is read, the converter is
    never called, and the input vector is dropped normally (each element exactly once) -/
theorem C10_refuse (layT layU : Nat × Nat) (h : layT.1 ≠ layU.1 ∨ layT.2 ≠ layU.2)
    (conv : Nat → T → Option U → COut U E P) (input : List T) :
    tryConvert layT layU conv input = .refused (input.map .inp) [] := by
  unfold tryConvert; simp [h]

/-- and equal layouts are never refused -/
theorem C10_accept (lay : Nat × Nat) (conv : Nat → T → Option U → COut U E P) (input : List T) :
    ∀ d c, tryConvert lay lay conv input ≠ .refused d c := by
  intro d c
  rw [tryConvert_refines]
  cases spec conv input [] [] <;> simp [ofSpec]

/-- the refusal never hits truc's own use: the record types generated for two variants of one
    definition have the same (modelled) layout for every capacity, so a vector of one is always
    accepted for in-place conversion into a vector of the other -/
theorem C10_variants_never_refused (d : Definition) (cap : Nat) (s₁ s₂ : Gen.Spec)
    (h₁ : s₁ ∈ Gen.specs d) (h₂ : s₂ ∈ Gen.specs d)
    (conv : Nat → T → Option U → COut U E P) (input : List T) :
    ∀ dr c, tryConvert (Gen.recLayout cap s₁.align) (Gen.recLayout cap s₂.align) conv input ≠ .refused dr c := by
  rw [Gen.specs_align d s₁ h₁, Gen.specs_align d s₂ h₂]
  exact C10_accept _ conv input

/-- the refusal is decided by the two layouts alone: it does not depend on the converter or on the
    contents or length of the input -/
theorem C10_refusal_depends_on_layouts_only (layT layU : Nat × Nat)
    (conv₁ conv₂ : Nat → T → Option U → COut U E P) (in₁ in₂ : List T) :
    (∃ d c, tryConvert layT layU conv₁ in₁ = .refused d c) ↔ (∃ d c, tryConvert layT layU conv₂ in₂ = .refused d c) := by
  by_cases h : layT.1 ≠ layU.1 ∨ layT.2 ≠ layU.2
  · constructor <;> intro _
    · exact ⟨_, _, C10_refuse layT layU h conv₂ in₂⟩
    · exact ⟨_, _, C10_refuse layT layU h conv₁ in₁⟩
  · have he : layT = layU := by
      have h' : layT.1 = layU.1 ∧ layT.2 = layU.2 := by
        constructor
        · exact Classical.byContradiction fun hn => h (Or.inl hn)
        · exact Classical.byContradiction fun hn => h (Or.inr hn)
      exact Prod.ext h'.1 h'.2
    subst he
    constructor
    · rintro ⟨d, c, hd⟩; exact absurd hd (C10_accept layT conv₁ in₁ d c)
    · rintro ⟨d, c, hd⟩; exact absurd hd (C10_accept layT conv₂ in₂ d c)

example : tryConvert (E := Unit) (P := Unit) (8, 8) (8, 4) (fun _ (t : Nat) _ => .converted t none) [1, 2]
    = .refused [.inp 1, .inp 2] [] := by decide +kernel

end Truc.Vec
