import TrucModel.Model.Strategy
/-
  `GenericRecordDefinitionBuilder` (`builder/generic/mod.rs`) as a state machine; the native builder
  is this one with `NativeDatumDetails` (every `add_*` entry point of `builder/native/mod.rs` ends in
  `inner.add_datum(name, NativeDatumDetails{offset: usize::MAX, …})`).
-/
namespace Truc

inductive Strategy | simple | basic | append | appendRev | gAppend | gAppendRev
deriving Repr, DecidableEq, Inhabited

structure BState where
  defs     : Defs := []
  variants : List (List Nat) := []
  toAdd    : List Nat := []
  toRemove : List Nat := []
deriving Repr, DecidableEq, Inhabited

def BState.init : BState := {}

inductive ErrKind
  | dupName | alreadyRemoved | notInPrev | notInCurrent
deriving Repr, DecidableEq, Inhabited

/-- `get_current_data` -/
def BState.currentData (s : BState) : List Nat :=
  (match s.variants.getLast? with
   | some v => v.filter (fun d => !s.toRemove.contains d)
   | none => []) ++ s.toAdd

/-- `get_current_datum_definition_by_name` (id of the first current datum with that name) -/
def BState.currentByName (s : BState) (name : String) : Option Nat :=
  (s.currentData.filter (fun d => d < s.defs.length)).find? (fun d => (info s.defs d).name = name)

/-- `get_variant_datum_definition_by_name` -/
def BState.variantByName (s : BState) (v : Nat) (name : String) : Option Nat :=
  match s.variants[v]? with
  | none => none
  | some l => (l.filter (fun d => d < s.defs.length)).find? (fun d => (info s.defs d).name = name)

/-- `add_datum` (offset is whatever the caller put into the details; native: `UNSET`). -/
def BState.addDatum (s : BState) (i : Info) : BState × Except ErrKind Nat :=
  if (s.currentByName i.name).isSome then (s, .error .dupName)
  else
    let id := s.defs.length
    ({ s with defs := s.defs ++ [i], toAdd := s.toAdd ++ [id] }, .ok id)

/-- `remove_datum` -/
def BState.removeDatum (s : BState) (id : Nat) : BState × Except ErrKind Unit :=
  match s.variants.getLast? with
  | some v =>
    if v.contains id then
      if s.toRemove.contains id then (s, .error .alreadyRemoved)
      else ({ s with toRemove := s.toRemove ++ [id] }, .ok ())
    else if s.toAdd.contains id then ({ s with toAdd := s.toAdd.erase id }, .ok ())
    else (s, .error .notInPrev)
  | none =>
    if s.toAdd.contains id then ({ s with toAdd := s.toAdd.erase id }, .ok ())
    else (s, .error .notInCurrent)

def BState.hasPendingChanges (s : BState) : Bool :=
  s.variants.isEmpty || !s.toRemove.isEmpty || !s.toAdd.isEmpty

def Strategy.isNative : Strategy → Bool
  | .gAppend | .gAppendRev => false
  | _ => true

def runStrategy' (st : Strategy) (defs : Defs) (data add rm : List Nat) : Option (Defs × List Nat) :=
  match st with
  | .simple => simple defs data add rm
  | .basic => basic defs data add rm
  | .append => some (appendData defs data add rm)
  | .appendRev => some (appendDataReverse defs data add rm)
  | .gAppend => some (defs, removeData data rm ++ add)
  | .gAppendRev => some (defs, removeData data rm ++ add.reverse)

/-- the strategy call; `none` = panic. A datum of alignment 0 makes every native strategy divide by
    zero in `align_bytes` (each of them aligns every added datum at least once). -/
def runStrategy (st : Strategy) (defs : Defs) (data add rm : List Nat) : Option (Defs × List Nat) :=
  if st.isNative && add.any (fun d => al defs d = 0) then none
  else runStrategy' st defs data add rm

/-- `close_record_variant_with`; returns the variant id, `none` = the strategy panicked. -/
def BState.close (s : BState) (st : Strategy) : Option (BState × Nat) :=
  if !s.hasPendingChanges then some (s, s.variants.length - 1)
  else
    let data := (s.variants.getLast?).getD []
    match runStrategy st s.defs data s.toAdd s.toRemove with
    | none => none
    | some (defs', l') =>
      some ({ defs := defs', variants := s.variants ++ [l'], toAdd := [], toRemove := [] },
            s.variants.length)

/-- `build`: panics iff changes are pending. -/
def BState.canBuild (s : BState) : Bool := s.toAdd.isEmpty && s.toRemove.isEmpty

/-! ### histories (used by the theorems) -/

inductive Req
  | add (i : Info)
  | remove (id : Nat)
  | close (st : Strategy)
deriving Repr, Inhabited

/-- state after one request; a panicking close leaves the state unchanged here and is reported by
    `stepPanics` (the Rust builder is unusable after a panic; theorems show it cannot happen). -/
def step (s : BState) : Req → BState
  | .add i => (s.addDatum { i with offset := UNSET }).1
  | .remove id => (s.removeDatum id).1
  | .close st => match s.close st with
    | some (s', _) => s'
    | none => s

def stepPanics (s : BState) : Req → Bool
  | .close st => (s.close st).isNone
  | _ => false

def run (reqs : List Req) : BState := reqs.foldl step BState.init

end Truc
