//! Canonical, formatting-independent dump of generated Rust text: one line per item header / fn
//! signature / statement, doc attributes dropped, tokens printed with minimal spacing.
use proc_macro2::{Delimiter, TokenStream, TokenTree};
use quote::ToTokens;

fn is_word(c: char) -> bool {
    c.is_alphanumeric() || c == '_'
}

fn push_tok(out: &mut String, t: &str) {
    if let (Some(a), Some(b)) = (out.chars().last(), t.chars().next()) {
        if is_word(a) && is_word(b) {
            out.push(' ');
        }
    }
    out.push_str(t);
}

pub fn min_tokens(ts: TokenStream) -> String {
    fn go(ts: TokenStream, out: &mut String) {
        for tt in ts {
            match tt {
                TokenTree::Group(g) => {
                    let (o, c) = match g.delimiter() {
                        Delimiter::Parenthesis => ("(", ")"),
                        Delimiter::Brace => ("{", "}"),
                        Delimiter::Bracket => ("[", "]"),
                        Delimiter::None => ("", ""),
                    };
                    push_tok(out, o);
                    go(g.stream(), out);
                    push_tok(out, c);
                }
                TokenTree::Ident(i) => push_tok(out, &i.to_string()),
                TokenTree::Punct(p) => out.push(p.as_char()),
                TokenTree::Literal(l) => push_tok(out, &l.to_string()),
            }
        }
    }
    let mut s = String::new();
    go(ts, &mut s);
    s
}

fn strip_docs(attrs: &mut Vec<syn::Attribute>) {
    attrs.retain(|a| !a.path().is_ident("doc"));
}

struct DocStripper;
impl syn::visit_mut::VisitMut for DocStripper {
    fn visit_attributes_mut(&mut self, attrs: &mut Vec<syn::Attribute>) {
        strip_docs(attrs);
    }
}

fn dump_block(stmts: &[syn::Stmt], out: &mut Vec<String>) {
    for s in stmts {
        match s {
            syn::Stmt::Item(i) => dump_item(i, out),
            other => out.push(format!("s {}", min_tokens(other.to_token_stream()))),
        }
    }
}

fn dump_item(item: &syn::Item, out: &mut Vec<String>) {
    match item {
        syn::Item::Impl(im) => {
            let mut hdr = im.clone();
            hdr.items.clear();
            let h = min_tokens(hdr.to_token_stream());
            out.push(format!("impl {}", h.trim_end_matches("{}")));
            for it in &im.items {
                match it {
                    syn::ImplItem::Fn(f) => {
                        let mut sig = String::new();
                        push_tok(&mut sig, &min_tokens(f.vis.to_token_stream()));
                        push_tok(&mut sig, &min_tokens(f.sig.to_token_stream()));
                        out.push(format!("fn {}", sig));
                        dump_block(&f.block.stmts, out);
                        out.push("endfn".to_string());
                    }
                    other => out.push(format!("member {}", min_tokens(other.to_token_stream()))),
                }
            }
            out.push("endimpl".to_string());
        }
        other => out.push(format!("item {}", min_tokens(other.to_token_stream()))),
    }
}

/// Err = the text does not even parse as a Rust file.
pub fn dump(text: &str) -> Result<Vec<String>, String> {
    let mut file = syn::parse_file(text).map_err(|e| format!("syn: {}", e))?;
    syn::visit_mut::VisitMut::visit_file_mut(&mut DocStripper, &mut file);
    let mut out = vec![];
    for item in &file.items {
        dump_item(item, &mut out);
    }
    Ok(out)
}
