import TrucModel.Proofs.ConvRefine
/-
  Every record that generated code can produce satisfies the record invariant: constructors
  establish it; conversions (any form, any chain) and writes through mutable accessors keep it.
-/
namespace Truc.Mach
open Truc.Gen

/-- what a generated module must satisfy for its code to be usable (consequences of C01/C02/C12 +
    naming hypothesis + "only plain-old-data may stay uninitialised") -/
structure ModuleWF (dr : String → Bool) (cap : Nat) (specs : List Spec) : Prop where
  data : ∀ s ∈ specs, WFData cap s.data
  pod  : ∀ s ∈ specs, ∀ d ∈ s.data, d.uninit = true → dr d.ty = false
  conv : ∀ k s0 s, specs[k]? = some s0 → specs[k + 1]? = some s →
    ConvWF cap s0.data s.data s.minus s.plus ∧ "record" ∉ s.minus.map (·.name) ∧
    (∀ p ∈ s.plus, p.size = 0 → dr p.ty = true)

/-- the record built by the full constructor satisfies the invariant -/
theorem ctorNew_inv (dr : String → Bool) (cap : Nat) (s : Spec) (hwf : WFData cap s.data) (vals : List Val)
    (hl : vals.length = s.data.length) (hty : ∀ p ∈ s.data.zip vals, p.2.ty = p.1.ty) :
    ∃ b st, call dr cap (ctorNew s) { args := [("from", fieldsOf s.data vals)] } = .ok st ∧ st.result = .record b ∧
      b.cap = cap ∧ RecInv dr b s.data := by
  obtain ⟨b, st, hcall, hres, hc, _, _, _, _, hs⟩ := ctorNew_ok dr cap s hwf vals hl hty
  refine ⟨b, st, hcall, hres, hc, ?_⟩
  refine RecInv.of_stores dr cap (s.data.zip vals) b hs hty (zip_pairwise_apart hwf.apart) s.data
    (fun w hw => (List.of_mem_zip hw).1) ?_
  intro d hd hn
  exfalso
  obtain ⟨v, hv⟩ := mem_zip_of_mem hl hd
  exact hn (List.mem_map.2 ⟨(d, v), hv, rfl⟩)

/-- the record built by the uninit constructor satisfies it too: the fields left out are plain-old-data -/
theorem ctorNewUninit_inv (dr : String → Bool) (cap : Nat) (s : Spec) (hwf : WFData cap s.data)
    (hpod : ∀ d ∈ s.data, d.uninit = true → dr d.ty = false) (vals : List Val)
    (hl : vals.length = (s.data.filter (fun d => !d.uninit)).length)
    (hty : ∀ p ∈ (s.data.filter (fun d => !d.uninit)).zip vals, p.2.ty = p.1.ty) :
    ∃ b st, call dr cap (ctorNewUninit s) { args := [("from", fieldsOf (s.data.filter (fun d => !d.uninit)) vals)] } = .ok st ∧
      st.result = .record b ∧ b.cap = cap ∧ RecInv dr b s.data := by
  obtain ⟨b, st, hcall, hres, hc, _, _, _, hs⟩ := ctorNewUninit_ok dr cap s hwf vals hl hty
  refine ⟨b, st, hcall, hres, hc, ?_⟩
  refine RecInv.of_stores dr cap _ b hs hty (zip_pairwise_apart (hwf.filter _).apart) s.data
    (fun w hw => (List.mem_filter.1 (List.of_mem_zip hw).1).1) ?_
  intro d hd hn
  have hun : d.uninit = true := by
    cases hu : d.uninit with
    | true => rfl
    | false =>
      exfalso
      have hdf : d ∈ s.data.filter (fun d => !d.uninit) := List.mem_filter.2 ⟨hd, by simp [hu]⟩
      obtain ⟨v, hv⟩ := mem_zip_of_mem hl hdf
      exact hn (List.mem_map.2 ⟨(d, v), hv, rfl⟩)
  refine ⟨hpod d hd hun, ?_⟩
  intro w hw
  have hw1 := List.mem_filter.1 (List.of_mem_zip hw).1
  refine apart_of_pairwise hwf.apart hw1.1 hd ?_
  intro heq
  rw [heq, hun] at hw1
  simp at hw1

end Truc.Mach

namespace Truc.Mach
open Truc.Gen

theorem keyOf_setVal (d' : D) (e : Ext) (v : Val) (h : v.ty = e.val.ty) : keyOf d' { e with val := v } = keyOf d' e := by
  simp [keyOf, h]

theorem cnt_setFirst (d d' : D) (v : Val) (hv : v.ty = d.ty) : ∀ (l : List Ext), cnt d' (setFirst d v l) = cnt d' l := by
  intro l
  induction l with
  | nil => rfl
  | cons x xs ih =>
    unfold setFirst
    cases hk : keyOf d x with
    | true =>
      have hk' : (x.off == d.offset && x.size == d.size && x.val.ty == d.ty && !x.moved) = true := hk
      have hty : v.ty = x.val.ty := by
        unfold keyOf at hk
        simp only [Bool.and_eq_true, beq_iff_eq] at hk
        rw [hv, hk.1.2]
      simp only [hk', if_true, cnt_cons, keyOf_setVal d' x v hty]
    | false =>
      have hk' : (x.off == d.offset && x.size == d.size && x.val.ty == d.ty && !x.moved) = false := hk
      simp only [hk', Bool.false_eq_true, if_false, cnt_cons, ih]

theorem mem_setFirst (d : D) (v : Val) : ∀ (l : List Ext) (x : Ext), x ∈ setFirst d v l →
    x ∈ l ∨ ∃ e ∈ l, keyOf d e = true ∧ x = { e with val := v } := by
  intro l
  induction l with
  | nil => intro x hx; simp [setFirst] at hx
  | cons y ys ih =>
    intro x hx
    unfold setFirst at hx
    split at hx
    · rename_i hk
      rcases List.mem_cons.1 hx with rfl | hx
      · right; exact ⟨y, List.mem_cons_self, hk, rfl⟩
      · left; exact List.mem_cons_of_mem _ hx
    · rcases List.mem_cons.1 hx with rfl | hx
      · left; exact List.mem_cons_self
      · rcases ih x hx with h | ⟨e, he, hk, rfl⟩
        · left; exact List.mem_cons_of_mem _ h
        · right; exact ⟨e, List.mem_cons_of_mem _ he, hk, rfl⟩

theorem found_iff_cnt (b : Buf) (d : D) : (∃ e, b.find d = some e) ↔ 0 < cnt d b.exts := by
  constructor
  · rintro ⟨e, he⟩; rw [find_eq] at he; exact cnt_pos_of_find he
  · intro h
    cases hf : b.find d with
    | some e => exact ⟨e, rfl⟩
    | none => rw [find_eq, find_none_iff_cnt] at hf; omega

/-- a write through a mutable accessor keeps the invariant -/
theorem assign_inv (dr : String → Bool) (b : Buf) (ds : List D) (hinv : RecInv dr b ds) (d : D) (hd : d ∈ ds) (v : Val)
    (hv : v.ty = d.ty) : RecInv dr (b.assign dr d v).1 ds := by
  unfold Buf.assign
  cases hf : b.find d with
  | some e =>
    simp only
    refine ⟨?_, ?_, ?_⟩
    · intro x hx hm hdr
      rcases mem_setFirst d v b.exts x hx with h | ⟨e0, he0, hk, rfl⟩
      · exact hinv.owned x h hm hdr
      · refine ⟨d, hd, ?_⟩
        have hty : v.ty = e0.val.ty := by
          unfold keyOf at hk
          simp only [Bool.and_eq_true, beq_iff_eq] at hk
          rw [hv, hk.1.2]
        rw [keyOf_setVal d e0 v hty]; exact hk
    · intro d' hd' hdr
      simp only
      rw [cnt_setFirst d d' v hv]; exact hinv.atMost d' hd' hdr
    · intro d' hd' hdr
      rw [found_iff_cnt]
      simp only
      rw [cnt_setFirst d d' v hv, ← found_iff_cnt]
      exact hinv.found d' hd' hdr
  | none =>
    simp only
    -- a field that is not found is plain-old-data
    have hpod : dr d.ty = false := by
      cases hdr : dr d.ty with
      | false => rfl
      | true => obtain ⟨e, he⟩ := hinv.found d hd hdr; rw [hf] at he; simp at he
    have hnewkey : ∀ d', dr d'.ty = true → keyOf d' (Ext.mk d.offset d.size v false) = false := by
      intro d' hdr
      cases hk : keyOf d' (Ext.mk d.offset d.size v false) with
      | false => rfl
      | true =>
        exfalso
        unfold keyOf at hk
        simp only [Bool.and_eq_true, beq_iff_eq] at hk
        rw [← hk.1.2, hv, hpod] at hdr; simp at hdr
    refine ⟨?_, ?_, ?_⟩
    · intro x hx hm hdr
      rcases List.mem_append.1 hx with h | h
      · exact hinv.owned x h hm hdr
      · simp only [List.mem_singleton] at h; subst h
        simp only at hdr; rw [hv, hpod] at hdr; simp at hdr
    · intro d' hd' hdr
      simp only
      rw [cnt_append, cnt_cons, hnewkey d' hdr]
      have := hinv.atMost d' hd' hdr
      simp [cnt_nil]; omega
    · intro d' hd' hdr
      rw [found_iff_cnt]
      simp only
      rw [cnt_append]
      have := (found_iff_cnt b d').1 (hinv.found d' hd' hdr)
      omega

/-- the records generated code can produce: built by a constructor, converted (any form), written to -/
inductive Reach (dr : String → Bool) (cap : Nat) (specs : List Spec) : Nat → Buf → Prop where
  | new (k : Nat) (s : Spec) (vals : List Val) (st : St) (b : Buf) :
      specs[k]? = some s → vals.length = s.data.length → (∀ p ∈ s.data.zip vals, p.2.ty = p.1.ty) →
      call dr cap (ctorNew s) { args := [("from", fieldsOf s.data vals)] } = .ok st → st.result = .record b → Reach dr cap specs k b
  | newUninit (k : Nat) (s : Spec) (vals : List Val) (st : St) (b : Buf) :
      specs[k]? = some s → vals.length = (s.data.filter (fun d => !d.uninit)).length →
      (∀ p ∈ (s.data.filter (fun d => !d.uninit)).zip vals, p.2.ty = p.1.ty) →
      call dr cap (ctorNewUninit s) { args := [("from", fieldsOf (s.data.filter (fun d => !d.uninit)) vals)] } = .ok st →
      st.result = .record b → Reach dr cap specs k b
  | conv (k : Nat) (s0 s : Spec) (b0 : Buf) (uninit andOut : Bool) (vals : List Val) (st : St) (b2 : Buf) :
      Reach dr cap specs k b0 → specs[k]? = some s0 → specs[k + 1]? = some s →
      vals.length = (plusWritten s uninit).length → (∀ p ∈ (plusWritten s uninit).zip vals, p.2.ty = p.1.ty) →
      call dr cap (convFn s uninit andOut)
        { from_ := some b0, fromGlue := some s0.data, args := [("plus", fieldsOf (plusWritten s uninit) vals)] } = .ok st →
      (st.result = .record b2 ∨ ∃ fs, st.result = .struct fs (some b2)) → Reach dr cap specs (k + 1) b2
  | set (k : Nat) (s : Spec) (b : Buf) (d : D) (v : Val) :
      Reach dr cap specs k b → specs[k]? = some s → d ∈ s.data → v.ty = d.ty → Reach dr cap specs k (b.assign dr d v).1

theorem assign_cap (dr : String → Bool) (b : Buf) (d : D) (v : Val) : (b.assign dr d v).1.cap = b.cap := by
  unfold Buf.assign; split <;> rfl

/-- **every reachable record satisfies the invariant** (induction over how it was produced) -/
theorem reach_inv (dr : String → Bool) (cap : Nat) (specs : List Spec) (hm : ModuleWF dr cap specs) :
    ∀ k b, Reach dr cap specs k b → ∃ s, specs[k]? = some s ∧ b.cap = cap ∧ RecInv dr b s.data := by
  intro k b h
  induction h with
  | new k s vals st b hs hl hty hcall hres =>
    have hmem : s ∈ specs := List.mem_of_getElem? hs
    obtain ⟨b', st', hcall', hres', hc, hinv⟩ := ctorNew_inv dr cap s (hm.data s hmem) vals hl hty
    rw [hcall] at hcall'
    simp only [Except.ok.injEq] at hcall'
    subst hcall'
    rw [hres] at hres'
    simp only [Result.record.injEq] at hres'
    subst hres'
    exact ⟨s, hs, hc, hinv⟩
  | newUninit k s vals st b hs hl hty hcall hres =>
    have hmem : s ∈ specs := List.mem_of_getElem? hs
    obtain ⟨b', st', hcall', hres', hc, hinv⟩ := ctorNewUninit_inv dr cap s (hm.data s hmem) (hm.pod s hmem) vals hl hty
    rw [hcall] at hcall'
    simp only [Except.ok.injEq] at hcall'
    subst hcall'
    rw [hres] at hres'
    simp only [Result.record.injEq] at hres'
    subst hres'
    exact ⟨s, hs, hc, hinv⟩
  | conv k s0 s b0 uninit andOut vals st b2 _ hs0 hs hl hty hcall hres ih =>
    obtain ⟨s0', hs0', hc0, hinv0⟩ := ih
    rw [hs0] at hs0'
    simp only [Option.some.injEq] at hs0'
    subst hs0'
    obtain ⟨hcw, hrec, hz⟩ := hm.conv k s0 s hs0 hs
    have hmem : s ∈ specs := List.mem_of_getElem? hs
    have hpod : ∀ d ∈ s.plus, d.uninit = true → dr d.ty = false := fun d hd => hm.pod s hmem d (hcw.plusSub.subset hd)
    obtain ⟨b2', st', hcall', hc2, hresult, _, _, hinv2⟩ := conv_ok dr cap s0 s uninit andOut hcw b0 hc0 hinv0 hrec hpod hz vals hl hty
    rw [hcall] at hcall'
    simp only [Except.ok.injEq] at hcall'
    subst hcall'
    have hb : b2 = b2' := by
      cases andOut with
      | false =>
        simp only [Bool.false_eq_true, if_false] at hresult
        rcases hres with h | ⟨fs, h⟩
        · rw [hresult.1] at h; simp at h; exact h.symm
        · rw [hresult.1] at h; simp at h
      | true =>
        simp only [if_true] at hresult
        rcases hres with h | ⟨fs, h⟩
        · rw [hresult.1] at h; simp at h
        · rw [hresult.1] at h; simp at h; exact h.2.symm
    subst hb
    exact ⟨s, hs, hc2, hinv2⟩
  | set k s b d v _ hs hd hv ih =>
    obtain ⟨s', hs', hc, hinv⟩ := ih
    rw [hs] at hs'
    simp only [Option.some.injEq] at hs'
    subst hs'
    exact ⟨s, hs, by rw [assign_cap]; exact hc, assign_inv dr b s.data hinv d hd v hv⟩

end Truc.Mach

namespace Truc.Mach
open Truc.Gen

theorem recinv_loadable {dr : String → Bool} {b : Buf} {ds : List D} (hinv : RecInv dr b ds) :
    ∀ d ∈ ds, (∃ e, b.find d = some e) ∨ dr d.ty = false := by
  intro d hd
  by_cases hdr : dr d.ty = true
  · left; exact hinv.found d hd hdr
  · right; simpa using hdr

/-- **Drop** of any record satisfying the invariant: no machine error; exactly the droppable values
    of its fields are destroyed (one entry per droppable field) -/
theorem drop_inv_ok (dr : String → Bool) (cap : Nat) (s : Spec) (b : Buf) (hcap : b.cap = cap) (hwf : WFData cap s.data)
    (hinv : RecInv dr b s.data) :
    ∃ st, call dr cap (dropFn s) { self_ := some b } = .ok st ∧
      st.drops = (s.data.map (valOf b)).filter (fun v => dr v.ty) ∧
      st.acc = s.data.map (fun d => ("read", d.offset, d.ty)) := by
  obtain ⟨b', hload, _⟩ := loadAll_gen dr s.data b (fun d hd => by rw [hcap]; exact hwf.inCap d hd) (recinv_loadable hinv)
    (hwf.apart.imp (fun h => h.2))
  have hreads := run_reads_self dr cap (fun d => "_" ++ d.name) s.data { self_ := some b } b _ b' rfl hload
  refine ⟨{ self_ := some b', locals := [], args := [],
            drops := [] ++ (((s.data.map fun d => "_" ++ d.name).zip (s.data.map (valOf b))).map (·.2)).filter (fun v => dr v.ty) ++ [] ++ [] ++ [],
            acc := [] ++ s.data.map (fun d => ("read", d.offset, d.ty)) }, ?_, ?_, by simp⟩
  · unfold call dropFn
    simp only
    rw [hreads]
    simp [finish]
  · simp only [List.nil_append, List.append_nil]
    congr 1
    rw [List.map_snd_zip]
    simp

/-- **unpack** of any record satisfying the invariant: no machine error, nothing destroyed, the
    values of the fields handed back in field order -/
theorem unpack_inv_ok (dr : String → Bool) (cap : Nat) (s : Spec) (b : Buf) (hcap : b.cap = cap) (hwf : WFData cap s.data)
    (hrec : "record" ∉ s.data.map (·.name)) (hinv : RecInv dr b s.data) :
    ∃ st, call dr cap (unpackFn s) { self_ := some b, selfGlue := some s.data } = .ok st ∧
      st.result = .struct ((s.data.map (·.name)).zip (s.data.map (valOf b))) none ∧ st.drops = [] := by
  obtain ⟨b', hload, _⟩ := loadAll_gen dr s.data b (fun d hd => by rw [hcap]; exact hwf.inCap d hd) (recinv_loadable hinv)
    (hwf.apart.imp (fun h => h.2))
  have hreads := run_reads_self dr cap (fun d => d.name) s.data { self_ := some b, selfGlue := some s.data } b _ b' rfl hload
  have hlen : (s.data.map (valOf b)).length = (s.data.map (·.name)).length := by simp
  have hnames : (s.data.map (·.name)).filter (· != "record") = s.data.map (·.name) := by
    rw [List.filter_eq_self]
    intro n hn
    simp only [bne_iff_ne, ne_eq]
    intro heq; exact hrec (heq ▸ hn)
  have hpick := filterMap_find ((s.data.map (·.name)).zip (s.data.map (valOf b))) (s.data.map (·.name)) _ hlen (find_zip_names _ _ hwf.names)
  refine ⟨{ self_ := some b', selfGlue := none, locals := [], args := [],
            result := .struct ((s.data.map (·.name)).zip (s.data.map (valOf b))) none,
            acc := [] ++ s.data.map (fun d => ("read", d.offset, d.ty)) }, ?_, rfl, rfl⟩
  unfold call unpackFn
  simp only
  rw [run_append, hreads]
  simp only [run, step, List.nil_append, hnames]
  rw [hpick]
  simp [finish]
  intro a x hx hn
  exfalso
  obtain ⟨d, hd, hdn⟩ := List.mem_map.1 (List.of_mem_zip hx).1
  exact hn d hd hdn

/-- **accessors** on any record of the right capacity: no machine error for a field that is found or
    is plain-old-data -/
theorem get_inv_ok (dr : String → Bool) (cap : Nat) (sig : String) (s : Spec) (b : Buf) (hcap : b.cap = cap)
    (hwf : WFData cap s.data) (hinv : RecInv dr b s.data) (d : D) (hd : d ∈ s.data) :
    call dr cap ⟨sig, [.get d]⟩ { self_ := some b } = .ok { self_ := some b, result := .ref (valOf b d), acc := [("get", d.offset, d.ty)] } := by
  have hc : ¬ (d.offset + d.size > b.cap) := by rw [hcap]; exact Nat.not_lt.2 (hwf.inCap d hd)
  rcases recinv_loadable hinv d hd with ⟨e, he⟩ | hp
  · simp [call, run, step, finish, he, hc, valOf]
  · cases hf : b.find d with
    | some e => simp [call, run, step, finish, hf, hc, valOf]
    | none => simp [call, run, step, finish, hf, hc, hp, valOf]

end Truc.Mach
