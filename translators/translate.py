#!/usr/bin/env python3
"""Translators: regenerate Lean definitions from /repo's current source.
  truc_runtime/src/data.rs  -> TrucModel/Generated/Primitives.lean   (the four storage primitives)
  native/variant/mod.rs     -> TrucModel/Generated/AlignBytes.lean    (align_bytes)
Anything outside the recognised shapes becomes `unknown`, on which the obligations are unprovable."""
import os, re, sys

REPO = os.environ.get("TRUC_REPO", "/repo")
OUT = os.path.join(os.path.dirname(os.path.dirname(os.path.abspath(__file__))), "lean", "TrucModel", "TrucModel", "Generated")


def strip_comments(src):
    src = re.sub(r"//[^\n]*", "", src)
    return re.sub(r"/\*.*?\*/", "", src, flags=re.S)


def fn_body(src, name):
    """text of `fn name...{ body }` (brace matching)"""
    m = re.search(r"\bfn\s+" + name + r"\s*(<[^>]*>)?\s*\(", src)
    if not m:
        return None, None
    i = src.index("{", m.end())
    sig = src[m.start():i]
    depth = 0
    for j in range(i, len(src)):
        if src[j] == "{":
            depth += 1
        elif src[j] == "}":
            depth -= 1
            if depth == 0:
                return sig, src[i + 1:j]
    return sig, None


ALLOWED_IDENTS = {"self", "data", "as_ptr", "as_mut_ptr", "add", "byte_add", "offset", "cast", "as", "const", "mut", "u8", "T", "std", "core",
                  "ptr", "read", "read_unaligned", "write", "write_unaligned", "t", "let", "unsafe", "MaybeUninit", "mem", "usize", "isize", "cast_const"}


def classify_access(body):
    """straight-line bodies only: exactly one access operation on a pointer derived from `self.data`, whatever the spelling
    (free function or method, turbofish or inferred cast, intermediate `let` bindings); anything else is `unknown`"""
    b = body
    if re.search(r"\b(if|match|while|for|loop|return|else)\b", b):
        return ".unknown"
    bound = set(re.findall(r"\blet\s+(?:mut\s+)?([a-z_][a-z0-9_]*)\b", b))
    idents = set(re.findall(r"[A-Za-z_][A-Za-z0-9_]*", b))
    if not idents <= (ALLOWED_IDENTS | bound):
        return ".unknown"
    c = re.sub(r"\s+", "", b)
    ops = []
    ops += [".ptrReadUnaligned"] * (len(re.findall(r"ptr::read_unaligned\(", c)) + len(re.findall(r"\.read_unaligned\(\)", c)))
    ops += [".ptrWriteUnaligned"] * (len(re.findall(r"ptr::write_unaligned\(", c)) + len(re.findall(r"\.write_unaligned\(t\)", c)))
    ops += [".ptrRead"] * (len(re.findall(r"ptr::read\(", c)) + len(re.findall(r"\.read\(\)", c)))
    ops += [".ptrWrite"] * (len(re.findall(r"ptr::write\(", c)) + len(re.findall(r"\.write\(t\)", c)))
    ops += [".refMut"] * len(re.findall(r"&mut\*", c))
    ops += [".refShared"] * len(re.findall(r"&\*", c))
    if len(ops) != 1:
        return ".unknown"
    return ops[0]


def split_args(text):
    out, cur, depth = [], "", 0
    for ch in text:
        if ch in "([{<":
            depth += 1
        elif ch in ")]}>":
            depth -= 1
        if ch == "," and depth == 0:
            out.append(cur.strip()); cur = ""
        else:
            cur += ch
    if cur.strip():
        out.append(cur.strip())
    return out


def inline_helpers(src, body, depth=2):
    """`self.helper::<..>(args)` where `helper` is another method of the same file with a straight-line body (`let`s and a tail
    expression, no control flow): its `let`s are hoisted and the call replaced by its tail expression, parameters substituted.
    Anything else is left alone (and then fails the identifier allow-list: `unknown`)."""
    for _ in range(depth):
        m = re.search(r"\bself\s*\.\s*([a-z_][a-z0-9_]*)\s*(?:::\s*<[^>]*>)?\s*\(", body)
        found = False
        for m in re.finditer(r"\bself\s*\.\s*([a-z_][a-z0-9_]*)\s*(?:::\s*<[^>]*>)?\s*\(", body):
            name = m.group(1)
            if name in ("read", "write", "get", "get_mut"):
                continue
            hsig, hbody = fn_body(src, name)
            if hbody is None or re.search(r"\b(if|match|while|for|loop|return|else|fn)\b", hbody):
                continue
            # argument list of the call
            i = m.end(); d = 1; j = i
            while j < len(body) and d:
                d += body[j] == "("; d -= body[j] == ")"; j += 1
            args = split_args(body[i:j - 1])
            pm = re.search(r"\(([^)]*)\)", hsig[hsig.index(name):])
            params = [x.split(":")[0].strip() for x in split_args(pm.group(1))] if pm else []
            params = [x for x in params if not re.fullmatch(r"&?\s*(mut\s+)?self", x)]
            if len(params) != len(args):
                continue
            hb = re.sub(r"#\[cfg\(feature\s*=\s*\"verif-hooks\"\)\]\s*[^;]*;", "", hbody)
            for prm, a in zip(params, args):
                if prm != a:
                    hb = re.sub(r"\b" + re.escape(prm) + r"\b", "(" + a + ")", hb)
            stmts = hb.rsplit(";", 1)
            lets, tail = (stmts[0] + ";", stmts[1]) if len(stmts) == 2 else ("", stmts[0])
            if not tail.strip():
                continue
            body = lets + body[:m.start()] + "(" + tail.strip() + ")" + body[j:]
            found = True
            break
        if not found:
            break
    return body


def primitive(src, name):
    sig, body = fn_body(src, name)
    if body is None:
        return dict(mutRecv="false", ptr=".unknown", access=".unknown", addsOffset="false", note="function not found")
    # drop cfg-gated hook lines (they only log)
    body = re.sub(r"#\[cfg\(feature\s*=\s*\"verif-hooks\"\)\]\s*[^;]*;", "", body)
    body = inline_helpers(src, body)
    b = re.sub(r"\s+", "", body)
    mut_recv = "true" if re.search(r"&\s*mut\s+self", sig) else "false"
    ptrs = set(re.findall(r"self\.data\.(as_ptr|as_mut_ptr)\(\)", b))
    ptr = ".unknown"
    if ptrs == {"as_ptr"}:
        ptr = ".asPtr"
    elif ptrs == {"as_mut_ptr"}:
        ptr = ".asMutPtr"
    access = classify_access(body)
    adds = "true" if re.search(r"\.(add|byte_add)\(offset\)", b) else "false"
    return dict(mutRecv=mut_recv, ptr=ptr, access=access, addsOffset=adds, note=b[:160].replace('"', "'"))


def gen_primitives():
    src = strip_comments(open(os.path.join(REPO, "truc_runtime/src/data.rs")).read())
    src = src.split("#[cfg(test)]")[0]
    out = ["/- GENERATED by translators/translate.py from truc_runtime/src/data.rs on every run. Do not edit. -/",
           "namespace Truc.Generated", "",
           "inductive PtrFrom | asPtr | asMutPtr | unknown", "deriving Repr, DecidableEq", "",
           "inductive AccessKind | ptrRead | ptrReadUnaligned | ptrWrite | ptrWriteUnaligned | refShared | refMut | unknown",
           "deriving Repr, DecidableEq", "",
           "structure Prim where", "  mutRecv : Bool", "  ptr : PtrFrom", "  access : AccessKind", "  addsOffset : Bool",
           "deriving Repr, DecidableEq", ""]
    for lean_name, rust_name in [("primRead", "read"), ("primWrite", "write"), ("primGet", "get"), ("primGetMut", "get_mut")]:
        p = primitive(src, rust_name)
        out.append(f"/-- `{rust_name}`: {p['note']} -/")
        out.append(f"def {lean_name} : Prim := ⟨{p['mutRecv']}, {p['ptr']}, {p['access']}, {p['addsOffset']}⟩")
        out.append("")
    out.append("end Truc.Generated")
    return "\n".join(out) + "\n"


def expr_to_lean(e):
    """arithmetic over identifiers, + - * / and parentheses only"""
    e = e.strip().rstrip(";").strip()
    if not re.fullmatch(r"[A-Za-z_0-9\s+\-*/()]+", e):
        return None
    return e


def gen_align():
    src = strip_comments(open(os.path.join(REPO, "truc/src/record/definition/builder/native/variant/mod.rs")).read())
    sig, body = fn_body(src, "align_bytes")
    ok = False
    lean = "0"
    params = ["caret", "align"]
    if body is not None:
        m = re.search(r"\(([^)]*)\)", sig[sig.index("align_bytes"):])
        names = [x.split(":")[0].strip() for x in m.group(1).split(",")] if m else []
        e = expr_to_lean(body)
        if e is not None and len(names) == 2:
            params, lean, ok = names, e, True
    out = ["/- GENERATED by translators/translate.py from native/variant/mod.rs (`align_bytes`) on every run. Do not edit. -/",
           "namespace Truc.Generated", "",
           f"/-- recognised: {str(ok).lower()} -/",
           f"def alignBytesRecognised : Bool := {str(ok).lower()}", "",
           f"def alignBytes ({params[0]} {params[1]} : Nat) : Nat := {lean}", "",
           "end Truc.Generated"]
    return "\n".join(out) + "\n"


def write_if_changed(path, text):
    if os.path.exists(path) and open(path).read() == text:
        return False
    open(path, "w").write(text)
    return True


def main():
    os.makedirs(OUT, exist_ok=True)
    a = write_if_changed(os.path.join(OUT, "Primitives.lean"), gen_primitives())
    b = write_if_changed(os.path.join(OUT, "AlignBytes.lean"), gen_align())
    print("translated", "Primitives(changed)" if a else "Primitives", "AlignBytes(changed)" if b else "AlignBytes")


if __name__ == "__main__":
    main()
