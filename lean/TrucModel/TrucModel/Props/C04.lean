import TrucModel.Proofs.Memory
import TrucModel.Proofs.Refine
import TrucModel.Proofs.EndToEnd
import TrucModel.Generated.Primitives
import TrucModel.Proofs.MachineWFProps
/-
  C04 — A record gives back exactly the field values that were put into it.
  (1) obligation on the *translated* primitives: every store and every `&mut` goes through a pointer
      derived with write permission (`as_mut_ptr` on `&mut self`) — otherwise the optimiser may drop
      the store (the pinned tree's defect);
  (2) the byte-level memory facts: a stored value is read back; a store leaves every datum whose
      extent is apart from it untouched.
-/
namespace Truc.Mach
open Truc.Gen Truc.Generated

theorem C04_store_permission :
    primWrite.mutRecv = true ∧ primWrite.ptr = .asMutPtr ∧ primGetMut.mutRecv = true ∧ primGetMut.ptr = .asMutPtr ∧
    primWrite.addsOffset = true ∧ primGetMut.addsOffset = true ∧ primRead.addsOffset = true ∧ primGet.addsOffset = true := by
  decide

/-- … and each of the four primitives is *recognised* by the translator as one plain access of its kind (a store that
    stores the whole value, a load, a shared and a mutable reference): a body that copies the value piecewise, conditionally
    or through anything else the translator does not know leaves this obligation unprovable, whatever it computes -/
theorem C04_primitives_are_plain_accesses :
    (primWrite.access = .ptrWriteUnaligned ∨ primWrite.access = .ptrWrite) ∧
    (primRead.access = .ptrRead ∨ primRead.access = .ptrReadUnaligned) ∧
    primGet.access = .refShared ∧ primGetMut.access = .refMut := by
  decide

/-- what was stored is what is loaded (the store itself succeeds when the target is inside the
    capacity and overwrites no value the record still owns) -/
theorem C04_store_load (dr : String → Bool) (b : Buf) (d : D) (v : Val) (hv : v.ty = d.ty)
    (hcap : d.offset + d.size ≤ b.cap)
    (hfree : ∀ e ∈ b.exts, overlaps e d.offset d.size = true → e.moved = true ∨ dr e.val.ty = false)
    (hfresh : ∀ e ∈ b.exts, overlaps e d.offset d.size = false → keyOf d e = false) :
    ∃ b', b.store dr d v = .ok b' ∧ ∃ b'', b'.load dr d = .ok (v, b'') := by
  obtain ⟨b', hs, hc, he⟩ := store_ok (dr := dr) (v := v) hcap hfree
  refine ⟨b', hs, ?_⟩
  have hfind : b'.find d = some (Ext.mk d.offset d.size v false) := by
    rw [find_eq, he]
    apply find_after_store_same _ _ _ hv
    intro e hem
    have := List.mem_filter.1 hem
    exact hfresh e this.1 (by simpa using this.2)
  unfold Buf.load
  rw [if_neg (by rw [hc]; omega), hfind]
  exact ⟨_, rfl⟩

/-- a store changes no other field: whatever was found for a datum apart from the stored one is
    still found, unchanged -/
theorem C04_store_frame (dr : String → Bool) (b b' : Buf) (d d' : D) (v : Val) (hv : v.ty = d.ty)
    (hcap : d.offset + d.size ≤ b.cap)
    (hfree : ∀ e ∈ b.exts, overlaps e d.offset d.size = true → e.moved = true ∨ dr e.val.ty = false)
    (hs : b.store dr d v = .ok b') (hap : Apart d d') : b'.find d' = b.find d' := by
  obtain ⟨b2, hs2, _, he⟩ := store_ok (dr := dr) (v := v) hcap hfree
  rw [hs] at hs2
  simp only [Except.ok.injEq] at hs2
  subst hs2
  rw [find_eq, find_eq, he]
  exact find_after_store_other _ _ _ _ hv hap

/-- **program level.** For every variant whose fields have distinct names, pairwise apart extents inside
    the capacity (what C01/C02/C12 give) and for every assignment of values: the generated constructor
    runs without machine error, and afterwards the generated read accessor of *every* field returns
    exactly the value supplied for it. -/
theorem C04_new_get (dr : String → Bool) (cap : Nat) (s : Spec) (hwf : WFData cap s.data) (vals : List Val)
    (hl : vals.length = s.data.length) (hty : ∀ p ∈ s.data.zip vals, p.2.ty = p.1.ty) :
    ∃ b st, call dr cap (ctorNew s) { args := [("from", fieldsOf s.data vals)] } = .ok st ∧ st.result = .record b ∧ st.drops = [] ∧
      ∀ p ∈ s.data.zip vals, ∀ sig,
        call dr cap ⟨sig, [.get p.1]⟩ { self_ := some b } = .ok { self_ := some b, result := .ref p.2, acc := [("get", p.1.offset, p.1.ty)] } := by
  obtain ⟨b, st, hcall, hres, hcap, hdrops, _, hfound, _, _⟩ := ctorNew_ok dr cap s hwf vals hl hty
  refine ⟨b, st, hcall, hres, hdrops, ?_⟩
  intro p hp sig
  have := get_ok dr cap sig b p.1 _ (by rw [hcap]; exact hwf.inCap p.1 (List.of_mem_zip hp).1) (hfound p hp)
  simpa using this

/-- … and unpacking it hands back exactly those values, in field order, dropping nothing -/
theorem C04_new_unpack (dr : String → Bool) (cap : Nat) (s : Spec) (hwf : WFData cap s.data) (hrec : "record" ∉ s.data.map (·.name))
    (vals : List Val) (hl : vals.length = s.data.length) (hty : ∀ p ∈ s.data.zip vals, p.2.ty = p.1.ty) :
    ∃ b st st', call dr cap (ctorNew s) { args := [("from", fieldsOf s.data vals)] } = .ok st ∧ st.result = .record b ∧
      call dr cap (unpackFn s) { self_ := some b, selfGlue := some s.data } = .ok st' ∧
      st'.result = .struct ((s.data.map (·.name)).zip vals) none ∧ st'.drops = [] := by
  obtain ⟨b, st, hcall, hres, hcap, _, _, hfound, _, _⟩ := ctorNew_ok dr cap s hwf vals hl hty
  obtain ⟨st', hu, hr, hd, _⟩ := unpack_ok dr cap s b hcap hwf hrec (fun d hd => by
    obtain ⟨i, hi, rfl⟩ := List.mem_iff_getElem.1 hd
    exact ⟨_, hfound (s.data[i], vals[i]'(by omega)) (by rw [List.mem_iff_getElem]; exact ⟨i, by simp [hl]; exact hi, by simp⟩)⟩)
  refine ⟨b, st, st', hcall, hres, hu, ?_, hd⟩
  rw [hr]
  congr 2
  apply List.ext_getElem
  · simp [hl]
  · intro i h1 h2
    simp only [List.getElem_map]
    have hi : i < s.data.length := by simpa using h1
    rw [hfound (s.data[i], vals[i]'(by omega)) (by rw [List.mem_iff_getElem]; exact ⟨i, by simp [hl]; exact hi, by simp⟩)]
    rfl

/-- a write through one field's mutable accessor changes that field and no other -/
theorem C04_set_frame (dr : String → Bool) (b : Buf) (d : D) (e : Ext) (v : Val) (hv : v.ty = d.ty) (hf : b.find d = some e) :
    (b.assign dr d v).1.find d = some { e with val := v } ∧
    (∀ d', KeyNe d d' → (b.assign dr d v).1.find d' = b.find d') ∧
    (b.assign dr d v).2 = (if dr d.ty then [e.val] else []) :=
  ⟨(assign_ok dr b d e v hv hf).2.1, (assign_ok dr b d e v hv hf).2.2, (assign_ok dr b d e v hv hf).1⟩

/-- **end to end.** The premises (`ModuleWF`) of the generated-code theorems C04–C07 hold for the code
    generated from *every* definition built by a valid request history (any strategies, C01/C02/C12
    supply disjointness, capacity and unique names), for every capacity at least `max_size()`, provided
    the naming / typing hypotheses: no field is called `record`, only plain-old-data may stay
    uninitialised, zero-size fields are droppable markers and no two of the same type sit at the
    same address of one variant. -/
theorem C04_premises_hold_for_builder_output (dr : String → Bool) (reqs : List Req) (hv : ∀ r ∈ reqs, r.valid)
    (d : Definition) (hb : (Truc.run reqs).build = some d) (ms cap : Nat) (hms : d.maxSize = some ms) (hcap : ms ≤ cap)
    (hzk : ∀ v ∈ d.variants, ∀ a ∈ v, ∀ b ∈ v, a ≠ b → sz d.defs a = 0 → sz d.defs b = 0 → off d.defs a = off d.defs b →
      minTok (info d.defs a).ty ≠ minTok (info d.defs b).ty)
    (hnr : ∀ i ∈ d.defs, i.name ≠ "record") (hpod : ∀ i ∈ d.defs, i.uninit = true → dr (minTok i.ty) = false)
    (hzd : ∀ i ∈ d.defs, i.size = 0 → dr (minTok i.ty) = true) :
    ModuleWF dr cap (specs d) := by
  have hd : d = ⟨(Truc.run reqs).defs, (Truc.run reqs).variants⟩ := by
    unfold BState.build at hb
    split at hb
    · simp only [Option.some.injEq] at hb; exact hb.symm
    · simp at hb
  have hinv := reachable_inv2 reqs hv
  apply specs_moduleWF
  refine ⟨?_, ?_, ?_, hzk, hnr, hpod, hzd⟩
  · intro v hvm; rw [hd] at hvm ⊢; exact hinv.1.vinv v hvm
  · intro v hvm; rw [hd] at hvm ⊢; exact hinv.2.variants v hvm
  · intro v hvm id hid
    exact Nat.le_trans (maxSize_ge hms hvm hid) hcap

/-- … hence the executable premise check the driver evaluates on every compiled module (`xmod` answers `wf=…`, decided to be
    `ModuleWF` by `C07_premise_check_decides`) must answer `true` on every such definition: the count of modules on which it does is
    in the evidence (`modules_meeting_theorem_hypotheses`); modules with a field called `record` are the ones it refuses -/
theorem C04_premise_check_accepts_builder_output (dr : String → Bool) (reqs : List Req) (hv : ∀ r ∈ reqs, r.valid)
    (d : Definition) (hb : (Truc.run reqs).build = some d) (ms cap : Nat) (hms : d.maxSize = some ms) (hcap : ms ≤ cap)
    (hzk : ∀ v ∈ d.variants, ∀ a ∈ v, ∀ b ∈ v, a ≠ b → sz d.defs a = 0 → sz d.defs b = 0 → off d.defs a = off d.defs b →
      minTok (info d.defs a).ty ≠ minTok (info d.defs b).ty)
    (hnr : ∀ i ∈ d.defs, i.name ≠ "record") (hpod : ∀ i ∈ d.defs, i.uninit = true → dr (minTok i.ty) = false)
    (hzd : ∀ i ∈ d.defs, i.size = 0 → dr (minTok i.ty) = true) :
    moduleWFB dr cap (specs d) = true :=
  (moduleWFB_iff dr cap (specs d)).2 (C04_premises_hold_for_builder_output dr reqs hv d hb ms cap hms hcap hzk hnr hpod hzd)

/-- non-vacuity: two adjacent fields, one odd-sized -/
example : (match (do
    let b ← (⟨8, []⟩ : Buf).store (fun _ => false) ⟨0, "a", "P3", 3, 1, 0, false⟩ ⟨7, "P3"⟩
    let b ← b.store (fun _ => false) ⟨1, "b", "P4", 4, 4, 4, false⟩ ⟨9, "P4"⟩
    pure ((b.find ⟨0, "a", "P3", 3, 1, 0, false⟩).map (·.val.id), (b.find ⟨1, "b", "P4", 4, 4, 4, false⟩).map (·.val.id)) : Except MErr _) with
    | .ok r => r == (some 7, some 9)
    | .error _ => false) = true := by decide +kernel

end Truc.Mach
