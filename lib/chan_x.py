"""Channel X: generated modules compiled with rustc (debug+hook, release+hook, release without hook) and run;
events compared with the Lean abstract machine; independent oracles on the lab's own output."""
import json, os, shutil, subprocess, time, re
from common import *

LABT = os.path.join(WORK, "lab-target")
DROPPABLE = {"H", "O3", "A16", "Z", "Z8", "H40"}
ZST = {"Z", "Z8"}


def build_gen():
    return cargo_build(["chan_x"])


def make_lab(seed, ndefs, tag):
    lab = os.path.join(WORK, "lab", tag)
    if os.path.exists(lab):
        shutil.rmtree(lab)
    shutil.copytree(os.path.join(HARNESS, "lab_template"), lab)
    shutil.copy(os.path.join(REPO, "Cargo.lock"), lab)
    rc, out, err = sh([harness_bin("chan_x"), str(seed), str(ndefs), lab, os.path.join(lab, "req.txt")], timeout=600)
    if rc != 0:
        return None, err[-1000:]
    return lab, ""


def build_lab(lab, release, hooks):
    cmd = ["cargo", "build", "--offline"] + (["--release"] if release else []) + (["--features", "hooks"] if hooks else [])
    env = dict(ENV, CARGO_TARGET_DIR=LABT)
    rc, out, err = sh(cmd, cwd=lab, timeout=3600, env=env)
    binp = os.path.join(LABT, "release" if release else "debug", "lab")
    if rc != 0:
        return None, err
    name = f"lab-{'rel' if release else 'dbg'}-{'hook' if hooks else 'plain'}"
    dst = os.path.join(lab, name)
    shutil.copy(binp, dst)
    return dst, ""


def compile_errors(lab, stderr):
    """map rustc errors to the module (definition) they occur in and to the property they speak about"""
    src = open(os.path.join(lab, "src", "main.rs")).read().splitlines()
    owner = []
    cur = None
    for l in src:
        m = re.match(r"(?:mod|fn run_)m(\d+)", l)
        if m:
            cur = int(m.group(1))
        elif re.match(r"mod mempty1", l):
            cur = "empty1"
        elif re.match(r"mod mempty", l):
            cur = "empty"
        owner.append(cur)
    out = []
    for m in re.finditer(r"error(?:\[E\d+\])?: ([^\n]*)\n\s*--> src/main.rs:(\d+)", stderr):
        msg, line = m.group(1), int(m.group(2))
        mod = owner[line - 1] if line - 1 < len(owner) else None
        text = src[line - 1].strip()[:200] if line - 1 < len(src) else ""
        out.append({"module": mod, "message": msg, "source": text, "in_driver": bool(re.search(r"^\s*(let|\{|drop|\*)", src[line - 1])) if line - 1 < len(src) else False})
        if len(out) >= 20:
            break
    return out


def run_lab(binp, outdir):
    os.makedirs(outdir, exist_ok=True)
    p = subprocess.run([binp, outdir], capture_output=True, text=True, timeout=600)
    return p.returncode


def parse_defs(req):
    """independent reconstruction of the variants (as sets) and field list from the builder requests of each module"""
    mods = []
    cur = None
    for i, l in enumerate(req):
        t = l.split(" ")
        if t[0] == "reset":
            cur = {"fields": [], "variants": [], "pend_add": [], "pend_rm": [], "start": i, "ops": [], "extra": 0}
            mods.append(cur)
        elif t[0] == "add":
            cur["fields"].append({"name": t[1], "ty": t[2], "size": int(t[3]), "align": int(t[4]), "uninit": t[5] == "1"})
            cur["pend_add"].append(len(cur["fields"]) - 1)
        elif t[0] == "rm":
            if int(t[1]) in cur["pend_add"]:
                cur["pend_add"].remove(int(t[1]))      # an addition cancelled before the close
            else:
                cur["pend_rm"].append(int(t[1]))
        elif t[0] == "close":
            prev = cur["variants"][-1] if cur["variants"] else []
            if cur["pend_add"] or cur["pend_rm"] or not cur["variants"]:
                cur["variants"].append(sorted(set(prev) - set(cur["pend_rm"]) | set(cur["pend_add"])))
            cur["pend_add"], cur["pend_rm"] = [], []
        elif t[0] == "xmod":
            cur["extra"] = int(t[1])
        elif t[0] == "x":
            cur["ops"].append((i, t[1:]))
    return mods


def oracles(req, ev, access, prims):
    """independent spec-level simulation on the lab's own output. returns list of (prop, msg, line index)"""
    hits = []
    mods = parse_defs(req)
    xi = 0
    acc_by_op = {}
    for a in access:
        p = a.split(" ")
        acc_by_op.setdefault(int(p[0]), []).append(p)
    for m in mods:
        regs = {}   # reg -> (variant, {field: value or None})
        converted = set(); cloned = set(); deserialized = set()
        live = {}   # droppable value label -> count alive
        fields = m["fields"]

        def lab(fid, v):
            ty = fields[fid]["ty"]
            return ty if ty in ZST else f"{ty}{v}"

        def born(fid, v):
            if fields[fid]["ty"] in DROPPABLE:
                live[lab(fid, v)] = live.get(lab(fid, v), 0) + 1

        def died(label, where):
            if live.get(label, 0) <= 0:
                hits.append(("C06", f"value {label} destroyed although not alive (double drop / never stored)", where))
            else:
                live[label] -= 1

        for (li, t) in m["ops"]:
            if xi >= len(ev):
                hits.append((prop_of_op("x " + " ".join(str(z) for z in t)), "the compiled program stopped (crash / panic on valid input) at this operation: " + " ".join(str(z) for z in t), li))
                return hits
            e = ev[xi]; opi = xi; xi += 1
            parts = e.split(" | ")
            res = parts[0]
            drops = [x for x in parts[1][2:].split(",") if x] if len(parts) > 1 else []
            if t[0] not in ("clonebomb", "debad"):     # their drops are transient values, checked below
                for d in drops:
                    died(d, li)
            for a in acc_by_op.get(opi, []):
                kind, base, off, size, align, cap = a[1], int(a[2]), int(a[3]), int(a[4]), int(a[5]), int(a[6])
                if off + size > cap:
                    hits.append(("C07", f"{kind} of {a[7]} at offset {off} size {size} exceeds capacity {cap}", li))
                if kind in ("read", "get", "get_mut") and align and (base + off) % align != 0:
                    hits.append(("C07", f"{kind} of {a[7]} at address {base}+{off} is not aligned to {align}", li))
                if kind == "write" and prims.get("write_aligned_only") and align and (base + off) % align != 0:
                    hits.append(("C07", f"alignment-requiring store (ptr::write) of {a[7]} at address {base}+{off}, not aligned to {align}", li))
            op = t[0]
            if op == "sizes":
                szs = res.split(" ")[1].split(",") if " " in res else []
                if len(set(szs)) > 1:
                    hits.append(("C03", f"generated record types differ in size/alignment: {szs}", li))
                for vi, sa in enumerate(szs):
                    if "/" not in sa:
                        continue
                    A = int(sa.split("/")[1])
                    own = set(m["variants"][vi] if vi < len(m["variants"]) else [])
                    for f in own:
                        a = fields[f]["align"]
                        if a and A % a != 0:
                            hits.append(("C07", f"record type of variant {vi} has alignment {A}, not a multiple of field {fields[f]['name']}'s alignment {a}: references to it can be misaligned", li))
                    # C02: a multiple of the alignment of every datum of every variant of the definition
                    for vj, ids in enumerate(m["variants"]):
                        for f in ids:
                            a = fields[f]["align"]
                            if a and A % a != 0:
                                hits.append(("C02", f"record type of variant {vi} has alignment {A}, not a multiple of the alignment {a} of datum {fields[f]['name']} (variant {vj})", li))
            elif op in ("new", "newu"):
                v, r = int(t[1]), int(t[2])
                ids = m["variants"][v]
                fs = [f for f in ids if not (op == "newu" and fields[f]["uninit"])]
                vals = [] if t[3] == "-" else t[3].split(",")
                st = {f: None for f in ids}
                for f, x in zip(fs, vals):
                    st[f] = x; born(f, x)
                regs[r] = (v, st)
            elif op == "get":
                v, st = regs[int(t[1])]
                f = m["variants"][v][int(t[2])]
                want = fields[f]["ty"] if fields[f]["ty"] in ZST else st[f]
                got = res.split(" ")[1] if res.startswith("val ") else res
                if want is not None and got != want:
                    hits.append(("C04", f"field {fields[f]['name']} holds {want} but the accessor returned {got}", li))
                    if int(t[1]) in converted:
                        hits.append(("C05", f"after conversion, field {fields[f]['name']} should hold {want} but the accessor returned {got}", li))
                    if int(t[1]) in cloned:
                        hits.append(("C16", f"after clone / clone_from, field {fields[f]['name']} should hold {want} but the accessor returned {got}", li))
                    if int(t[1]) in deserialized:
                        hits.append(("C15", f"after a serialise/deserialise round trip, field {fields[f]['name']} should hold {want} but the accessor returned {got}", li))
            elif op == "set":
                v, st = regs[int(t[1])]
                f = m["variants"][v][int(t[2])]
                st[f] = t[3]; born(f, t[3])
            elif op == "rename":
                regs[int(t[2])] = regs.pop(int(t[1]))
                for grp in (converted, cloned, deserialized):
                    if int(t[1]) in grp:
                        grp.add(int(t[2]))
            elif op == "unpack":
                v, st = regs.pop(int(t[1]))
                ids = m["variants"][v]
                want = [fields[f]["ty"] if fields[f]["ty"] in ZST else st[f] for f in ids]
                got = res[5:].split(",") if res.startswith("vals ") and len(res) > 5 else []
                if got != want:
                    hits.append(("C04", f"unpack returned {got}, record held {want}", li))
                for f in ids:
                    if st[f] is not None and fields[f]["ty"] in DROPPABLE:
                        died(lab(f, st[f]), li)   # handed back to the caller
            elif op == "drop":
                rr = int(t[1])
                v, st = regs.pop(rr)
                want = sorted(lab(f, st[f]) for f in m["variants"][v] if fields[f]["ty"] in DROPPABLE and st[f] is not None)
                if sorted(drops) != want:
                    hits.append(("C06", f"dropping the record destroyed {sorted(drops)}, it owned {want}", li))
                    if rr in cloned:
                        hits.append(("C16", f"dropping a clone destroyed {sorted(drops)}, a clone of that record owns {want}: the clone is not an independent copy", li))
            elif op == "conv":
                form, r, nr = t[1], int(t[2]), int(t[3])
                v, st = regs.pop(r)
                old, new = m["variants"][v], m["variants"][v + 1]
                minus = [f for f in old if f not in new]; plus = [f for f in new if f not in old]
                uninit = form in ("us", "uo")
                ps = [f for f in plus if not (uninit and fields[f]["uninit"])]
                vals = [] if t[4] == "-" else t[4].split(",")
                nst = {f: st.get(f) for f in new if f in old}
                for f in plus:
                    nst[f] = None
                for f, x in zip(ps, vals):
                    nst[f] = x; born(f, x)
                if form in ("fo", "uo"):
                    want = [fields[f]["ty"] if fields[f]["ty"] in ZST else (st[f] if st[f] is not None else "?") for f in minus]
                    got = res[4:].split(",") if res.startswith("out ") and len(res) > 4 else []
                    if got != want:
                        hits.append(("C05", f"conversion returned removed data {got}, the record held {want}", li))
                    for f in minus:
                        if st[f] is not None and fields[f]["ty"] in DROPPABLE:
                            died(lab(f, st[f]), li)
                else:
                    want = sorted(lab(f, st[f]) for f in minus if fields[f]["ty"] in DROPPABLE and st[f] is not None)
                    if sorted(drops) != want:
                        hits.append(("C06", f"conversion destroyed {sorted(drops)}, removed fields were {want}", li))
                regs[nr] = (v + 1, nst)
                converted.add(nr)
            elif op in ("clone", "serde"):
                r, nr = (int(t[1]), int(t[2])) if op == "clone" else (int(t[2]), int(t[3]))
                v, st = regs[r]
                if op == "clone" and drops:
                    hits.append(("C16", f"cloning a record destroyed {sorted(drops)}: a clone destroys nothing", li))
                nst = {}
                for f in m["variants"][v]:
                    x = st[f]
                    if x is not None and op == "clone" and fields[f]["ty"] in DROPPABLE and fields[f]["ty"] not in ZST and not fields[f]["uninit"]:
                        x = str(int(x) + 1000000)
                    nst[f] = x
                    if x is not None:
                        born(f, x)
                regs[nr] = (v, nst)
                (cloned if op == "clone" else deserialized).add(nr)
            elif op == "clonebomb":
                v, st = regs[int(t[1])]
                ids = m["variants"][v]; k = int(t[2])
                want = []
                for f in ids[:k]:
                    if fields[f]["ty"] in DROPPABLE and not fields[f]["uninit"] and st[f] is not None:
                        want.append(fields[f]["ty"] if fields[f]["ty"] in ZST else f"{fields[f]['ty']}{int(st[f]) + 1000000}")
                if not res.startswith("panic"):
                    hits.append(("C16", f"clone with a panicking field clone returned {res}", li))
                elif sorted(drops) != sorted(want):
                    hits.append(("C16", f"panic in the clone of field {fields[ids[k]]['name']}: destroyed {sorted(drops)}, the clones built so far were {sorted(want)}", li))
            elif op == "debad":
                fmt, r, kind, k = t[1], int(t[2]), t[3], int(t[4])
                v, st = regs[r]
                ids = m["variants"][v]
                upto = len(ids) if kind == "long" else k
                want = [lab(f, st[f]) for f in ids[:upto] if fields[f]["ty"] in DROPPABLE and st[f] is not None]
                if not res.startswith("err"):
                    hits.append(("C15", f"malformed input ({fmt} {kind} at {k}) was accepted: {res}", li))
                elif sorted(drops) != sorted(want):
                    hits.append(("C15", f"rejected {fmt} input ({kind} at {k}): destroyed {sorted(drops)}, already decoded were {sorted(want)}", li))
            elif op == "clonefrombomb":
                dv, dst = regs[int(t[1])]; sv, sst = regs[int(t[2])]; k = int(t[3])
                ids = m["variants"][dv]
                # the fields before the failing one are assigned (previous values destroyed exactly once); the failing field
                # and the later ones keep their contents; nothing else is destroyed
                want = sorted(lab(f, dst[f]) for f in ids[:k] if fields[f]["ty"] in DROPPABLE and dst[f] is not None)
                if not res.startswith("panic"):
                    hits.append(("C16", f"clone_from with a panicking field clone returned {res}", li))
                elif sorted(drops) != want:
                    hits.append(("C16", f"panic in the clone of field {fields[ids[k]]['name']} during clone_from: destroyed {sorted(drops)}, the previous contents of the fields assigned so far were {want}", li))
                for f in ids[:k]:
                    x = sst[f]
                    if x is not None and fields[f]["ty"] in DROPPABLE and fields[f]["ty"] not in ZST:
                        x = str(int(x) + 1000000)
                    dst[f] = x
                    if x is not None:
                        born(f, x)
                cloned.add(int(t[1]))
            elif op == "clonefrom":
                dv, dst = regs[int(t[1])]; sv, sst = regs[int(t[2])]
                # clone-assignment destroys the target's previous contents exactly once (and nothing else)
                want = sorted(lab(f, dst[f]) for f in m["variants"][dv] if fields[f]["ty"] in DROPPABLE and dst[f] is not None)
                if sorted(drops) != want:
                    hits.append(("C16", f"clone_from destroyed {sorted(drops)}, the target's previous contents were {want}", li))
                for f in m["variants"][dv]:
                    x = sst[f]
                    if x is not None and fields[f]["ty"] in DROPPABLE and fields[f]["ty"] not in ZST:
                        x = str(int(x) + 1000000)
                    dst[f] = x
                    if x is not None:
                        born(f, x)
                cloned.add(int(t[1]))
        for label, n in live.items():
            if n != 0:
                hits.append(("C06", f"value {label} alive {n} time(s) at the end of the module (leak)", m["ops"][-1][0] if m["ops"] else m["start"]))
    return hits


def run(seed, tier, prims):
    key = f"{repo_hash()}-{machinery_hash()}"
    base = os.path.join(WORK, "cache", key, f"X-{seed}-{tier}")
    marker = os.path.join(base, "done.json")
    if os.path.exists(marker) and not os.environ.get("VERIF_NO_CACHE"):
        info = json.load(open(marker)); info["cached"] = True
        return info
    if os.path.exists(base):
        shutil.rmtree(base)
    os.makedirs(base)
    t0 = time.time()
    ndefs = 48 if tier == "quick" else 300
    info = {"errors": [], "builds": {}, "cached": False, "computed_at": time.strftime("%Y-%m-%dT%H:%M:%S"), "ndefs": ndefs}
    lab, err = make_lab(seed, ndefs, f"{tier}-{seed}")
    if lab is None:
        info["errors"].append("chan_x failed: " + err)
        json.dump(info, open(marker, "w")); return info
    req = open(os.path.join(lab, "req.txt")).read().splitlines()
    shutil.copy(os.path.join(lab, "req.txt"), os.path.join(base, "req.txt"))
    for extra in ("panics.txt", "layouts.txt"):
        if os.path.exists(os.path.join(lab, extra)):
            shutil.copy(os.path.join(lab, extra), os.path.join(base, extra))
    with open(os.path.join(base, "req.txt")) as fin, open(os.path.join(base, "model.txt"), "w") as fout:
        subprocess.run([DRV], stdin=fin, stdout=fout)
    for name, rel, hooks in [("dbg-hook", False, True), ("rel-hook", True, True), ("rel-plain", True, False)]:
        binp, err = build_lab(lab, rel, hooks)
        if binp is None:
            info["errors"].append(f"lab build {name} failed (generated code does not compile?): " + err[-1500:])
            info["builds"][name] = {"compiled": False, "compile_errors": compile_errors(lab, err)}
            continue
        out = os.path.join(base, name)
        rc = run_lab(binp, out)
        info["builds"][name] = {"compiled": True, "rc": rc, "dir": out}
    info["wall"] = time.time() - t0
    info["base"] = base
    json.dump(info, open(marker, "w"))
    shutil.rmtree(lab, ignore_errors=True)
    return info


def miri_pass(seed, tier):
    """a small all-initialised lab run under Miri (`cargo +nightly miri run`): undefined behaviour that gives the right values on
    this machine (provenance, typed reads of uninitialised padding, misaligned references the hardware tolerates). Fields that
    may stay uninitialised are always written before anything reads them: the typed read of an uninitialised plain-old-data field
    that `Drop` / `unpack` / conversions perform by design is outside the listed properties. Unavailable Miri = no verdict."""
    key = f"{repo_hash()}-{machinery_hash()}"
    base = os.path.join(WORK, "cache", key, f"M-{seed}-{tier}")
    marker = os.path.join(base, "done.json")
    if os.path.exists(marker) and not os.environ.get("VERIF_NO_CACHE"):
        return json.load(open(marker))
    os.makedirs(base, exist_ok=True)
    res = {"available": False, "ub": [], "modules": 0, "wall": 0.0}
    rc, out, err = sh(["cargo", "+nightly", "miri", "--version"], timeout=120)
    if rc != 0:
        res["note"] = "cargo +nightly miri is not available: " + (err or out)[-200:]
        json.dump(res, open(marker, "w")); return res
    ndefs = 6 if tier == "quick" else 24
    old = ENV.get("VERIF_X_ALLINIT")
    ENV["VERIF_X_ALLINIT"] = "1"
    try:
        lab, e = make_lab(seed + 7000, ndefs, "miri")   # fixed path: the Miri target directory remembers the manifest directory
    finally:
        if old is None:
            ENV.pop("VERIF_X_ALLINIT", None)
        else:
            ENV["VERIF_X_ALLINIT"] = old
    if lab is None:
        res["note"] = "lab generation failed: " + e[-300:]
        json.dump(res, open(marker, "w")); return res
    t0 = time.time()
    outd = os.path.join(base, "out"); os.makedirs(outd, exist_ok=True)
    # several placements of the locals (Miri's address assignment depends on its seed): stop at the first report
    mseeds = [0, 1, 2] if tier == "quick" else list(range(8))
    res["miri_seeds"] = 0
    for ms in mseeds:
        env = dict(ENV, CARGO_TARGET_DIR=os.path.join(WORK, "miri-target"), MIRIFLAGS=f"-Zmiri-disable-isolation -Zmiri-seed={ms}")
        rc, out, err = sh(["cargo", "+nightly", "miri", "run", "--offline", "--", outd], cwd=lab, timeout=1200 if tier == "quick" else 3600, env=env)
        res["miri_seeds"] += 1
        if rc != 0:
            break
    res["wall"] = time.time() - t0
    res["modules"] = ndefs
    if "Undefined Behavior" in err:
        res["available"] = True
        m = re.search(r"error: Undefined Behavior: ([^\n]*)", err)
        where = re.findall(r"\d+: ([^\n]*)\n\s+at ([^\n]*)", err)[:4]
        req = open(os.path.join(lab, "req.txt")).read().splitlines() if os.path.exists(os.path.join(lab, "req.txt")) else []
        evs = open(os.path.join(outd, "events.txt")).read().splitlines() if os.path.exists(os.path.join(outd, "events.txt")) else []
        nops = len([l for l in evs if l != "--"])
        xs = [i for i, r in enumerate(req) if r.startswith("x ")]
        line = xs[min(nops, len(xs) - 1)] if xs else 0
        res["ub"].append({"message": (m.group(1) if m else "undefined behaviour") + " | " + "; ".join(f"{a} at {b}" for a, b in where),
                          "requests": module_of(req, line) if req else []})
    elif rc == 0:
        res["available"] = True
    else:
        res["note"] = "the Miri run failed for another reason (not counted): " + err[-300:]
    json.dump(res, open(marker, "w"))
    return res


def analyse(info, prims):
    res = {"ops": 0, "modules": 0, "disagreements": [], "oracle": [], "n_disagree": 0, "by_op": {}, "samples": [], "distinct": 0, "nontrivial": 0,
           "accesses": 0}
    base = info.get("base")
    if not base or not os.path.exists(os.path.join(base, "req.txt")):
        return res, []
    req = open(os.path.join(base, "req.txt")).read().splitlines()
    mod = open(os.path.join(base, "model.txt")).read().splitlines()
    xs = [(i, r, mod[i] if i < len(mod) else "<missing>") for i, r in enumerate(req) if r.startswith("x ")]
    res["modules"] = sum(1 for r in req if r.startswith("xmod"))
    res["modules_meeting_theorem_hypotheses"] = sum(1 for r, m in zip(req, mod) if r.startswith("xmod") and "wf=true" in m)
    res["modules_passing_body_rules"] = sum(1 for r, m in zip(req, mod) if r.startswith("xmod") and "chk=true" in m)
    seen = set()
    for (i, r, m) in xs:
        op = r.split(" ")[1]
        res["by_op"][op] = res["by_op"].get(op, 0) + 1
        seen.add(r)
    res["distinct"] = len(seen)
    res["nontrivial"] = len([r for r in seen if r.split(" ")[1] in ("conv", "set", "clone", "clonefrom", "unpack", "drop", "serde", "newu")])
    mods_idx = [i for i, r in enumerate(req) if r.startswith("xmod")]
    # definitions the real builder / generator panicked on (skipped by the lab generator): C13, with their requests
    res["builder_panics"] = []
    pf = os.path.join(base, "panics.txt")
    if os.path.exists(pf):
        for blk in open(pf).read().split("--\n"):
            ls = [l for l in blk.splitlines() if l and not l.startswith("PANIC")]
            if ls:
                res["builder_panics"].append(ls)
                if len(res["oracle"]) < 300:
                    res["oracle"].append({"property": "C13", "message": "the real builder / generator panicked on this accepted definition", "line": -1, "build": "generator", "requests": ls})
    # the real builder's layout of every module: two fields of one variant must not share a byte (a store to one would land on
    # storage the record owns for the other), every offset must be a multiple of the field's alignment
    lf = os.path.join(base, "layouts.txt")
    res["layouts_checked"] = 0
    if os.path.exists(lf):
        for l in open(lf).read().splitlines():
            mname, vname, items = (l.split(" ") + [""])[:3]
            k = int(mname[1:])
            line = mods_idx[k] if k < len(mods_idx) else 0
            fs = [it.split(":") for it in items.split(",") if it]
            res["layouts_checked"] += 1
            for a in range(len(fs)):
                na, oa, sa, aa = fs[a][0], int(fs[a][1]), int(fs[a][2]), int(fs[a][3])
                if aa and oa % aa != 0:
                    for p in ("C07", "C02"):
                        res["oracle"].append({"property": p, "message": f"variant {vname[1:]}: field {na} at offset {oa} is not aligned to {aa}", "line": line, "build": "layout"})
                for b2 in range(a + 1, len(fs)):
                    nb, ob, sb = fs[b2][0], int(fs[b2][1]), int(fs[b2][2])
                    if sa and sb and oa < ob + sb and ob < oa + sa:
                        for p in ("C07", "C01"):
                            res["oracle"].append({"property": p, "message": f"variant {vname[1:]}: fields {na} [{oa},{oa + sa}) and {nb} [{ob},{ob + sb}) share bytes: the store of one lands on storage the record owns for the other", "line": line, "build": "layout"})
    for name, b in info["builds"].items():
        if not b.get("compiled"):
            for ce in b.get("compile_errors", []):
                k = ce.get("module")
                if k in ("empty", "empty1"):
                    res["oracle"].append({"property": "C13", "message": f"the module generated for the definition with {'no variant' if k == 'empty' else 'a single empty variant'} does not compile ({name}): {ce['message']} at `{ce['source']}`",
                                          "line": -1, "build": name, "requests": ["reset native 0 n"] + (["close simple"] if k == "empty1" else []) + ["build", "gen cs"]})
                    continue
                # last request line of that module
                line = (mods_idx[k + 1] - 1 if k is not None and k + 1 < len(mods_idx) else len(req) - 1) if k is not None and k < len(mods_idx) else 0
                while line > 0 and req[line].startswith(("reset", "add", "rm", "close", "build")):
                    line -= 1
                msg = f"the lab does not compile ({name}): {ce['message']} at `{ce['source']}`"
                if re.search(r"no field|missing field|does not have|pattern requires", ce["message"]) and "AndUnpackedOut" in ce["source"] + ce["message"]:
                    for p in ("C05", "C06"):
                        res["oracle"].append({"property": p, "message": msg + " — the conversion's result type does not hand back the removed field the definition says it removes", "line": line, "build": name})
                elif re.search(r"no field|missing field|does not have", ce["message"]):
                    for p in ("C04", "C05", "C13"):
                        res["oracle"].append({"property": p, "message": msg, "line": line, "build": name})
                else:
                    res["oracle"].append({"property": "C13", "message": msg, "line": line, "build": name})
            continue
        ev = [l for l in open(os.path.join(b["dir"], "events.txt")).read().splitlines() if l != "--"]
        accf = os.path.join(b["dir"], "access.txt")
        access = [l for l in open(accf).read().splitlines() if l] if os.path.exists(accf) else []
        res["accesses"] += len(access)
        res["ops"] += len(ev)
        hooks = name.endswith("hook")
        for k, (i, r, m) in enumerate(xs):
            if k >= len(ev):
                res["n_disagree"] += 1
                res["disagreements"].append({"build": name, "line": i, "request": r, "model": m, "lab": "<program stopped: rc=%s>" % b.get("rc")})
                break
            mm = m if hooks else m.split(" | a=")[0]
            if ev[k] != mm and not wildcard_eq(ev[k], mm):
                res["n_disagree"] += 1
                if len(res["disagreements"]) < 40:
                    res["disagreements"].append({"build": name, "line": i, "request": r, "model": mm, "lab": ev[k]})
        for (p, msg, li) in oracles(req, ev, access, prims):
            if len(res["oracle"]) < 300:
                res["oracle"].append({"property": p, "message": msg, "line": li, "build": name})
        if b.get("rc") not in (0, None):
            at = xs[min(len(ev), len(xs) - 1)] if xs else (0, "", "")
            res["oracle"].append({"property": prop_of_op(at[1]), "message": f"compiled program ({name}) terminated abnormally (rc={b.get('rc')}) at operation `{at[1]}`", "line": at[0], "build": name})
            if b.get("rc") in (-11, -7, -4, 139, 135, 132):
                res["oracle"].append({"property": "C07", "message": f"compiled program ({name}) died of a memory fault (signal {abs(b.get('rc')) if b.get('rc') < 0 else b.get('rc') - 128}) at operation `{at[1]}`: an access that is out of bounds, on storage the record does not own, or alignment-requiring on misaligned storage", "line": at[0], "build": name})
    for (i, r, m) in xs[5:8]:
        res["samples"].append({"request": r, "model": m})
    return res, req


def prop_of_op(request):
    """the property whose behaviour the operation exercises (used to attribute a crash of the compiled program)"""
    t = request.split(" ")
    k = t[1] if len(t) > 1 and t[0] == "x" else (t[0] if t else "")
    if k in ("serde", "debad"):
        return "C15"
    if k in ("clone", "clonefrom", "clonebomb", "clonefrombomb"):
        return "C16"
    if k == "conv":
        return "C05"
    if k == "drop":
        return "C06"
    return "C04"


def wildcard_eq(lab, model):
    """the lab prints `?` for a plain-old-data field it knows to be uninitialised (whatever bytes are there);
    the model may know a stale value for those bytes: not a disagreement"""
    if "?" not in lab:
        return False
    pat = re.escape(lab).replace(r"\?", r"[^,| ]+")
    return re.fullmatch(pat, model) is not None


def module_of(req, line):
    """the request lines of the module containing `line`, up to that line"""
    start = max(i for i in range(line + 1) if req[i].startswith("reset"))
    return req[start:line + 1]
