import TrucModel.Model.Definition
/-
  `convert_record_definition` (`definition/convert.rs`) with the three closures instantiated as
  "copy the datum into the target builder", "remove from the target builder", "close the target's
  variant with a fixed strategy" — the way the crate's users (and the analyzer) call it.
-/
namespace Truc

inductive Outcome (α : Type) where
  | ok (a : α)
  | err (e : ErrKind)
  | panic
deriving Repr, Inhabited

structure RState where
  tgt   : BState := {}
  idMap : List (Nat × Nat) := []     -- BTreeMap<DatumId, DatumId>, newest binding first
  vMap  : List (Nat × Nat) := []     -- BTreeMap<RecordVariantId, RecordVariantId>, in insertion order
deriving Repr, Inhabited

def replayRemovals (r : RState) : List Nat → Outcome RState
  | [] => .ok r
  | d :: rest =>
    match r.idMap.lookup d with
    | none => .panic                                  -- `datum_ids_mapping[&d]`
    | some d' =>
      match r.tgt.removeDatum d' with
      | (_, .error e) => .err e
      | (t, .ok ()) => replayRemovals { r with tgt := t } rest

def replayAdditions (src : Defs) (r : RState) : List Nat → Outcome RState
  | [] => .ok r
  | d :: rest =>
    match src[d]? with
    | none => .panic                                  -- `quirky_definition[d]`
    | some i =>
      match r.tgt.addDatum { i with offset := UNSET } with
      | (_, .error e) => .err e
      | (t, .ok d') => replayAdditions src { r with tgt := t, idMap := (d, d') :: r.idMap } rest

def replayVariants (src : Defs) (st : Strategy) (r : RState) (prev : Option (List Nat)) :
    List (List Nat) → Nat → Outcome RState
  | [], _ => .ok r
  | v :: vs, k =>
    let toAdd := match prev with
      | some old => v.filter (fun d => !old.contains d)
      | none => v
    let toRemove := match prev with
      | some old => old.filter (fun d => !v.contains d)
      | none => []
    match replayRemovals r toRemove with
    | .panic => .panic
    | .err e => .err e
    | .ok r1 =>
      match replayAdditions src r1 toAdd with
      | .panic => .panic
      | .err e => .err e
      | .ok r2 =>
        match r2.tgt.close st with
        | none => .panic
        | some (t, vid) => replayVariants src st { r2 with tgt := t, vMap := r2.vMap ++ [(k, vid)] } (some v) vs (k + 1)

def replay (src : Definition) (st : Strategy) : Outcome RState :=
  replayVariants src.defs st {} none src.variants 0

end Truc
