import TrucModel.Proofs.BuilderProps
import TrucModel.Model.Replay
import TrucModel.Props.Examples
/-
  C20 — Replaying a definition into another builder preserves variants and data.
  Full statement (goal): for every source definition built by a valid history and every target
  strategy, `replay` succeeds, maps source variant k to target variant k, paired variants carry the
  same multiset of (name, type, size, align, uninit), and one injective id map relates them.
  Proved so far (`_partial`): the variant map has exactly one entry per source variant, in order,
  whenever the replay succeeds; everything else is carried by channel L (`replay` requests with the
  independent C20 oracle on the implementation's output).
-/
namespace Truc

theorem replayRemovals_vMap : ∀ (l : List Nat) (r r' : RState), replayRemovals r l = .ok r' → r'.vMap = r.vMap := by
  intro l
  induction l with
  | nil => intro r r' h; simp only [replayRemovals, Outcome.ok.injEq] at h; rw [← h]
  | cons d rest ih =>
    intro r r' h
    unfold replayRemovals at h
    split at h <;> try (simp at h; done)
    split at h <;> try (simp at h; done)
    exact (ih _ _ h).trans rfl

theorem replayAdditions_vMap (src : Defs) : ∀ (l : List Nat) (r r' : RState), replayAdditions src r l = .ok r' → r'.vMap = r.vMap := by
  intro l
  induction l with
  | nil => intro r r' h; simp only [replayAdditions, Outcome.ok.injEq] at h; rw [← h]
  | cons d rest ih =>
    intro r r' h
    unfold replayAdditions at h
    split at h <;> try (simp at h; done)
    split at h <;> try (simp at h; done)
    exact (ih _ _ h).trans rfl

theorem replayVariants_keys (src : Defs) (st : Strategy) :
    ∀ (vs : List (List Nat)) (r : RState) (prev : Option (List Nat)) (k : Nat) (r' : RState),
      replayVariants src st r prev vs k = .ok r' →
      r'.vMap.map (·.1) = r.vMap.map (·.1) ++ List.range' k vs.length := by
  intro vs
  induction vs with
  | nil =>
    intro r prev k r' h
    simp only [replayVariants, Outcome.ok.injEq] at h
    subst h; simp
  | cons v vs ih =>
    intro r prev k r' h
    unfold replayVariants at h
    simp only at h
    split at h <;> try (simp at h; done)
    split at h <;> try (simp at h; done)
    split at h <;> try (simp at h; done)
    rename_i _ ra hra _ rb hrb _ t vid _
    have := ih _ _ _ _ h
    rw [this]
    simp only [List.map_append, List.map_cons, List.map_nil, List.length_cons, List.range'_succ, List.append_assoc,
      List.singleton_append]
    rw [replayAdditions_vMap _ _ _ _ hrb, replayRemovals_vMap _ _ _ hra]

theorem C20_one_entry_per_variant_partial (src : Definition) (st : Strategy) (r : RState)
    (h : replay src st = .ok r) : r.vMap.map (·.1) = List.range src.variants.length := by
  unfold replay at h
  have := replayVariants_keys src.defs st src.variants {} none 0 r h
  simpa [List.range_eq_range'] using this

/-- non-vacuity: the example history replays, with the identity variant map -/
example : (match (run Ex.h1).build with
    | some d => (match replay d .basic with | .ok r => r.vMap | _ => [])
    | none => []) = [(0, 0), (1, 1), (2, 2)] := by decide +kernel

end Truc
