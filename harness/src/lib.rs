//! Shared helpers of the verification harness.

/// splitmix64: every random choice of a run derives from one 64-bit state.
#[derive(Clone)]
pub struct Rng(pub u64);

impl Rng {
    pub fn new(seed: u64) -> Self {
        Rng(seed ^ 0x9E37_79B9_7F4A_7C15)
    }
    pub fn next(&mut self) -> u64 {
        self.0 = self.0.wrapping_add(0x9E37_79B9_7F4A_7C15);
        let mut z = self.0;
        z = (z ^ (z >> 30)).wrapping_mul(0xBF58_476D_1CE4_E5B9);
        z = (z ^ (z >> 27)).wrapping_mul(0x94D0_49BB_1331_11EB);
        z ^ (z >> 31)
    }
    pub fn below(&mut self, n: usize) -> usize {
        if n == 0 {
            0
        } else {
            (self.next() % (n as u64)) as usize
        }
    }
    pub fn chance(&mut self, num: usize, den: usize) -> bool {
        self.below(den) < num
    }
    pub fn pick<'a, T>(&mut self, xs: &'a [T]) -> &'a T {
        &xs[self.below(xs.len())]
    }
    pub fn fork(&mut self) -> Rng {
        Rng(self.next())
    }
}

pub fn silence_panics() {
    std::panic::set_hook(Box::new(|_| {}));
}

pub fn catch<T>(f: impl FnOnce() -> T) -> Result<T, String> {
    match std::panic::catch_unwind(std::panic::AssertUnwindSafe(f)) {
        Ok(v) => Ok(v),
        Err(p) => Err(if let Some(s) = p.downcast_ref::<String>() {
            s.clone()
        } else if let Some(s) = p.downcast_ref::<&str>() {
            s.to_string()
        } else {
            "<non-string payload>".to_string()
        }),
    }
}
pub mod irdump;
pub mod userty {
    pub struct Foo(pub u32);
    pub mod deep {
        pub struct Bar<T>(pub T);
    }
    pub mod vec { pub struct Vec<T>(pub T, pub u8); }
}
// user types whose paths look like the standard ones
pub mod vec { pub struct Vec<T>(pub T, pub u8); }
pub mod string { pub struct String(pub u8); }
pub mod boxed { pub struct Box<T>(pub T, pub u8); }
pub mod option { pub struct Option<T>(pub T, pub u8); }
pub mod result { pub struct Result<T>(pub T, pub u8); }
pub mod alloc { pub mod vec { pub struct Vec<T>(pub T, pub u8); } }
pub mod catalogue;
