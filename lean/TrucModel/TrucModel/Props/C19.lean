import TrucModel.Proofs.BuilderProps
import TrucModel.Props.Examples
/-
  C19 — The same definition history always generates byte-identical code.
  In the model the layout and the generated module are *functions* of the request list, so the
  statement about the model is immediate; what carries the property to the implementation is the tie
  (channel L and G: the implementation's offsets / generated text equal this function's value, in
  one process and in separately started processes).  Partial by nature: per-process nondeterminism
  (hash seeds, addresses) cannot be exhibited by a pure model.
-/
namespace Truc

theorem C19_layout_is_function_partial (reqs₁ reqs₂ : List Req) (h : reqs₁ = reqs₂) :
    (run reqs₁).defs.map (·.offset) = (run reqs₂).defs.map (·.offset) ∧ (run reqs₁).variants = (run reqs₂).variants := by
  subst h; exact ⟨rfl, rfl⟩

/-- the one place where the implementation iterates over a map (`BTreeMap` by size in `simple`) is an
    ordered, stable traversal in the model: the result is a permutation that keeps the insertion
    order inside one size class — no dependence on anything but the list -/
theorem C19_size_order_stable (defs : Defs) (add : List Nat) : (sortBySizeDesc defs add).Perm add :=
  sortBySizeDesc_perm defs add

example : (run Ex.h1).variants.length = 3 := by decide +kernel

end Truc
