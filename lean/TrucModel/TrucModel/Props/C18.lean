import TrucModel.Proofs.BuilderProps
import TrucModel.Props.Examples
import TrucModel.Model.Resolver
import TrucModel.Proofs.LayoutFactor
/-
  C18 — Layout depends only on the resolver's answers; type tables are faithful.
  The model has no access to the host's sizes: every entry point records exactly the numbers it is
  given (`C18_records_answer`), and all layout decisions read only those recorded numbers.
  `C18_layout_factor`: two histories whose requests agree on the supplied sizes and alignments (and on
  removals and strategies) — whatever the names, type names and uninit flags, as long as no addition
  is refused — produce the same variants and the same offset for every datum: the layout is a function
  of the supplied sizes and alignments only. (Every strategy commutes with erasing everything but
  size, alignment and offset: `Proofs/LayoutFactor.lean`.)
  Channel L drives the real entry points under *synthetic* resolvers whose answers differ from the
  host's; an implementation consulting `size_of` would diverge from the model.
-/
namespace Truc

/-- an accepted addition records the supplied description verbatim (with the unset offset) -/
theorem C18_records_answer (s : BState) (i : Info) (id : Nat) (h : (s.addDatum i).2 = .ok id) :
    info (s.addDatum i).1.defs id = i := by
  unfold BState.addDatum at h ⊢
  by_cases hc : (s.currentByName i.name).isSome = true
  · simp [hc] at h
  · simp [hc] at h ⊢
    subst h
    exact info_append_self _ _

/-- nothing recorded for a datum other than its offset is ever changed by a close -/
theorem C18_shape_preserved (reqs : List Req) (hv : ∀ r ∈ reqs, r.valid) (st : Strategy) (hn : st.isNative = true) :
    ∀ s' vid, (run reqs).close st = some (s', vid) → ∀ id, sameShape (info s'.defs id) (info (run reqs).defs id) := by
  intro s' vid hc id
  by_cases hp : (run reqs).hasPendingChanges = true
  · obtain ⟨defs', l', hc', hok⟩ := (reachable_BInv reqs hv).close_spec hn hp
    rw [hc'] at hc
    simp only [Option.some.injEq, Prod.mk.injEq] at hc
    obtain ⟨rfl, _⟩ := hc
    exact hok.shape id
  · unfold BState.close at hc
    simp only [hp, Bool.not_false, if_true, Option.some.injEq, Prod.mk.injEq] at hc
    obtain ⟨rfl, _⟩ := hc
    exact sameShape_refl _

/-- the layout is a function of the supplied sizes and alignments only -/
theorem C18_layout_factor (reqs reqs' : List Req) (hg : SameGeo reqs reqs')
    (ha : Accepted BState.init reqs) (ha' : Accepted BState.init reqs') :
    (run reqs).variants = (run reqs').variants ∧
    (run reqs).defs.length = (run reqs').defs.length ∧
    ∀ id, off (run reqs).defs id = off (run reqs').defs id ∧ sz (run reqs).defs id = sz (run reqs').defs id ∧
      al (run reqs).defs id = al (run reqs').defs id := by
  have h := layout_factor_from reqs reqs' BState.init BState.init rfl hg ha ha'
  have hd : G (run reqs).defs = G (run reqs').defs := congrArg BState.defs h
  refine ⟨?_, ?_, ?_⟩
  · have := congrArg BState.variants h; exact this
  · have := congrArg List.length hd; simpa using this
  · intro id
    refine ⟨?_, ?_, ?_⟩
    · rw [← off_G, hd, off_G]
    · rw [← sz_G, hd, sz_G]
    · rw [← al_G, hd, al_G]

/-- non-vacuity: the example history and a renamed, retyped copy of it have the same geometry and are accepted -/
example : SameGeo Ex.h1 (Ex.h1.map (fun r => match r with
      | .add i => .add { i with name := i.name ++ "_x", ty := "Other", uninit := !i.uninit }
      | r => r)) ∧ Accepted BState.init Ex.h1 := by
  refine ⟨by simp [Ex.h1, SameGeo, geoEq, Ex.I], ?_⟩
  simp only [Ex.h1, Accepted, and_true]
  decide +kernel

example : ((BState.init.addDatum (Ex.I "a" 12 4)).1.defs.map (fun i => (i.size, i.align))) = [(12, 4)] := by
  decide +kernel

end Truc

namespace Truc.Res

theorem lookup_append_new {α : Type} (t : List (String × α)) (key : String) (e : α) (h : t.lookup key = none) :
    (t ++ [(key, e)]).lookup key = some e := by
  induction t with
  | nil => simp [List.lookup]
  | cons p rest ih =>
    obtain ⟨k, v⟩ := p
    by_cases hk : (key == k) = true
    · simp [List.lookup, hk] at h
    · have hk' : (key == k) = false := by simpa using hk
      simp only [List.cons_append, List.lookup, hk'] at h ⊢
      exact ih h

theorem lookup_append_other {α : Type} (t : List (String × α)) (key k' : String) (e : α) (h : k' ≠ key) :
    (t ++ [(key, e)]).lookup k' = t.lookup k' := by
  induction t with
  | nil =>
    have : (k' == key) = false := by simpa using h
    simp [List.lookup, this]
  | cons p rest ih =>
    obtain ⟨k, v⟩ := p
    by_cases hk : (k' == k) = true
    · simp [List.lookup, hk]
    · have hk' : (k' == k) = false := by simpa using hk
      simp only [List.cons_append, List.lookup, hk']
      exact ih

/-! ### the entry points (`add_datum`, `add_datum_allow_uninit`, `add_datum_override`, `add_dynamic_datum`, `copy_datum`) -/

/-- a typed entry point hands over exactly the table's answer for the type -/
theorem C18_entry_typed (t : Table) (name key : String) (i : Truc.Info) (h : entryInfo t name (.typed key) = some i) :
    ∃ e, lookupKey t key = some e ∧ i = ⟨name, e.name, e.size, e.align, Truc.UNSET, false⟩ := by
  simp only [entryInfo] at h
  cases hl : lookupKey t key with
  | none => rw [hl] at h; simp at h
  | some e => rw [hl] at h; simp only [Option.map_some, Option.some.injEq] at h; exact ⟨e, rfl, h.symm⟩

theorem C18_entry_typed_uninit (t : Table) (name key : String) (i : Truc.Info) (h : entryInfo t name (.typedUninit key) = some i) :
    ∃ e, lookupKey t key = some e ∧ i = ⟨name, e.name, e.size, e.align, Truc.UNSET, true⟩ := by
  simp only [entryInfo] at h
  cases hl : lookupKey t key with
  | none => rw [hl] at h; simp at h
  | some e => rw [hl] at h; simp only [Option.map_some, Option.some.injEq] at h; exact ⟨e, rfl, h.symm⟩

/-- an override takes every specified item verbatim and every unspecified one from the table (never from anywhere else) -/
theorem C18_entry_override (t : Table) (name key : String) (o : Override) (i : Truc.Info)
    (h : entryInfo t name (.override key o) = some i) :
    ∃ e, lookupKey t key = some e ∧
      i.size = (match o.size with | some s => s | none => e.size) ∧
      i.align = (match o.align with | some a => a | none => e.align) ∧
      i.ty = (match o.typeName with | some n => n | none => e.name) ∧
      i.uninit = (match o.uninit with | some u => u | none => false) ∧ i.name = name ∧ i.offset = Truc.UNSET := by
  simp only [entryInfo] at h
  cases hl : lookupKey t key with
  | none => rw [hl] at h; simp at h
  | some e =>
    rw [hl] at h
    simp only [Option.map_some, Option.some.injEq] at h
    subst h
    refine ⟨e, rfl, ?_, ?_, ?_, ?_, rfl, rfl⟩ <;> (simp only []; first | (cases o.size <;> rfl) | (cases o.align <;> rfl) | (cases o.typeName <;> rfl) | (cases o.uninit <;> rfl))

/-- the dynamic entry point: the table's answer for the normalised spelling, including its uninit flag -/
theorem C18_entry_dynamic (t : Table) (name spelling : String) (i : Truc.Info) (h : entryInfo t name (.dynamic spelling) = some i) :
    ∃ e, lookup t spelling = some e ∧ i = ⟨name, e.name, e.size, e.align, Truc.UNSET, e.uninit⟩ := by
  simp only [entryInfo] at h
  cases hl : lookup t spelling with
  | none => rw [hl] at h; simp at h
  | some e => rw [hl] at h; simp only [Option.map_some, Option.some.injEq] at h; exact ⟨e, rfl, h.symm⟩

/-- a type the table does not contain is refused by every entry point that consults the resolver -/
theorem C18_entry_unregistered (t : Table) (name key : String) (o : Override) (h : lookupKey t key = none) :
    entryInfo t name (.typed key) = none ∧ entryInfo t name (.typedUninit key) = none ∧
    entryInfo t name (.override key o) = none := by
  simp [entryInfo, h]

/-- a copied datum keeps its description (the offset is reset) -/
theorem C18_entry_copy (t : Table) (name : String) (src : Truc.Info) :
    entryInfo t name (.copy src) = some { src with offset := Truc.UNSET } := rfl

/-- entry point, then the generic builder: what ends up recorded is what the entry point handed over -/
theorem C18_entry_recorded (t : Table) (name : String) (e : EntryPoint) (i : Truc.Info) (s : Truc.BState) (id : Nat)
    (he : entryInfo t name e = some i) (h : (s.addDatum i).2 = .ok id) :
    Truc.info (s.addDatum i).1.defs id = i := Truc.C18_records_answer s i id h

example : (do
    let t ← register [] "usize" ⟨"usize", 4, 4, true⟩
    entryInfo t "f" (.override "usize" { align := some 2 })) = some ⟨"f", "usize", 4, 2, Truc.UNSET, false⟩ ∧
    entryInfo [] "f" (.typed "usize") = none := by decide +kernel

/-! ### two resolvers that give the same sizes and alignments give the same layout -/

/-- a call on the native builder -/
inductive Call where
  | add (name : String) (e : EntryPoint)
  | remove (id : Nat)
  | close (st : Truc.Strategy)

/-- the request the generic builder receives; `none` = the resolver refuses the type -/
def callReq (t : Table) : Call → Option Truc.Req
  | .add name e => (entryInfo t name e).map Truc.Req.add
  | .remove id => some (.remove id)
  | .close st => some (.close st)

def callReqs (t : Table) : List Call → Option (List Truc.Req)
  | [] => some []
  | c :: cs => match callReq t c, callReqs t cs with
    | some r, some rs => some (r :: rs)
    | _, _ => none

/-- the same calls made under two resolvers (tables) whose answers agree on size and alignment — whatever else differs, names
    of types and uninit flags included — produce the same variants and the same offsets: the layout is a function of the sizes
    and alignments the resolver supplies, and of nothing else -/
theorem C18_same_answers_same_layout (t t' : Table) (calls : List Call) (reqs reqs' : List Truc.Req)
    (h : callReqs t calls = some reqs) (h' : callReqs t' calls = some reqs')
    (hagree : ∀ name e i i', entryInfo t name e = some i → entryInfo t' name e = some i' → i.size = i'.size ∧ i.align = i'.align)
    (ha : Truc.Accepted Truc.BState.init reqs) (ha' : Truc.Accepted Truc.BState.init reqs') :
    (Truc.run reqs).variants = (Truc.run reqs').variants ∧
    ∀ id, Truc.off (Truc.run reqs).defs id = Truc.off (Truc.run reqs').defs id := by
  have hg : Truc.SameGeo reqs reqs' := by
    clear ha ha'
    induction calls generalizing reqs reqs' with
    | nil =>
      simp only [callReqs, Option.some.injEq] at h h'
      subst h; subst h'; trivial
    | cons c cs ih =>
      simp only [callReqs] at h h'
      cases hc : callReq t c with
      | none => rw [hc] at h; simp at h
      | some r =>
        cases hc' : callReq t' c with
        | none => rw [hc'] at h'; simp at h'
        | some r' =>
          cases hcs : callReqs t cs with
          | none => rw [hc, hcs] at h; simp at h
          | some rs =>
            cases hcs' : callReqs t' cs with
            | none => rw [hc', hcs'] at h'; simp at h'
            | some rs' =>
              rw [hc, hcs] at h; rw [hc', hcs'] at h'
              simp only [Option.some.injEq] at h h'
              subst h; subst h'
              refine ⟨?_, ih rs rs' hcs hcs'⟩
              cases c with
              | add name e =>
                simp only [callReq] at hc hc'
                cases hi : entryInfo t name e with
                | none => rw [hi] at hc; simp at hc
                | some i =>
                  cases hi' : entryInfo t' name e with
                  | none => rw [hi'] at hc'; simp at hc'
                  | some i' =>
                    rw [hi] at hc; rw [hi'] at hc'
                    simp only [Option.map_some, Option.some.injEq] at hc hc'
                    subst hc; subst hc'
                    exact hagree name e i i' hi hi'
              | remove id =>
                simp only [callReq, Option.some.injEq] at hc hc'
                subst hc; subst hc'; rfl
              | close st =>
                simp only [callReq, Option.some.injEq] at hc hc'
                subst hc; subst hc'; rfl
  have := Truc.C18_layout_factor reqs reqs' hg ha ha'
  exact ⟨this.1, fun id => (this.2.2 id).1⟩

/-- non-vacuity: two tables that name and flag `u8` differently but agree on 1/1 -/
example : callReqs [("u8", ⟨"u8", 1, 1, true⟩)] [.add "a" (.typed "u8"), .close .simple] =
      some [.add ⟨"a", "u8", 1, 1, Truc.UNSET, false⟩, .close .simple] ∧
    callReqs [("u8", ⟨"byte", 1, 1, false⟩)] [.add "a" (.typed "u8"), .close .simple] =
      some [.add ⟨"a", "byte", 1, 1, Truc.UNSET, false⟩, .close .simple] := by
  constructor <;> rfl

/-- a table answers exactly what was registered … -/
theorem C18_table_registered (t t' : Table) (key : String) (e : Entry) (h : register t key e = some t') :
    lookupKey t' key = some e := by
  unfold register at h
  split at h
  · simp at h
  · rename_i hn
    simp only [Option.some.injEq] at h
    subst h
    have : t.lookup key = none := by cases hl : t.lookup key <;> simp_all
    exact lookup_append_new t key e this

/-- … keeps every earlier answer … -/
theorem C18_table_keeps (t t' : Table) (key k' : String) (e : Entry) (h : register t key e = some t') (hne : k' ≠ key) :
    lookupKey t' k' = lookupKey t k' := by
  unfold register at h
  split at h
  · simp at h
  · simp only [Option.some.injEq] at h
    subst h
    exact lookup_append_other t key k' e hne

/-- … refuses a second registration of the same name … -/
theorem C18_table_duplicate (t t' : Table) (key : String) (e e2 : Entry) (h : register t key e = some t') :
    register t' key e2 = none := by
  have := C18_table_registered t t' key e h
  unfold lookupKey at this
  unfold register
  simp [this]

/-- … and a dynamic lookup by any spelling with the same normal form gives the same answer -/
theorem C18_table_lookup_normalised (t : Table) (s₁ s₂ : String) (h : TN.normalize s₁ = TN.normalize s₂) :
    lookup t s₁ = lookup t s₂ := by
  unfold lookup; rw [h]

example : (do
    let t ← register [] "Vec < u8 >" ⟨"Vec < u8 >", 12, 4, false⟩
    lookup t "alloc::vec::Vec<u8>") = some ⟨"Vec < u8 >", 12, 4, false⟩ := by decide +kernel

end Truc.Res
