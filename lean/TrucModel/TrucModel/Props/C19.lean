import TrucModel.Proofs.BuilderProps
import TrucModel.Proofs.SizeOrder
import TrucModel.Props.Examples
/-
  C19 — The same definition history always generates byte-identical code.
  In the model the layout and the generated module are *functions* of the request list, so the
  statement about the model is immediate; what carries the property to the implementation is the tie
  (channel L and G: the implementation's offsets / generated text equal this function's value, in
  one process and in separately started processes).  Partial by nature: per-process nondeterminism
  (hash seeds, addresses) cannot be exhibited by a pure model.
-/
namespace Truc

theorem C19_layout_is_function_partial (reqs₁ reqs₂ : List Req) (h : reqs₁ = reqs₂) :
    (run reqs₁).defs.map (·.offset) = (run reqs₂).defs.map (·.offset) ∧ (run reqs₁).variants = (run reqs₂).variants := by
  subst h; exact ⟨rfl, rfl⟩

/-- the one place where the implementation iterates over a map (`BTreeMap` by size in `simple`) is an
    ordered, stable traversal in the model: the result is a permutation that keeps the insertion
    order inside one size class — no dependence on anything but the list -/
theorem C19_size_order_stable (defs : Defs) (add : List Nat) : (sortBySizeDesc defs add).Perm add :=
  sortBySizeDesc_perm defs add

/-- … and it is exactly the traversal the comment above describes, determined by the list alone: the
    result is ordered by decreasing size, and for every size `k` the data of size `k` appear in it in
    the order in which they were requested (stability) — together with `C19_size_order_stable` this
    pins the traversal down uniquely, so nothing a process could vary (map iteration order, addresses,
    hash seeds) can enter the layout through it -/
theorem C19_size_order_sorted_and_stable (defs : Defs) (add : List Nat) :
    (sortBySizeDesc defs add).Pairwise (fun a b => sz defs b ≤ sz defs a) ∧
    ∀ k, (sortBySizeDesc defs add).filter (fun d => sz defs d = k) = add.filter (fun d => sz defs d = k) :=
  ⟨sortBySizeDesc_sorted defs add, sortBySizeDesc_stable defs add⟩

/-- non-vacuity: four data of sizes 2, 8, 2, 8 come out as 8, 8, 2, 2 with request order kept inside each size -/
example : sortBySizeDesc [⟨"a", "u16", 2, 2, 0, false⟩, ⟨"b", "u64", 8, 8, 0, false⟩, ⟨"c", "u16", 2, 2, 0, false⟩,
    ⟨"d", "u64", 8, 8, 0, false⟩] [0, 1, 2, 3] = [1, 3, 0, 2] := by decide +kernel

example : (run Ex.h1).variants.length = 3 := by decide +kernel

end Truc
