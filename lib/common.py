"""Shared machinery of /verif/check: locking, hashing, building, evidence, verdict protocol."""
import fcntl, hashlib, json, os, re, subprocess, sys, time

VERIF = os.path.dirname(os.path.dirname(os.path.abspath(__file__)))
REPO = os.environ.get("TRUC_REPO", "/repo")
WORK = os.path.join(VERIF, ".work")
LEAN = os.path.join(VERIF, "lean", "TrucModel")
HARNESS = os.path.join(VERIF, "harness")
TARGET = os.path.join(WORK, "harness-target")
DRV = os.path.join(LEAN, ".lake", "build", "bin", "trucdrv")
ALLOWED_AXIOMS = {"propext", "Classical.choice", "Quot.sound"}
FORBIDDEN = re.compile(r"\b(sorry|admit|native_decide|bv_decide|implemented_by|unsafe)\b|^\s*axiom\s|maxHeartbeats\s+0")

ENV = dict(os.environ, CARGO_NET_OFFLINE="true")


def log(*a):
    print(*a, file=sys.stderr, flush=True)


class Lock:
    """exclusive lock serialising lake/cargo steps of checks started in parallel"""
    def __enter__(self):
        os.makedirs(WORK, exist_ok=True)
        self.f = open(os.path.join(WORK, "lock"), "w")
        fcntl.flock(self.f, fcntl.LOCK_EX)
        return self

    def __exit__(self, *a):
        fcntl.flock(self.f, fcntl.LOCK_UN)
        self.f.close()


def sh(cmd, cwd=None, timeout=None, env=None, input=None):
    try:
        p = subprocess.run(cmd, cwd=cwd, shell=isinstance(cmd, str), capture_output=True, text=True,
                           timeout=timeout, env=env or ENV, input=input)
    except subprocess.TimeoutExpired as e:
        # a step that does not terminate on the current tree (e.g. a seeded infinite loop) is a failed step, not a hung check
        return 124, (e.stdout or "") if isinstance(e.stdout, str) else "", f"timeout after {timeout}s: {cmd if isinstance(cmd, str) else ' '.join(map(str, cmd))[:200]}"
    return p.returncode, p.stdout, p.stderr


def tree_hash(roots, exclude_dirs=(".git", "target", ".lake", ".work")):
    h = hashlib.sha256()
    for root in roots:
        if os.path.isfile(root):
            h.update(root.encode()); h.update(open(root, "rb").read()); continue
        for d, dirs, files in os.walk(root):
            dirs[:] = sorted(x for x in dirs if x not in exclude_dirs)
            for f in sorted(files):
                p = os.path.join(d, f)
                try:
                    data = open(p, "rb").read()
                except OSError:
                    continue
                h.update(os.path.relpath(p, root).encode()); h.update(b"\0"); h.update(data); h.update(b"\0")
    return h.hexdigest()[:24]


def repo_hash():
    return tree_hash([REPO])


def machinery_hash():
    return tree_hash([os.path.join(HARNESS, "src"), os.path.join(HARNESS, "Cargo.toml"), os.path.join(HARNESS, "lab_template"),
                      os.path.join(HARNESS, "gen_catalogue.py"),
                      os.path.join(LEAN, "TrucModel"), os.path.join(LEAN, "Driver.lean"),
                      os.path.join(VERIF, "lib"), os.path.join(VERIF, "corpus"),
                      os.path.join(VERIF, "translators")])


# ---------------------------------------------------------------------------------------------
# Lean side

def strip_comments(text):
    text = re.sub(r"/-.*?-/", "", text, flags=re.S)
    text = re.sub(r'"(\\.|[^"\\])*"', '""', text)      # string literals (rendered Rust text mentions `unsafe`)
    return re.sub(r"--.*", "", text)


def forbidden_tokens():
    hits = []
    for d, _, files in os.walk(os.path.join(LEAN, "TrucModel")):
        for f in files:
            if f.endswith(".lean"):
                p = os.path.join(d, f)
                for i, line in enumerate(strip_comments(open(p).read()).splitlines(), 1):
                    if FORBIDDEN.search(line):
                        hits.append(f"{os.path.relpath(p, LEAN)}:{i}: {line.strip()}")
    return hits


def theorems_of(prop):
    p = os.path.join(LEAN, "TrucModel", "Props", f"{prop}.lean")
    if not os.path.exists(p):
        return []
    return re.findall(r"^theorem\s+([A-Za-z0-9_.']+)", strip_comments(open(p).read()), flags=re.M)


def lake_build(targets):
    """returns (ok, output)"""
    rc, out, err = sh(["lake", "build"] + targets, cwd=LEAN, timeout=3600)
    return rc == 0, out + err


def axioms_audit(prop, thms):
    """#print axioms for every property theorem; returns {thm: [axioms]} or raises"""
    ptxt = open(os.path.join(LEAN, "TrucModel", "Props", f"{prop}.lean")).read()
    nss = sorted(set(re.findall(r"^namespace\s+(\S+)", ptxt, flags=re.M)) | {"Truc"})
    src = f"import TrucModel.Props.{prop}\n" + "".join(f"open {n}\n" for n in nss) + "".join(f"#print axioms {t}\n" for t in thms)
    path = os.path.join(WORK, f"axioms_{prop}.lean")
    open(path, "w").write(src)
    rc, out, err = sh(["lake", "env", "lean", path], cwd=LEAN, timeout=1200)
    res = {}
    txt = out + err
    for m in re.finditer(r"'([^']+)' (does not depend on any axioms|depends on axioms: \[([^\]]*)\])", txt, flags=re.S):
        name = m.group(1)
        axs = [] if m.group(3) is None else [a.strip() for a in m.group(3).replace("\n", " ").split(",") if a.strip()]
        res[name.split(".")[-1]] = axs
    return rc, res, txt


def leanchecker(prop):
    rc, out, err = sh(["lake", "env", "leanchecker", f"TrucModel.Props.{prop}"], cwd=LEAN, timeout=3600)
    return rc == 0, (out + err)[-2000:]


# ---------------------------------------------------------------------------------------------
# Rust side

def cargo_build(bins, release=True, features=None):
    cmd = ["cargo", "build", "--offline"] + (["--release"] if release else [])
    for b in bins:
        cmd += ["--bin", b]
    if features:
        cmd += ["--features", features]
    rc, out, err = sh(cmd, cwd=HARNESS, timeout=3600)
    return rc == 0, out + err


def harness_bin(name, release=True):
    return os.path.join(TARGET, "release" if release else "debug", name)


# ---------------------------------------------------------------------------------------------
# verdict protocol

def load_known():
    """known-findings.txt: `fixed: property=<id> <commit> <what>` (suppresses nothing) and
    `known: property=<id> match="<text>" <what>` (a violation whose message contains <text> is a KNOWN-FINDING)"""
    p = os.path.join(VERIF, "known-findings.txt")
    out = []
    if os.path.exists(p):
        for l in open(p):
            l = l.strip()
            if not l or l.startswith("#"):
                continue
            m = re.match(r'(fixed|known): property=(\S+) (.*)$', l)
            if not m:
                continue
            status, prop, rest = m.groups()
            if status == "fixed":
                commit, _, what = rest.partition(" ")
                out.append({"status": "fixed", "property": prop, "commit": commit, "what": what})
            else:
                mm = re.match(r'match="([^"]*)" (.*)$', rest)
                if mm:
                    out.append({"status": "known", "property": prop, "match": mm.group(1), "what": mm.group(2)})
    return out


def write_replay(prop, kind, body):
    os.makedirs(os.path.join(VERIF, "replays"), exist_ok=True)
    path = os.path.join(VERIF, "replays", f"{prop}-{kind}-{int(time.time())}.txt")
    open(path, "w").write(body)
    return path


def write_evidence(prop, tier, seed, coverage, assumptions, wall, violations):
    ev = {"property_id": prop, "tier": tier, "seed": seed, "level": "proof", "coverage": coverage,
          "assumptions": assumptions, "wall_s": round(wall, 2), "violations": violations}
    os.makedirs(os.path.join(VERIF, "evidence"), exist_ok=True)
    with open(os.path.join(VERIF, "evidence", f"{prop}.json"), "w") as f:
        json.dump(ev, f, indent=1)
