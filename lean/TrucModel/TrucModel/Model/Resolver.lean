import TrucModel.Model.TypeName
import TrucModel.Model.Layout
/-
  `StaticTypeResolver` (`record/type_resolver.rs`): an ordered table keyed by the normalised type
  name; registration refuses duplicates (panic); dynamic lookups normalise the requested name first.
-/
namespace Truc.Res

structure Entry where
  name   : String
  size   : Nat
  align  : Nat
  uninit : Bool
deriving Repr, DecidableEq, Inhabited

abbrev Table := List (String × Entry)

/-- `add_type` / `add_type_allow_uninit`; `none` = "Type … is already defined" panic -/
def register (t : Table) (key : String) (e : Entry) : Option Table :=
  if (t.lookup key).isSome then none else some (t ++ [(key, e)])

/-- `dynamic_type_info`; `none` = "Could not resolve type" / "syn type" panic -/
def lookup (t : Table) (requested : String) : Option Entry :=
  match TN.normalize requested with
  | some k => t.lookup k
  | none => none

/-- `type_info::<T>()` with `key` = `truc_type_name::<T>()` -/
def lookupKey (t : Table) (key : String) : Option Entry := t.lookup key


/-! ### the entry points of `NativeRecordDefinitionBuilder` that attach type information
    (`builder/native/mod.rs:57-174`): what they hand to the generic builder's `add_datum` -/

/-- `DatumDefinitionOverride` -/
structure Override where
  typeName : Option String := none
  size     : Option Nat := none
  align    : Option Nat := none
  uninit   : Option Bool := none
deriving Repr, DecidableEq, Inhabited

inductive EntryPoint where
  /-- `add_datum::<T>` with `key` = `truc_type_name::<T>()` -/
  | typed (key : String)
  /-- `add_datum_allow_uninit::<T>` -/
  | typedUninit (key : String)
  /-- `add_datum_override::<T>` -/
  | override (key : String) (o : Override)
  /-- `add_dynamic_datum` -/
  | dynamic (spelling : String)
  /-- `copy_datum` (of a datum of any definition) -/
  | copy (src : Truc.Info)
deriving Repr, Inhabited

/-- the description handed to `add_datum`; `none` = the resolver panics ("Could not resolve type …").
    Nothing but the table's answer and the explicit override is consulted. -/
def entryInfo (t : Table) (name : String) : EntryPoint → Option Truc.Info
  | .typed k => (lookupKey t k).map fun e => ⟨name, e.name, e.size, e.align, Truc.UNSET, false⟩
  | .typedUninit k => (lookupKey t k).map fun e => ⟨name, e.name, e.size, e.align, Truc.UNSET, true⟩
  | .override k o => (lookupKey t k).map fun e =>
      ⟨name, o.typeName.getD e.name, o.size.getD e.size, o.align.getD e.align, Truc.UNSET, o.uninit.getD false⟩
  | .dynamic s => (lookup t s).map fun e => ⟨name, e.name, e.size, e.align, Truc.UNSET, e.uninit⟩
  | .copy src => some ⟨src.name, src.ty, src.size, src.align, Truc.UNSET, src.uninit⟩

end Truc.Res
