import TrucModel.Proofs.Reachable
import TrucModel.Proofs.BuilderProps
import TrucModel.Proofs.Corollaries
import TrucModel.Proofs.StaticProps
/-
  From the builder to the machine: the `RecordSpec`s generated for a definition built by a valid
  request history satisfy the hypotheses (`ModuleWF`) of the generated-code theorems (C04–C07).
-/
namespace Truc.Gen
open Truc Truc.Mach

theorem insertSorted_perm (x : Nat) (l : List Nat) : (insertSorted x l).Perm (x :: l) := by
  induction l with
  | nil => simp [insertSorted]
  | cons y ys ih =>
    unfold insertSorted
    split
    · exact List.Perm.refl _
    · exact (List.Perm.cons y ih).trans (List.Perm.swap x y ys)

theorem sortIds_perm (l : List Nat) : (sortIds l).Perm l := by
  unfold sortIds
  induction l with
  | nil => simp
  | cons x xs ih =>
    simp only [List.foldr_cons]
    exact (insertSorted_perm x _).trans (List.Perm.cons x ih)

/-- the specs, by index: data of variant k; minus / plus relative to variant k-1 -/
theorem go_index (d : Definition) (al : Nat) : ∀ (vs : List (List Nat)) (k0 : Nat) (prev : Option (List Nat)) (k : Nat) (s : Spec),
    (specs.go d al vs k0 prev)[k]? = some s →
    ∃ v, vs[k]? = some v ∧ s.data = (sortIds v).map (mkD d.defs) ∧
      (let p := if k = 0 then prev else (vs[k - 1]?).map sortIds
       s.minus = (match p with | some p => p.filter (fun x => !(sortIds v).contains x) | none => []).map (mkD d.defs) ∧
       s.plus = (match p with | some p => (sortIds v).filter (fun x => !p.contains x) | none => sortIds v).map (mkD d.defs)) := by
  intro vs
  induction vs with
  | nil => intro k0 prev k s h; simp [specs.go] at h
  | cons v0 rest ih =>
    intro k0 prev k s h
    unfold specs.go at h
    cases k with
    | zero =>
      simp only [List.getElem?_cons_zero, Option.some.injEq] at h
      subst h
      refine ⟨v0, rfl, rfl, ?_⟩
      simp only [if_true]
      cases prev <;> simp
    | succ k' =>
      simp only [List.getElem?_cons_succ] at h
      obtain ⟨v, hv, hd, hmp⟩ := ih (k0 + 1) (some (sortIds v0)) k' s h
      refine ⟨v, by simpa using hv, hd, ?_⟩
      simp only [Nat.succ_ne_zero, if_false, Nat.add_sub_cancel]
      cases k' with
      | zero => simpa using hmp
      | succ k'' => simpa using hmp

theorem mkD_inj (defs : Defs) {a b : Nat} (h : mkD defs a = mkD defs b) : a = b := by
  have := congrArg D.id h
  simpa [mkD] using this

end Truc.Gen

namespace Truc.Gen
open Truc Truc.Mach

/-- what the layout / builder theorems (C01, C02, C12) give about a definition, plus the naming and
    typing hypotheses of the generated-code theorems -/
structure DefOk (dr : String → Bool) (cap : Nat) (d : Definition) : Prop where
  vinv   : ∀ v ∈ d.variants, LInv d.defs v                                   -- C01, C02 (aligned, ordered, ids in range)
  names  : ∀ v ∈ d.variants, (v.map (nameOf d.defs)).Nodup                    -- C12
  inCap  : ∀ v ∈ d.variants, ∀ id ∈ v, stop d.defs id ≤ cap                   -- C02 (capacity)
  zstKey : ∀ v ∈ d.variants, ∀ a ∈ v, ∀ b ∈ v, a ≠ b → sz d.defs a = 0 → sz d.defs b = 0 → off d.defs a = off d.defs b →
             minTok (info d.defs a).ty ≠ minTok (info d.defs b).ty             -- zero-size fields at one address have different types
  noRecord : ∀ i ∈ d.defs, i.name ≠ "record"                                   -- naming hypothesis (NamesOk)
  pod    : ∀ i ∈ d.defs, i.uninit = true → dr (minTok i.ty) = false           -- only plain-old-data may stay uninitialised
  zstDr  : ∀ i ∈ d.defs, i.size = 0 → dr (minTok i.ty) = true                 -- zero-size fields are droppable markers

theorem info_mem {defs : Defs} {id : Nat} (h : id < defs.length) : info defs id ∈ defs := by
  unfold info; rw [List.getElem?_eq_getElem h]; exact List.getElem_mem h

theorem apart_mkD {dr : String → Bool} {cap : Nat} {d : Definition} (h : DefOk dr cap d) {v : List Nat} (hv : v ∈ d.variants)
    {a b : Nat} (ha : a ∈ v) (hb : b ∈ v) (hne : a ≠ b) : Apart (mkD d.defs a) (mkD d.defs b) := by
  have hdis := (h.vinv v hv).disjoint ha hb hne
  unfold stop off sz at hdis
  refine ⟨?_, ?_⟩
  · simp only [mkD]; exact hdis
  · intro ⟨h1, h2, h3⟩
    simp only [mkD] at h1 h2 h3
    by_cases hs : (info d.defs a).size = 0
    · have hs' : (info d.defs b).size = 0 := by omega
      exact h.zstKey v hv a ha b hb hne hs hs' h1 h3
    · omega

theorem wfdata_of_variant {dr : String → Bool} {cap : Nat} {d : Definition} (h : DefOk dr cap d) {v : List Nat} (hv : v ∈ d.variants) :
    WFData cap ((sortIds v).map (mkD d.defs)) := by
  have hperm := sortIds_perm v
  have hnd : (sortIds v).Nodup := hperm.nodup_iff.2 (h.vinv v hv).nodup
  refine ⟨?_, ?_, ?_⟩
  · rw [List.map_map]
    have : ((fun x => x.name) ∘ mkD d.defs) = nameOf d.defs := by funext x; rfl
    rw [this]
    exact (hperm.map _).nodup_iff.2 (h.names v hv)
  · rw [List.pairwise_map]
    refine List.Pairwise.imp_of_mem ?_ hnd
    intro a b ha hb hne
    exact apart_mkD h hv (hperm.mem_iff.1 ha) (hperm.mem_iff.1 hb) hne
  · intro x hx
    obtain ⟨id, hid, rfl⟩ := List.mem_map.1 hx
    have := h.inCap v hv id (hperm.mem_iff.1 hid)
    unfold stop off sz at this
    simpa [mkD] using this

/-- **end to end**: the specs generated for such a definition are a well-formed module -/
theorem specs_moduleWF {dr : String → Bool} {cap : Nat} {d : Definition} (h : DefOk dr cap d) : ModuleWF dr cap (specs d) := by
  have hidx := go_index d d.maxTypeAlign d.variants 0 none
  have hdata : ∀ (k : Nat) (s : Spec), (specs d)[k]? = some s → ∃ v, d.variants[k]? = some v ∧ s.data = (sortIds v).map (mkD d.defs) :=
    fun k s hs => by obtain ⟨v, hv, hd, _⟩ := hidx k s hs; exact ⟨v, hv, hd⟩
  have hrange : ∀ v ∈ d.variants, ∀ id ∈ sortIds v, info d.defs id ∈ d.defs :=
    fun v hv id hid => info_mem ((h.vinv v hv).inRange id ((sortIds_perm v).mem_iff.1 hid))
  refine ⟨?_, ?_, ?_⟩
  · intro s hs
    obtain ⟨k, hk, hks⟩ := List.mem_iff_getElem.1 hs
    obtain ⟨v, hv, hd⟩ := hdata k s (by rw [List.getElem?_eq_getElem hk, hks])
    rw [hd]; exact wfdata_of_variant h (List.mem_of_getElem? hv)
  · intro s hs x hx hun
    obtain ⟨k, hk, hks⟩ := List.mem_iff_getElem.1 hs
    obtain ⟨v, hv, hd⟩ := hdata k s (by rw [List.getElem?_eq_getElem hk, hks])
    rw [hd] at hx
    obtain ⟨id, hid, rfl⟩ := List.mem_map.1 hx
    exact h.pod _ (hrange v (List.mem_of_getElem? hv) id hid) (by simpa [mkD] using hun)
  · intro k s0 s h0 h1
    obtain ⟨v0, hv0, hd0, _⟩ := hidx k s0 h0
    obtain ⟨v1, hv1, hd1, hmp⟩ := hidx (k + 1) s h1
    simp only [Nat.succ_ne_zero, if_false, Nat.add_sub_cancel, hv0, Option.map_some] at hmp
    obtain ⟨hminus, hplus⟩ := hmp
    have hm0 := List.mem_of_getElem? hv0
    have hm1 := List.mem_of_getElem? hv1
    refine ⟨⟨?_, ?_, ?_, ?_, ?_, ?_⟩, ?_, ?_⟩
    · rw [hd0]; exact wfdata_of_variant h hm0
    · rw [hd1]; exact wfdata_of_variant h hm1
    · rw [hminus, hd0]; exact List.filter_sublist.map _
    · rw [hplus, hd1]; exact List.filter_sublist.map _
    · intro x hx hnm
      rw [hd0] at hx
      obtain ⟨a, ha, rfl⟩ := List.mem_map.1 hx
      have hacur : a ∈ sortIds v1 := by
        by_cases hc : a ∈ sortIds v1
        · exact hc
        · exfalso; apply hnm; rw [hminus]
          exact List.mem_map.2 ⟨a, List.mem_filter.2 ⟨ha, by simpa using hc⟩, rfl⟩
      refine ⟨by rw [hd1]; exact List.mem_map.2 ⟨a, hacur, rfl⟩, ?_⟩
      intro hp
      rw [hplus] at hp
      obtain ⟨a', ha', heq⟩ := List.mem_map.1 hp
      have := mkD_inj d.defs heq
      subst this
      have := (List.mem_filter.1 ha').2
      simp at this
      exact this ha
    · intro x hx hnp
      rw [hd1] at hx
      obtain ⟨a, ha, rfl⟩ := List.mem_map.1 hx
      have haprev : a ∈ sortIds v0 := by
        by_cases hc : a ∈ sortIds v0
        · exact hc
        · exfalso; apply hnp; rw [hplus]
          exact List.mem_map.2 ⟨a, List.mem_filter.2 ⟨ha, by simpa using hc⟩, rfl⟩
      refine ⟨by rw [hd0]; exact List.mem_map.2 ⟨a, haprev, rfl⟩, ?_⟩
      intro hm
      rw [hminus] at hm
      obtain ⟨a', ha', heq⟩ := List.mem_map.1 hm
      have := mkD_inj d.defs heq
      subst this
      have := (List.mem_filter.1 ha').2
      simp at this
      exact this ha
    · intro hrec
      rw [hminus, List.map_map] at hrec
      obtain ⟨a, ha, hname⟩ := List.mem_map.1 hrec
      have hmem := hrange v0 hm0 a (List.mem_filter.1 ha).1
      exact h.noRecord _ hmem (by simpa [mkD] using hname)
    · intro p hp hsz
      rw [hplus] at hp
      obtain ⟨a, ha, rfl⟩ := List.mem_map.1 hp
      have hmem := hrange v1 hm1 a (List.mem_filter.1 ha).1
      exact h.zstDr _ hmem (by simpa [mkD] using hsz)

end Truc.Gen
