#!/bin/bash
# usage: seedtest.sh <ID> <worktree>   -- confirms a seeded change: suite passes with it, demo fails with it, demo passes without it
ID=$1; WT=$2
cd $WT || exit 2
export CARGO_NET_OFFLINE=true
DEMO=truc/tests/seed_demo.rs
[ -f $DEMO ] || DEMO=$(ls truc/tests/*.rs truc_runtime/tests/*.rs 2>/dev/null | head -1)
echo "demo file: $DEMO"
mkdir -p /tmp/seedtmp; mv $DEMO /tmp/seedtmp/demo_$ID.rs
echo "== suite with change"; cargo test --workspace --offline 2>&1 | grep -E "^test result: (ok|FAILED)\. [1-9]|FAILED|panicked" | head -5
mv /tmp/seedtmp/demo_$ID.rs $DEMO
PKG=$(echo $DEMO | cut -d/ -f1); T=$(basename $DEMO .rs)
echo "== demo with change (must fail)"; cargo test -p $PKG --offline --test $T 2>&1 | grep -E "^test result|error\[" | head -3
git stash -q -- . ':!'$DEMO 2>/dev/null || git stash -q
git stash show --stat | tail -2
[ -f $DEMO ] || git checkout stash@{0} -- $DEMO 2>/dev/null
echo "== demo without change (must pass)"; cargo test -p $PKG --offline --test $T 2>&1 | grep -E "^test result|error\[" | head -3
git stash pop -q
git status --short | head -5
