import TrucModel.Proofs.Strategies
/-
  Invariants of every reachable builder state (induction over request histories).
-/
namespace Truc

/-- the shapes the properties quantify over: positive alignment; the shipped native strategies -/
def Req.valid : Req → Prop
  | .add i => 0 < i.align
  | .remove _ => True
  | .close st => st.isNative = true

structure BInv (s : BState) : Prop where
  vinv     : ∀ v ∈ s.variants, LInv s.defs v
  addRange : ∀ a ∈ s.toAdd, a < s.defs.length
  addFresh : ∀ a ∈ s.toAdd, ∀ v ∈ s.variants, a ∉ v
  addNodup : s.toAdd.Nodup
  alignPos : ∀ id, id < s.defs.length → 0 < al s.defs id

theorem BInv.init : BInv BState.init :=
  ⟨by simp [BState.init], by simp [BState.init], by simp [BState.init], by simp [BState.init],
   by simp [BState.init]⟩

theorem info_append_left (defs : Defs) (i : Info) {d : Nat} (h : d < defs.length) :
    info (defs ++ [i]) d = info defs d := by
  unfold info; rw [List.getElem?_append_left h]

theorem info_append_self (defs : Defs) (i : Info) : info (defs ++ [i]) defs.length = i := by
  unfold info; simp

theorem LInv.append_defs {defs : Defs} {l : List Nat} (h : LInv defs l) (i : Info) : LInv (defs ++ [i]) l := by
  refine ⟨?_, ?_, ?_, h.nodup⟩
  · unfold Sorted
    refine List.Pairwise.imp_of_mem ?_ h.sorted
    intro a b ha hb hab
    unfold stop off sz at *
    rw [info_append_left _ _ (h.inRange a ha), info_append_left _ _ (h.inRange b hb)]; exact hab
  · intro d hd
    unfold al off
    rw [info_append_left _ _ (h.inRange d hd)]; exact h.aligned d hd
  · intro d hd; have := h.inRange d hd; simp; omega

theorem BInv.addDatum {s : BState} (h : BInv s) (i : Info) (hpos : 0 < i.align) : BInv (s.addDatum i).1 := by
  unfold BState.addDatum
  split
  · exact h
  · refine ⟨?_, ?_, ?_, ?_, ?_⟩
    · intro v hv; exact (h.vinv v hv).append_defs i
    · intro a ha
      simp only [List.mem_append, List.mem_singleton] at ha
      rcases ha with ha | rfl
      · have := h.addRange a ha; simp; omega
      · simp
    · intro a ha v hv hin
      simp only [List.mem_append, List.mem_singleton] at ha
      rcases ha with ha | rfl
      · exact h.addFresh a ha v hv hin
      · have := (h.vinv v hv).inRange _ hin; omega
    · simp only
      rw [List.nodup_append]
      refine ⟨h.addNodup, by simp, ?_⟩
      intro a ha b hb
      simp at hb; subst hb
      have := h.addRange a ha; omega
    · intro id hid
      simp only [List.length_append, List.length_singleton] at hid
      by_cases hlt : id < s.defs.length
      · unfold al; rw [info_append_left _ _ hlt]; exact h.alignPos id hlt
      · have : id = s.defs.length := by omega
        subst this; unfold al; rw [info_append_self]; exact hpos

theorem BInv.removeDatum {s : BState} (h : BInv s) (id : Nat) : BInv (s.removeDatum id).1 := by
  have herase : BInv { s with toAdd := s.toAdd.erase id } :=
    ⟨h.vinv, fun a ha => h.addRange a (List.mem_of_mem_erase ha),
     fun a ha => h.addFresh a (List.mem_of_mem_erase ha), h.addNodup.erase id, h.alignPos⟩
  unfold BState.removeDatum
  split
  · split
    · split
      · exact h
      · exact ⟨h.vinv, h.addRange, h.addFresh, h.addNodup, h.alignPos⟩
    · split
      · exact herase
      · exact h
  · split
    · exact herase
    · exact h

theorem getLast?_getD_mem_or_nil (vs : List (List Nat)) : (vs.getLast?).getD [] ∈ vs ∨ (vs.getLast?).getD [] = [] := by
  cases h : vs.getLast? with
  | none => right; rfl
  | some v => left; exact List.mem_of_getLast? h

theorem BInv.fresh {s : BState} (h : BInv s) :
    Fresh s.defs (removeData ((s.variants.getLast?).getD []) s.toRemove) s.toAdd := by
  refine ⟨?_, h.addRange, h.addNodup, fun a ha => h.alignPos a (h.addRange a ha)⟩
  intro a ha hin
  have hin' := (mem_removeData.1 hin).1
  rcases getLast?_getD_mem_or_nil s.variants with hm | hnil
  · exact h.addFresh a ha _ hm hin'
  · rw [hnil] at hin'; simp at hin'

theorem BInv.lastInv {s : BState} (h : BInv s) : LInv s.defs ((s.variants.getLast?).getD []) := by
  rcases getLast?_getD_mem_or_nil s.variants with hm | hnil
  · exact h.vinv _ hm
  · rw [hnil]; exact LInv.nil _

/-- a close with a native strategy never panics and keeps the invariant -/
theorem BInv.close {s : BState} (h : BInv s) {st : Strategy} (hn : st.isNative = true) :
    ∃ s' vid, s.close st = some (s', vid) ∧ BInv s' ∧
      (∀ v ∈ s.variants, v ∈ s'.variants) ∧
      (∀ id, id ∉ s.toAdd → info s'.defs id = info s.defs id) ∧
      s'.defs.length = s.defs.length := by
  unfold BState.close
  split
  · exact ⟨s, _, rfl, h, fun v hv => hv, fun _ _ => rfl, rfl⟩
  · obtain ⟨defs', l', hrun, hok⟩ := runStrategy_ok hn h.lastInv h.fresh
    simp only [hrun]
    refine ⟨_, _, rfl, ?_, ?_, hok.frame, hok.len⟩
    · refine ⟨?_, by simp, by simp, by simp, ?_⟩
      · intro v hv
        simp only [List.mem_append, List.mem_singleton] at hv
        rcases hv with hv | rfl
        · -- an older variant: none of its data was re-placed
          have hv0 := h.vinv v hv
          have hno : ∀ d ∈ v, d ∉ s.toAdd := fun d hd hin => h.addFresh d hin v hv hd
          refine hv0.congr hok.len ?_ ?_ ?_
          · intro d hd; unfold off; rw [hok.frame d (hno d hd)]
          · intro d hd; unfold sz; rw [hok.frame d (hno d hd)]
          · intro d hd; unfold al; rw [hok.frame d (hno d hd)]
        · exact hok.inv
      · intro id hid
        simp only at hid
        rw [hok.len] at hid
        have := h.alignPos id hid
        unfold al at *
        rw [(hok.shape id).2.2.2.1]; exact this
    · intro v hv; simp [hv]

theorem BInv.step {s : BState} (h : BInv s) {r : Req} (hr : r.valid) : BInv (Truc.step s r) ∧ stepPanics s r = false := by
  cases r with
  | add i => exact ⟨h.addDatum _ hr, rfl⟩
  | remove id => exact ⟨h.removeDatum id, rfl⟩
  | close st =>
    obtain ⟨s', vid, hc, hinv, _⟩ := h.close hr
    simp only [Truc.step, stepPanics, hc]
    exact ⟨hinv, rfl⟩

theorem foldl_step_inv (reqs : List Req) : ∀ (s : BState), BInv s → (∀ r ∈ reqs, r.valid) →
    BInv (reqs.foldl Truc.step s) := by
  induction reqs with
  | nil => intro s h _; exact h
  | cons r rest ih =>
    intro s h hv
    exact ih _ (h.step (hv r List.mem_cons_self)).1 (fun r' hr' => hv r' (List.mem_cons_of_mem _ hr'))

theorem reachable_BInv (reqs : List Req) (hv : ∀ r ∈ reqs, r.valid) : BInv (run reqs) :=
  foldl_step_inv reqs _ BInv.init hv

/-! ### stability of closed variants (C03) -/

/-- what a later request may do to an already closed variant: nothing -/
def Stable (s s' : BState) : Prop :=
  (∀ v ∈ s.variants, v ∈ s'.variants) ∧ (∀ v ∈ s.variants, ∀ d ∈ v, info s'.defs d = info s.defs d)

theorem Stable.refl (s : BState) : Stable s s := ⟨fun _ h => h, fun _ _ _ _ => rfl⟩

theorem Stable.trans {a b c : BState} (h1 : Stable a b) (h2 : Stable b c) : Stable a c :=
  ⟨fun v hv => h2.1 v (h1.1 v hv), fun v hv d hd => by rw [h2.2 v (h1.1 v hv) d hd, h1.2 v hv d hd]⟩

theorem BInv.step_stable {s : BState} (h : BInv s) {r : Req} (hr : r.valid) : Stable s (Truc.step s r) := by
  cases r with
  | add i =>
    simp only [Truc.step, BState.addDatum]
    split
    · exact Stable.refl s
    · exact ⟨fun v hv => hv, fun v hv d hd => info_append_left _ _ ((h.vinv v hv).inRange d hd)⟩
  | remove id =>
    simp only [Truc.step, BState.removeDatum]
    split
    · split
      · split
        · exact Stable.refl s
        · exact ⟨fun v hv => hv, fun _ _ _ _ => rfl⟩
      · split
        · exact ⟨fun v hv => hv, fun _ _ _ _ => rfl⟩
        · exact Stable.refl s
    · split
      · exact ⟨fun v hv => hv, fun _ _ _ _ => rfl⟩
      · exact Stable.refl s
  | close st =>
    obtain ⟨s', vid, hc, _, hsub, hframe, _⟩ := h.close hr
    simp only [Truc.step, hc]
    exact ⟨hsub, fun v hv d hd => hframe d (fun hin => h.addFresh d hin v hv hd)⟩

theorem foldl_step_stable (reqs : List Req) : ∀ (s : BState), BInv s → (∀ r ∈ reqs, r.valid) →
    Stable s (reqs.foldl Truc.step s) := by
  induction reqs with
  | nil => intro s _ _; exact Stable.refl s
  | cons r rest ih =>
    intro s h hv
    have h1 := h.step_stable (hv r List.mem_cons_self)
    have h2 := ih _ (h.step (hv r List.mem_cons_self)).1 (fun r' hr' => hv r' (List.mem_cons_of_mem _ hr'))
    exact h1.trans h2

end Truc
