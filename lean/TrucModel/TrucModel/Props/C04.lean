import TrucModel.Proofs.Memory
import TrucModel.Generated.Primitives
/-
  C04 — A record gives back exactly the field values that were put into it.
  (1) obligation on the *translated* primitives: every store and every `&mut` goes through a pointer
      derived with write permission (`as_mut_ptr` on `&mut self`) — otherwise the optimiser may drop
      the store (the pinned tree's defect);
  (2) the byte-level memory facts: a stored value is read back; a store leaves every datum whose
      extent is apart from it untouched.
-/
namespace Truc.Mach
open Truc.Gen Truc.Generated

theorem C04_store_permission :
    primWrite.mutRecv = true ∧ primWrite.ptr = .asMutPtr ∧ primGetMut.mutRecv = true ∧ primGetMut.ptr = .asMutPtr ∧
    primWrite.addsOffset = true ∧ primGetMut.addsOffset = true ∧ primRead.addsOffset = true ∧ primGet.addsOffset = true := by
  decide

/-- what was stored is what is loaded (the store itself succeeds when the target is inside the
    capacity and overwrites no value the record still owns) -/
theorem C04_store_load (dr : String → Bool) (b : Buf) (d : D) (v : Val) (hv : v.ty = d.ty)
    (hcap : d.offset + d.size ≤ b.cap)
    (hfree : ∀ e ∈ b.exts, overlaps e d.offset d.size = true → e.moved = true ∨ dr e.val.ty = false)
    (hfresh : ∀ e ∈ b.exts, overlaps e d.offset d.size = false → keyOf d e = false) :
    ∃ b', b.store dr d v = .ok b' ∧ ∃ b'', b'.load dr d = .ok (v, b'') := by
  obtain ⟨b', hs, hc, he⟩ := store_ok (dr := dr) (v := v) hcap hfree
  refine ⟨b', hs, ?_⟩
  have hfind : b'.find d = some (Ext.mk d.offset d.size v false) := by
    rw [find_eq, he]
    apply find_after_store_same _ _ _ hv
    intro e hem
    have := List.mem_filter.1 hem
    exact hfresh e this.1 (by simpa using this.2)
  unfold Buf.load
  rw [if_neg (by rw [hc]; omega), hfind]
  exact ⟨_, rfl⟩

/-- a store changes no other field: whatever was found for a datum apart from the stored one is
    still found, unchanged -/
theorem C04_store_frame (dr : String → Bool) (b b' : Buf) (d d' : D) (v : Val) (hv : v.ty = d.ty)
    (hcap : d.offset + d.size ≤ b.cap)
    (hfree : ∀ e ∈ b.exts, overlaps e d.offset d.size = true → e.moved = true ∨ dr e.val.ty = false)
    (hs : b.store dr d v = .ok b') (hap : Apart d d') : b'.find d' = b.find d' := by
  obtain ⟨b2, hs2, _, he⟩ := store_ok (dr := dr) (v := v) hcap hfree
  rw [hs] at hs2
  simp only [Except.ok.injEq] at hs2
  subst hs2
  rw [find_eq, find_eq, he]
  exact find_after_store_other _ _ _ _ hv hap

/-- non-vacuity: two adjacent fields, one odd-sized -/
example : (match (do
    let b ← (⟨8, []⟩ : Buf).store (fun _ => false) ⟨0, "a", "P3", 3, 1, 0, false⟩ ⟨7, "P3"⟩
    let b ← b.store (fun _ => false) ⟨1, "b", "P4", 4, 4, 4, false⟩ ⟨9, "P4"⟩
    pure ((b.find ⟨0, "a", "P3", 3, 1, 0, false⟩).map (·.val.id), (b.find ⟨1, "b", "P4", 4, 4, 4, false⟩).map (·.val.id)) : Except MErr _) with
    | .ok r => r == (some 7, some 9)
    | .error _ => false) = true := by decide +kernel

end Truc.Mach
