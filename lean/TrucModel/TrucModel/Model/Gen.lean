import TrucModel.Model.Definition
/-
  The code generator (`generator/mod.rs`, `generator/fragment/*.rs`, `config.rs`) as a function
  definition × fragment selection → module, where a module is a list of items and the bodies of the
  functions that touch record storage are *structured* statements (`Stmt`).  `render` prints the
  canonical token lines that channel G compares with the `syn` dump of the real `generate()` output.
-/
namespace Truc.Gen

structure Cfg where
  clone : Bool := false
  serde : Bool := false
deriving Repr, DecidableEq, Inhabited

/-- a datum as the templates see it -/
structure D where
  id     : Nat
  name   : String
  ty     : String
  size   : Nat
  align  : Nat
  offset : Nat
  uninit : Bool
deriving Repr, DecidableEq, Inhabited

def isWord (c : Char) : Bool := c.isAlphanum || c == '_'

/-- minimal-spacing token form of a type name: a space survives only between two word characters -/
def minTok (s : String) : String :=
  let rec go : List Char → Option Char → Bool → List Char → List Char
    | [], _, _, acc => acc.reverse
    | c :: rest, prev, pendingSpace, acc =>
      if c == ' ' then go rest prev true acc
      else
        let needSpace := pendingSpace && (match prev with | some p => isWord p && isWord c | none => false)
        go rest (some c) false (if needSpace then c :: ' ' :: acc else c :: acc)
  String.ofList (go s.toList none false [])

/-- token concatenation: a space only where two word characters would otherwise touch -/
def tj (a b : String) : String :=
  match a.toList.getLast?, b.toList.head? with
  | some x, some y => if isWord x && isWord y then a ++ " " ++ b else a ++ b
  | _, _ => a ++ b

/-- statements of the generated functions that touch record storage -/
inductive Stmt where
  /-- `let [mut ]data = RecordMaybeUninit::new();` -/
  | letBuf (mutable : Bool)
  /-- `let <bind> = <Safe>[::<typed>]::from(<arg>);` — instantiates the `T: Copy` helper -/
  | safeFrom (bind : String) (safeName : String) (typed : Option String) (arg : String)
  /-- `unsafe { data.write(<off>, <src>.<field>); }` -/
  | write (d : D) (src : String)
  /-- `let <bind>: <ty> = unsafe { <recv>.data.read(<off>) };` -/
  | readLet (bind : String) (d : D) (recv : String)
  /-- `std::mem::forget(self);` -/
  | forgetSelf
  /-- `let manually_drop = std::mem::ManuallyDrop::new(from);` -/
  | manuallyDrop
  /-- `let [mut ]data = unsafe { std::ptr::read(&manually_drop.data) };` -/
  | copyBuf (mutable : Bool)
  /-- `Self { data }` -/
  | retSelfData
  /-- `let record = <Capped> { data };` -/
  | letRecord (capped : String)
  /-- `<Name> { f1, f2 }` -/
  | retStruct (name : String) (fields : List String)
  /-- `unsafe { self.data.get::<ty>(off) }` / `get_mut` -/
  | get (d : D)
  | getMut (d : D)
  /-- anything else, verbatim tokens -/
  | raw (s : String)
deriving Repr, DecidableEq, Inhabited

def Stmt.render : Stmt → String
  | .letBuf m => s!"let {if m then "mut " else ""}data=RecordMaybeUninit::new();"
  | .safeFrom b n t a => s!"let {b}={n}{match t with | some t => "::<" ++ t ++ ">" | none => ""}::from({a});"
  | .write d s => "unsafe{data.write(" ++ toString d.offset ++ "," ++ s ++ "." ++ d.name ++ ");}"
  | .readLet b d r => s!"let {b}:{d.ty}=unsafe" ++ "{" ++ s!"{r}.data.read({d.offset})" ++ "};"
  | .forgetSelf => "std::mem::forget(self);"
  | .manuallyDrop => "let manually_drop=std::mem::ManuallyDrop::new(from);"
  | .copyBuf m => s!"let {if m then "mut " else ""}data=unsafe" ++ "{std::ptr::read(&manually_drop.data)};"
  | .retSelfData => "Self{data}"
  | .letRecord c => s!"let record={c}" ++ "{data};"
  | .retStruct n fs => n ++ "{" ++ ",".intercalate fs ++ "}"
  | .get d => "unsafe{self.data.get::<" ++ d.ty ++ ">(" ++ toString d.offset ++ ")}"
  | .getMut d => "unsafe{self.data.get_mut::<" ++ d.ty ++ ">(" ++ toString d.offset ++ ")}"
  | .raw s => s

structure Fn where
  sig  : String
  body : List Stmt
deriving Repr, DecidableEq, Inhabited

inductive Item where
  | raw (s : String)
  | impl (header : String) (fns : List Fn)
  | lines (ls : List String)          -- an impl block carried as pre-rendered lines (clone / serde)
deriving Repr, DecidableEq, Inhabited

def Fn.render (f : Fn) : List String := ("fn " ++ f.sig) :: f.body.map (fun s => "s " ++ s.render) ++ ["endfn"]

def Item.render : Item → List String
  | .raw s => ["item " ++ s]
  | .impl h fns => ("impl " ++ h) :: (fns.map Fn.render).flatten ++ ["endimpl"]
  | .lines ls => ls

/-! ### per-variant specification (`RecordSpec`) -/

structure Spec where
  vid   : Nat
  align : Nat             -- max_type_align
  data  : List D          -- ascending id
  minus : List D
  plus  : List D
  hasPrev : Bool
  prevVid : Nat
deriving Repr, Inhabited

def insertSorted (x : Nat) : List Nat → List Nat
  | [] => [x]
  | y :: ys => if x ≤ y then x :: y :: ys else y :: insertSorted x ys

/-- `data_sorted()` -/
def sortIds (l : List Nat) : List Nat := l.foldr insertSorted []

def mkD (defs : Defs) (id : Nat) : D :=
  let i := info defs id
  ⟨id, i.name, minTok i.ty, i.size, i.align, i.offset, i.uninit⟩

def capped (v : Nat) : String := s!"CappedRecord{v}"
def CAPG : String := "const CAP:usize"

/-- `safe_record_generic` : (full, short, typed) -/
def safeGeneric (data : List D) : Option (String × String × String) :=
  let idx := (List.range data.length).zip data |>.filter (fun p => p.2.uninit)
  if idx.isEmpty then none
  else some (",".intercalate (idx.map fun p => s!"T{p.1}:Copy"),
             ",".intercalate (idx.map fun p => s!"T{p.1}"),
             ",".intercalate (idx.map fun p => p.2.ty))

inductive UKind | no | unsafe_ | safe (unsafeName : String)
deriving Repr, DecidableEq

def structItem (vis : Bool) (name : String) (generics : Option String) (fields : List String) : Item :=
  let head := (if vis then "pub struct " else "struct ") ++ name ++ (match generics with | some g => "<" ++ g ++ ">" | none => "")
  if fields.isEmpty then .raw (head ++ ";")
  else .raw (head ++ "{" ++ String.join (fields.map (· ++ ",")) ++ "}")

/-- `generate_data_record` -/
def dataRecord (vis : Bool) (name : String) (data : List D) (kind : UKind) : List Item :=
  let gen := match kind with | .safe _ => safeGeneric data | _ => none
  let fields := ((List.range data.length).zip data).filterMap fun (i, d) =>
    match kind, d.uninit with
    | _, false => some s!"pub {d.name}:{d.ty}"
    | .no, true => some s!"pub {d.name}:{d.ty}"
    | .safe _, true => some s!"pub {d.name}:std::marker::PhantomData<T{i}>"
    | .unsafe_, true => none
  let st := structItem vis name (gen.map (·.1)) fields
  match kind with
  | .safe un =>
    let hasData := data.any (fun d => !d.uninit)
    let header := match gen with
      | some (full, short, _) => s!"impl<{full}>From<{un}>for {name}<{short}>"
      | none => s!"impl From<{un}>for {name}"
    let body := "Self{" ++ ",".intercalate (data.map fun d =>
      if !d.uninit then s!"{d.name}:from.{d.name}" else s!"{d.name}:std::marker::PhantomData") ++ "}"
    [st, .impl header [⟨s!"fn from({if hasData then "from" else "_from"}:{un})->Self", [.raw body]⟩]]
  | _ => [st]

def unpackedName (v : Nat) := s!"UnpackedRecord{v}"
def unpackedUninitName (v : Nat) := s!"UnpackedUninitRecord{v}"
def unpackedSafeName (v : Nat) := s!"UnpackedUninitSafeRecord{v}"
def inName (v : Nat) := s!"UnpackedRecordIn{v}"
def inUninitName (v : Nat) := s!"UnpackedUninitRecordIn{v}"
def inSafeName (v : Nat) := s!"UnpackedUninitSafeRecordIn{v}"
def outName (v : Nat) := s!"Record{v}AndUnpackedOut"

/-- `DataRecordsGenerator` -/
def fragDataRecords (s : Spec) : List Item :=
  dataRecord true (unpackedName s.vid) s.data .no ++
  dataRecord true (unpackedUninitName s.vid) s.data .unsafe_ ++
  dataRecord false (unpackedSafeName s.vid) s.data (.safe (unpackedUninitName s.vid))

/-- `RecordGenerator` -/
def fragRecord (s : Spec) : List Item :=
  [.raw (s!"#[repr(align({s.align}))]pub struct {capped s.vid}<{CAPG}>" ++ "{data:RecordMaybeUninit<CAP>,}"),
   .raw (s!"pub type Record{s.vid}={capped s.vid}<" ++ "{MAX_SIZE}>;")]

/-- the full constructor's statements -/
def ctorNew (s : Spec) : Fn :=
  let hasData := !s.data.isEmpty
  ⟨s!"pub fn new({if hasData then "from" else "_from"}:{unpackedName s.vid})->Self",
   [.letBuf hasData] ++ s.data.map (fun d => .write d "from") ++ [.retSelfData]⟩

def ctorNewUninit (s : Spec) : Fn :=
  let uhd := s.data.any (fun d => !d.uninit)
  ⟨s!"pub fn new_uninit(from:{unpackedUninitName s.vid})->Self",
   [.safeFrom (if uhd then "from" else "_from") (unpackedSafeName s.vid) ((safeGeneric s.data).map (·.2.2)) "from",
    .letBuf uhd] ++
   (s.data.filter (fun d => !d.uninit)).map (fun d => .write d "from") ++ [.retSelfData]⟩

def unpackFn (s : Spec) : Fn :=
  ⟨s!"pub fn unpack(self)->{unpackedName s.vid}",
   s.data.map (fun d => .readLet d.name d "self") ++
   [.forgetSelf, .retStruct (unpackedName s.vid) (s.data.map (·.name))]⟩

def accessors (s : Spec) : List Fn :=
  (s.data.map fun d =>
    [(⟨s!"pub fn {d.name}(&self)->&{d.ty}", [.get d]⟩ : Fn),
     ⟨tj s!"pub fn {d.name}_mut(&mut self)->&mut" d.ty, [.getMut d]⟩]).flatten

/-- `RecordImplGenerator` -/
def fragRecordImpl (s : Spec) : List Item :=
  [.impl s!"impl<{CAPG}>{capped s.vid}<CAP>" ([ctorNew s, ctorNewUninit s, unpackFn s] ++ accessors s)]

def dropFn (s : Spec) : Fn :=
  ⟨"fn drop(&mut self)", s.data.map (fun d => .readLet ("_" ++ d.name) d "self")⟩

/-- `DropImplGenerator` -/
def fragDrop (s : Spec) : List Item :=
  [.impl s!"impl<{CAPG}>Drop for {capped s.vid}<CAP>" [dropFn s]]

/-- `FromUnpackedRecordImplsGenerator` -/
def fragFromUnpacked (s : Spec) : List Item :=
  [.impl s!"impl<{CAPG}>From<{unpackedName s.vid}>for {capped s.vid}<CAP>"
      [⟨s!"fn from(from:{unpackedName s.vid})->Self", [.raw "Self::new(from)"]⟩],
   .impl s!"impl<{CAPG}>From<{unpackedUninitName s.vid}>for {capped s.vid}<CAP>"
      [⟨s!"fn from(from:{unpackedUninitName s.vid})->Self", [.raw "Self::new_uninit(from)"]⟩]]

/-- `FromPreviousRecordDataRecordsGenerator` -/
def fragFromPrevData (s : Spec) : List Item :=
  if !s.hasPrev then [] else
  dataRecord true (inName s.vid) s.plus .no ++
  dataRecord true (inUninitName s.vid) s.plus .unsafe_ ++
  dataRecord false (inSafeName s.vid) s.plus (.safe (inUninitName s.vid)) ++
  [structItem true (outName s.vid) (some CAPG)
    (s!"pub record:{capped s.vid}<CAP>" :: s.minus.map (fun d => s!"pub {d.name}:{d.ty}"))]

/-- one of the four conversion functions -/
def convFn (s : Spec) (uninit andOut : Bool) : Fn :=
  let fromTy := s!"({capped s.prevVid}<CAP>,{if uninit then inUninitName s.vid else inName s.vid})"
  let plusHasData := !s.plus.isEmpty
  let uninitPlusHasData := uninit && s.plus.any (fun d => !d.uninit)
  let mutData := (!uninit && plusHasData) || (uninit && uninitPlusHasData)
  ⟨s!"fn from(({if uninit || plusHasData then "from,plus" else "from,_plus"}):{fromTy})->Self",
   s.minus.map (fun d => .readLet ((if andOut then "" else "_") ++ d.name) d "from") ++
   (if uninit then [.safeFrom (if uninitPlusHasData then "plus" else "_plus") (inSafeName s.vid)
      ((safeGeneric s.plus).map (·.2.2)) "plus"] else []) ++
   [.manuallyDrop, .copyBuf mutData] ++
   (s.plus.filter (fun d => !uninit || !d.uninit)).map (fun d => .write d "plus") ++
   (if andOut then [.letRecord (capped s.vid), .retStruct (outName s.vid) ("record" :: s.minus.map (·.name))]
    else [.retSelfData])⟩

def convHeader (s : Spec) (uninit andOut : Bool) : String :=
  let fromTy := s!"({capped s.prevVid}<CAP>,{if uninit then inUninitName s.vid else inName s.vid})"
  s!"impl<{CAPG}>From<{fromTy}>for {if andOut then outName s.vid else capped s.vid}<CAP>"

/-- `FromPreviousRecordImplsGenerator` -/
def fragFromPrevImpls (s : Spec) : List Item :=
  if !s.hasPrev then [] else
  [(false, false), (true, false), (false, true), (true, true)].map fun (u, o) =>
    .impl (convHeader s u o) [convFn s u o]

/-- `CloneImplGenerator` -/
def fragClone (s : Spec) : List Item :=
  [.lines (
    [s!"impl impl<{CAPG}>Clone for {capped s.vid}<CAP>",
     "fn fn clone(&self)->Self",
     "s Self::from(" ++ unpackedName s.vid ++ "{" ++ String.join (s.data.map fun d =>
        if d.uninit then s!"{d.name}:*self.{d.name}()," else s!"{d.name}:self.{d.name}().clone(),") ++ "})",
     "endfn",
     "fn fn clone_from(&mut self,source:&Self)"] ++
    s.data.map (fun d =>
      if d.uninit then s!"s *self.{d.name}_mut()=*source.{d.name}();"
      else s!"s self.{d.name}_mut().clone_from(source.{d.name}());") ++
    ["endfn", "endimpl"])]

/-- `SerdeImplGenerator` -/
def fragSerde (s : Spec) : List Item :=
  let n := s.data.length
  let cn := capped s.vid
  [.lines (
    [s!"impl impl<{CAPG}>serde::Serialize for {cn}<CAP>",
     "fn fn serialize<S>(&self,serializer:S)->Result<S::Ok,S::Error>where S:serde::Serializer,",
     (if n = 0 then "s let tuple=serializer.serialize_tuple(0)?;" else s!"s let mut tuple=serializer.serialize_tuple({n})?;")] ++
    s.data.map (fun d => s!"s tuple.serialize_element(self.{d.name}())?;") ++
    ["s tuple.end()", "endfn", "endimpl"]),
   .lines (
    [s!"impl impl<'de,{CAPG}>serde::Deserialize<'de>for {cn}<CAP>",
     "fn fn deserialize<D>(deserializer:D)->Result<Self,D::Error>where D:serde::Deserializer<'de>,",
     s!"item struct RecordVisitor<{CAPG}>;",
     s!"impl impl<'de,{CAPG}>serde::de::Visitor<'de>for RecordVisitor<CAP>",
     s!"member type Value={cn}<" ++ "{CAP}>;",
     "fn fn expecting(&self,formatter:&mut std::fmt::Formatter)->std::fmt::Result",
     s!"s formatter.write_str(\"a {cn}\")",
     "endfn",
     s!"fn fn visit_seq<A>(self,{if n = 0 then "seq" else "mut seq"}:A)->Result<Self::Value,A::Error>where A:serde::de::SeqAccess<'de>,",
     "s if let Some(size)=seq.size_hint(){if size!=" ++ toString n ++ "{return Err(A::Error::invalid_length(size,&\"" ++ toString n ++ "\"));}}"] ++
    s.data.map (fun d => s!"s let {d.name}=seq.next_element::<{d.ty}>()?.ok_or_else(||A::Error::missing_field(\"{d.name}\"))?;") ++
    ["s if let Some(size)=seq.size_hint(){assert_eq!(size,0);}",
     s!"s Ok({cn}::new({unpackedName s.vid}" ++ "{" ++ ",".intercalate (s.data.map (·.name)) ++ "}))",
     "endfn", "endimpl",
     s!"s deserializer.deserialize_tuple({n},RecordVisitor::<CAP>)",
     "endfn", "endimpl"])]

def variantItems (cfg : Cfg) (s : Spec) : List Item :=
  fragDataRecords s ++ fragRecord s ++ fragRecordImpl s ++ fragDrop s ++ fragFromUnpacked s ++
  fragFromPrevData s ++ fragFromPrevImpls s ++
  (if cfg.clone then fragClone s else []) ++ (if cfg.serde then fragSerde s else [])

/-- all `RecordSpec`s of a definition -/
def specs (d : Definition) : List Spec :=
  let align := d.maxTypeAlign
  let rec go : List (List Nat) → Nat → Option (List Nat) → List Spec
    | [], _, _ => []
    | v :: vs, k, prev =>
      let cur := sortIds v
      let (minus, plus) := match prev with
        | some p => (p.filter (fun x => !cur.contains x), cur.filter (fun x => !p.contains x))
        | none => ([], cur)
      { vid := k, align := align, data := cur.map (mkD d.defs), minus := minus.map (mkD d.defs),
        plus := plus.map (mkD d.defs), hasPrev := prev.isSome, prevVid := k - 1 } :: go vs (k + 1) (some cur)
  go d.variants 0 none

/-- sorted, duplicate-free insertion (`BTreeSet<(&str, usize)>`) -/
def insertAssert (x : String × Nat) : List (String × Nat) → List (String × Nat)
  | [] => [x]
  | y :: ys =>
    if x = y then y :: ys
    else if x.1 < y.1 || (x.1 = y.1 && x.2 < y.2) then x :: y :: ys
    else y :: insertAssert x ys

def sizeAssertions (ss : List Spec) : List (String × Nat) :=
  (ss.map (fun s => s.plus.map (fun d => (d.ty, d.size)))).flatten.foldl (fun acc x => insertAssert x acc) []

/-- the alignment assertions: every `(type, alignment)` of every datum of every variant -/
def alignAssertions (ss : List Spec) : List (String × Nat) :=
  (ss.map (fun s => s.data.map (fun d => (d.ty, d.align)))).flatten.foldl (fun acc x => insertAssert x acc) []

/-- `generate()`; `none` = `max_size()` panics -/
def module (d : Definition) (cfg : Cfg) : Option (List Item) :=
  match d.maxSize with
  | none => none
  | some ms =>
    let ss := specs d
    some (
      [.raw "use truc_runtime::data::RecordMaybeUninit;"] ++
      (if cfg.serde && !ss.isEmpty then [.raw "use serde::ser::SerializeTuple;", .raw "use serde::de::Error;"] else []) ++
      [.raw s!"pub const MAX_SIZE:usize={ms};",
       .raw (s!"#[repr(align({d.maxTypeAlign}))]pub struct RecordUninitialized<{CAPG}>" ++ "{_data:RecordMaybeUninit<CAP>,}")] ++
      (ss.map (variantItems cfg)).flatten ++
      (sizeAssertions ss).map (fun (t, n) => .raw s!"const_assert_eq!(std::mem::size_of::<{t}>(),{n});") ++
      (alignAssertions ss).map (fun (t, n) => .raw s!"const_assert_eq!(std::mem::align_of::<{t}>(),{n});"))

def render (items : List Item) : List String := (items.map Item.render).flatten

end Truc.Gen
