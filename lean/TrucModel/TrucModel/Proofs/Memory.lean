import TrucModel.Model.Machine
/-
  The extent memory: what a store does to later loads.
-/
namespace Truc.Mach
open Truc.Gen

/-- the key under which an extent is found -/
def keyOf (d : D) (e : Ext) : Bool := e.off == d.offset && e.size == d.size && e.val.ty == d.ty && !e.moved

theorem find_eq (b : Buf) (d : D) : b.find d = b.exts.find? (keyOf d) := rfl

/-- two data whose byte ranges are disjoint and that are not the same zero-size slot -/
def Apart (d d' : D) : Prop :=
  (d.offset + d.size ≤ d'.offset ∨ d'.offset + d'.size ≤ d.offset) ∧
  ¬(d.offset = d'.offset ∧ d.size = d'.size ∧ d.ty = d'.ty)

theorem store_ok {dr : String → Bool} {b : Buf} {d : D} {v : Val} (hcap : d.offset + d.size ≤ b.cap)
    (hfree : ∀ e ∈ b.exts, overlaps e d.offset d.size = true → e.moved = true ∨ dr e.val.ty = false) :
    ∃ b', b.store dr d v = .ok b' ∧ b'.cap = b.cap ∧
      b'.exts = b.exts.filter (fun e => !(overlaps e d.offset d.size)) ++ [(Ext.mk d.offset d.size v false)] := by
  unfold Buf.store
  rw [if_neg (by omega)]
  have : (b.exts.any fun e => overlaps e d.offset d.size && !e.moved && dr e.val.ty) = false := by
    rw [List.any_eq_false]
    intro e he hc
    simp only [Bool.and_eq_true, Bool.not_eq_eq_eq_not, Bool.not_true] at hc
    rcases hfree e he hc.1.1 with h | h
    · rw [h] at hc; simp at hc
    · rw [h] at hc; simp at hc
  rw [this]
  exact ⟨_, rfl, rfl, rfl⟩

/-- a value just stored is found -/
theorem find_after_store_same (exts : List Ext) (d : D) (v : Val) (hv : v.ty = d.ty)
    (hnone : ∀ e ∈ exts.filter (fun e => !(overlaps e d.offset d.size)), keyOf d e = false) :
    (exts.filter (fun e => !(overlaps e d.offset d.size)) ++ [(Ext.mk d.offset d.size v false)]).find? (keyOf d)
      = some (Ext.mk d.offset d.size v false) := by
  rw [List.find?_append]
  have : (exts.filter (fun e => !(overlaps e d.offset d.size))).find? (keyOf d) = none := by
    rw [List.find?_eq_none]; intro e he; simp [hnone e he]
  rw [this]
  simp [keyOf, hv]

/-- a store does not disturb what is found for a datum that is apart from it -/
theorem find_after_store_other (exts : List Ext) (d d' : D) (v : Val) (hv : v.ty = d.ty) (hap : Apart d d') :
    (exts.filter (fun e => !(overlaps e d.offset d.size)) ++ [(Ext.mk d.offset d.size v false)]).find? (keyOf d')
      = exts.find? (keyOf d') := by
  rw [List.find?_append]
  have hlast : keyOf d' (Ext.mk d.offset d.size v false) = false := by
    cases h : keyOf d' (Ext.mk d.offset d.size v false) with
    | false => rfl
    | true =>
      exfalso
      unfold keyOf at h
      simp only [Bool.and_eq_true, beq_iff_eq, Bool.not_false] at h
      exact hap.2 ⟨h.1.1.1, h.1.1.2, by rw [← hv]; exact h.1.2⟩
  have hfilter : (exts.filter (fun e => !(overlaps e d.offset d.size))).find? (keyOf d') = exts.find? (keyOf d') := by
    induction exts with
    | nil => rfl
    | cons e es ih =>
      simp only [List.filter_cons]
      by_cases hov : overlaps e d.offset d.size = true
      · -- e is clobbered: it cannot be the extent of d' (their ranges are apart)
        have hk : keyOf d' e = false := by
          unfold keyOf overlaps at *
          simp only [Bool.and_eq_true, decide_eq_true_eq] at hov
          simp only [Bool.and_eq_false_iff, beq_eq_false_iff_ne, ne_eq, Bool.not_eq_eq_eq_not, Bool.not_false]
          by_cases h1 : e.off = d'.offset
          · by_cases h2 : e.size = d'.size
            · exfalso
              have := hap.1
              omega
            · left; left; right; exact h2
          · left; left; left; exact h1
        simp only [hov, Bool.not_true, Bool.false_eq_true, if_false, List.find?_cons, hk]
        exact ih
      · simp only [hov, Bool.not_false, if_true, List.find?_cons]
        cases keyOf d' e
        · exact ih
        · rfl
  rw [hfilter]
  cases h : exts.find? (keyOf d') with
  | some e => simp
  | none => simp [hlast]

end Truc.Mach

namespace Truc.Mach
open Truc.Gen

/-- a sequence of stores (constructor / the added fields of a conversion) -/
def storeAll (dr : String → Bool) : Buf → List (D × Val) → Except MErr Buf
  | b, [] => .ok b
  | b, (d, v) :: rest => match b.store dr d v with
    | .error e => .error e
    | .ok b' => storeAll dr b' rest

theorem store_cap {dr : String → Bool} {b b' : Buf} {d : D} {v : Val} (h : b.store dr d v = .ok b') : b'.cap = b.cap := by
  unfold Buf.store at h
  split at h
  · simp at h
  · split at h
    · simp at h
    · simp only [Except.ok.injEq] at h; rw [← h]

theorem store_exts {dr : String → Bool} {b b' : Buf} {d : D} {v : Val} (h : b.store dr d v = .ok b') :
    b'.exts = b.exts.filter (fun e => !(overlaps e d.offset d.size)) ++ [Ext.mk d.offset d.size v false] := by
  unfold Buf.store at h
  split at h
  · simp at h
  · split at h
    · simp at h
    · simp only [Except.ok.injEq] at h; rw [← h]

/-- stores leave a datum that is apart from all of them exactly as it was -/
theorem storeAll_frame (dr : String → Bool) (d' : D) : ∀ (ws : List (D × Val)) (b b' : Buf),
    (∀ w ∈ ws, w.2.ty = w.1.ty ∧ Apart w.1 d') → storeAll dr b ws = .ok b' → b'.find d' = b.find d' := by
  intro ws
  induction ws with
  | nil => intro b b' _ h; simp only [storeAll, Except.ok.injEq] at h; rw [h]
  | cons w rest ih =>
    intro b b' hw h
    obtain ⟨d, v⟩ := w
    unfold storeAll at h
    cases hs : b.store dr d v with
    | error e => rw [hs] at h; simp at h
    | ok b1 =>
      rw [hs] at h
      simp only at h
      have h1 := ih b1 b' (fun w hw' => hw w (List.mem_cons_of_mem _ hw')) h
      rw [h1, find_eq, find_eq, store_exts hs]
      have := hw (d, v) List.mem_cons_self
      exact find_after_store_other _ _ _ _ this.1 this.2

/-- moving a value out does not change what is found for a datum with a different key -/
theorem markMoved_frame (b : Buf) (d d' : D) (h : ¬(d.offset = d'.offset ∧ d.size = d'.size ∧ d.ty = d'.ty)) :
    (b.markMoved d).find d' = b.find d' := by
  rw [find_eq, find_eq]
  unfold Buf.markMoved
  simp only
  induction b.exts with
  | nil => rfl
  | cons e es ih =>
    unfold markFirst
    split
    · rename_i hk
      -- e carried the key of d, hence not the key of d'; its moved copy has no key at all
      have hk' : keyOf d' e = false := by
        cases hq : keyOf d' e with
        | false => rfl
        | true =>
          exfalso
          unfold keyOf at hq
          simp only [Bool.and_eq_true, beq_iff_eq, Bool.not_eq_eq_eq_not, Bool.not_true] at hk hq
          exact h ⟨hk.1.1.1.symm.trans hq.1.1.1, hk.1.1.2.symm.trans hq.1.1.2, hk.1.2.symm.trans hq.1.2⟩
      have hm : keyOf d' { e with moved := true } = false := by simp [keyOf]
      simp [List.find?_cons, hk', hm]
    · simp only [List.find?_cons]
      cases keyOf d' e
      · exact ih
      · rfl

end Truc.Mach
