import TrucModel.Proofs.Reach
import TrucModel.Model.Definition
/-
  Consequences of `LInv` used by the property theorems: disjointness, order, capacity, alignment
  of the record, Display.
-/
namespace Truc

theorem pairwise_mem_cases {α : Type} {R : α → α → Prop} {l : List α} (h : l.Pairwise R) {a b : α}
    (ha : a ∈ l) (hb : b ∈ l) (hne : a ≠ b) : R a b ∨ R b a := by
  induction l with
  | nil => simp at ha
  | cons x xs ih =>
    rw [List.pairwise_cons] at h
    rcases List.mem_cons.1 ha with ha1 | ha1
    · rcases List.mem_cons.1 hb with hb1 | hb1
      · exact absurd (ha1.trans hb1.symm) hne
      · left; rw [ha1]; exact h.1 b hb1
    · rcases List.mem_cons.1 hb with hb1 | hb1
      · right; rw [hb1]; exact h.1 a ha1
      · exact ih h.2 ha1 hb1

theorem LInv.disjoint {defs : Defs} {l : List Nat} (h : LInv defs l) {a b : Nat} (ha : a ∈ l) (hb : b ∈ l)
    (hne : a ≠ b) : stop defs a ≤ off defs b ∨ stop defs b ≤ off defs a :=
  pairwise_mem_cases h.sorted ha hb hne

/-! ### capacity -/

theorem foldl_max_ge_init (l : List Nat) : ∀ init, init ≤ l.foldl max init := by
  induction l with
  | nil => intro init; exact Nat.le_refl _
  | cons x xs ih => intro init; exact Nat.le_trans (Nat.le_max_left _ _) (ih _)

theorem le_foldl_max {l : List Nat} {x : Nat} (hx : x ∈ l) : ∀ init, x ≤ l.foldl max init := by
  induction l with
  | nil => simp at hx
  | cons y ys ih =>
    intro init
    rcases List.mem_cons.1 hx with rfl | hx
    · exact Nat.le_trans (Nat.le_max_right _ _) (foldl_max_ge_init ys _)
    · exact ih hx _

theorem foldl_max_mem (l : List Nat) : ∀ init, l.foldl max init = init ∨ l.foldl max init ∈ l := by
  induction l with
  | nil => intro init; left; rfl
  | cons y ys ih =>
    intro init
    simp only [List.foldl_cons]
    rcases ih (max init y) with h | h
    · rw [h]
      rcases Nat.le_total init y with hle | hle
      · right; rw [Nat.max_eq_right hle]; exact List.mem_cons_self
      · left; exact Nat.max_eq_left hle
    · right; exact List.mem_cons_of_mem _ h

theorem sum_sizes_le (defs : Defs) (B : Nat) : ∀ (l : List Nat) (lo : Nat),
    l.Pairwise (fun a b => off defs a + sz defs a ≤ off defs b) →
    (∀ d ∈ l, off defs d + sz defs d ≤ B) → (∀ d ∈ l, lo ≤ off defs d) → lo ≤ B →
    (l.map (sz defs)).sum + lo ≤ B := by
  intro l
  induction l with
  | nil => intro lo _ _ _ h; simpa using h
  | cons a rest ih =>
    intro lo hs hB hlo _
    rw [List.pairwise_cons] at hs
    have ha := hB a List.mem_cons_self
    have hla := hlo a List.mem_cons_self
    have := ih (off defs a + sz defs a) hs.2 (fun d hd => hB d (List.mem_cons_of_mem _ hd))
      (fun d hd => hs.1 d hd) ha
    simp only [List.map_cons, List.sum_cons]
    omega

theorem maxSize_ge {d : Definition} {m : Nat} (h : d.maxSize = some m) {v : List Nat} (hv : v ∈ d.variants)
    {id : Nat} (hid : id ∈ v) : stop d.defs id ≤ m := by
  unfold Definition.maxSize at h
  simp only at h
  split at h
  · simp at h
  · simp only [Option.some.injEq] at h
    subst h
    apply le_foldl_max
    exact List.mem_map.2 ⟨id, List.mem_flatten.2 ⟨v, hv, hid⟩, rfl⟩

theorem maxSize_isSome {d : Definition} (hb : ∀ v ∈ d.variants, ∀ id ∈ v, stop d.defs id < 2 ^ 64) :
    d.maxSize.isSome = true := by
  unfold Definition.maxSize
  simp only
  split
  · rename_i hany
    rw [List.any_eq_true] at hany
    obtain ⟨e, he, hge⟩ := hany
    obtain ⟨id, hid, rfl⟩ := List.mem_map.1 he
    obtain ⟨v, hv, hidv⟩ := List.mem_flatten.1 hid
    have := hb v hv id hidv
    simp at hge; omega
  · rfl

/-! ### alignment of the record -/

def IsPow2 (n : Nat) : Prop := ∃ k, n = 2 ^ k

theorem IsPow2.dvd_of_le {a b : Nat} (ha : IsPow2 a) (hb : IsPow2 b) (h : a ≤ b) : a ∣ b := by
  obtain ⟨j, rfl⟩ := ha
  obtain ⟨k, rfl⟩ := hb
  exact Nat.pow_dvd_pow 2 ((Nat.pow_le_pow_iff_right (by omega)).1 h)

theorem maxTypeAlign_ge (d : Definition) {i : Info} (hi : i ∈ d.defs) : i.align ≤ d.maxTypeAlign := by
  unfold Definition.maxTypeAlign
  have hm : i.align ∈ d.defs.map (·.align) := List.mem_map.2 ⟨i, hi, rfl⟩
  split
  · rename_i heq; rw [heq] at hm; simp at hm
  · rename_i a as heq
    rw [heq] at hm
    rcases List.mem_cons.1 hm with h | h
    · rw [h]; exact foldl_max_ge_init as a
    · exact le_foldl_max h a

theorem maxTypeAlign_pow2 (d : Definition) (hp : ∀ i ∈ d.defs, IsPow2 i.align) : IsPow2 d.maxTypeAlign := by
  unfold Definition.maxTypeAlign
  split
  · exact ⟨0, rfl⟩
  · rename_i a as heq
    have hall : ∀ x ∈ d.defs.map (·.align), IsPow2 x := by
      intro x hx
      obtain ⟨i, hi, rfl⟩ := List.mem_map.1 hx
      exact hp i hi
    rw [heq] at hall
    rcases foldl_max_mem as a with h | h
    · rw [h]; exact hall a List.mem_cons_self
    · exact hall _ (List.mem_cons_of_mem _ h)

theorem maxTypeAlign_dvd (d : Definition) (hp : ∀ i ∈ d.defs, IsPow2 i.align) {i : Info} (hi : i ∈ d.defs) :
    i.align ∣ d.maxTypeAlign :=
  (hp i hi).dvd_of_le (maxTypeAlign_pow2 d hp) (maxTypeAlign_ge d hi)

/-! ### Display -/

theorem variantItems_isSome (defs : Defs) : ∀ (l : List Nat) (first : Bool) (bo : Nat), Sorted defs l →
    (∀ e ∈ l, bo ≤ off defs e) → (variantItems defs l first bo).isSome = true := by
  intro l
  induction l with
  | nil => intro _ _ _ _; rfl
  | cons d rest ih =>
    intro first bo hs hbo
    unfold variantItems
    simp only
    have hd := hbo d List.mem_cons_self
    unfold off at hd
    rw [if_neg (by omega)]
    unfold Sorted at hs
    rw [List.pairwise_cons] at hs
    have := ih false ((info defs d).offset + (info defs d).size) hs.2 (fun e he => hs.1 e he)
    cases hv : variantItems defs rest false ((info defs d).offset + (info defs d).size) with
    | none => rw [hv] at this; simp at this
    | some t => rfl

theorem display_go_isSome (d : Definition) : ∀ (vs : List (List Nat)) (k : Nat), (∀ v ∈ vs, Sorted d.defs v) →
    (Definition.display.go d vs k).isSome = true := by
  intro vs
  induction vs with
  | nil => intro _ _; rfl
  | cons v vs ih =>
    intro k hs
    unfold Definition.display.go
    have h1 := variantItems_isSome d.defs v true 0 (hs v List.mem_cons_self) (fun _ _ => Nat.zero_le _)
    have h2 := ih (k + 1) (fun v' hv' => hs v' (List.mem_cons_of_mem _ hv'))
    cases hv : variantItems d.defs v true 0 with
    | none => rw [hv] at h1; simp at h1
    | some a =>
      cases hg : Definition.display.go d vs (k + 1) with
      | none => rw [hg] at h2; simp at h2
      | some b => rfl

theorem display_isSome (d : Definition) (hs : ∀ v ∈ d.variants, Sorted d.defs v) : d.display.isSome = true :=
  display_go_isSome d d.variants 0 hs

end Truc
