#!/usr/bin/env python3
"""harmlessrun.py <id> <worktree|-> [props...]: a behaviour-preserving change (seeded/<id>/patch.diff): apply it to /repo, run the
listed (default: all) quick checks, undo it; record which checks raised an alarm (expected: none)."""
import json, os, shutil, subprocess, sys
sid, wt = sys.argv[1], sys.argv[2]
props = sys.argv[3:] or [f"C{i:02d}" for i in range(1, 21)]
dst = f"/verif/seeded/{sid}"
os.makedirs(dst, exist_ok=True)
if wt != "-":
    shutil.copy(f"{wt}/seed.patch", f"{dst}/patch.diff")
    if os.path.exists(f"{wt}/README-refactor.md"):
        shutil.copy(f"{wt}/README-refactor.md", dst)
assert subprocess.run(["git", "-C", "/repo", "status", "--porcelain", "--untracked-files=no"], capture_output=True, text=True).stdout.strip() == "", "repo dirty"
r = subprocess.run(["git", "-C", "/repo", "apply", f"{dst}/patch.diff"], capture_output=True, text=True)
if r.returncode != 0:
    print("patch does not apply:", r.stderr); sys.exit(2)
results = {}
try:
    for p in props:
        r = subprocess.run(["./check", p], cwd="/verif", capture_output=True, text=True)
        line = [l for l in r.stdout.splitlines() if l.startswith(("VIOLATION", "OK", "KNOWN"))]
        results[p] = {"rc": r.returncode, "line": line[-1] if line else r.stdout[-200:] + r.stderr[-300:]}
        if r.returncode != 0 and "replay=" in results[p]["line"]:
            path = results[p]["line"].split("replay=")[1].split(" ")[0]
            try:
                results[p]["replay_head"] = open(path).read()[:1200]
            except OSError:
                pass
        print(p, results[p]["rc"], results[p]["line"][:150], flush=True)
finally:
    subprocess.run(["git", "-C", "/repo", "checkout", "--", "."], check=True)
meta_p = f"{dst}/meta.json"
meta = json.load(open(meta_p)) if os.path.exists(meta_p) else {}
meta.update({"seed": sid, "kind": "behaviour-preserving refactoring (no property is broken)", "checks_run": results,
             "alarms": sorted(p for p, v in results.items() if v["rc"] != 0)})
json.dump(meta, open(meta_p, "w"), indent=1)
print("alarms:", meta["alarms"])
