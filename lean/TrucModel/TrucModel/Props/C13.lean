import TrucModel.Proofs.Corollaries
import TrucModel.Proofs.GenProps
import TrucModel.Props.Examples
/-
  C13 — Any definition the builder accepts can be displayed, generated and compiled.
  This file: nothing panics (strategies, Display, capacity, alignment, `generate()`); the compile half
  is modelled by the three compiler rules of `Model/Static.lean` (`C11_accepts_when_right`: a generated
  module whose recorded type information is right is accepted) and otherwise carried by channel X, which
  compiles every sampled module with all four fragment selections in three builds.
-/
namespace Truc

/-- no strategy panics, at any point of any valid history -/
theorem C13_close_no_panic (reqs : List Req) (hv : ∀ r ∈ reqs, r.valid) (st : Strategy) (hn : st.isNative = true) :
    ((run reqs).close st).isSome = true := by
  obtain ⟨s', vid, hc, _⟩ := (reachable_BInv reqs hv).close hn
  rw [hc]; rfl

/-- `Display` never hits its "offset clash" panic -/
theorem C13_display_no_panic (reqs : List Req) (hv : ∀ r ∈ reqs, r.valid) (d : Definition)
    (hb : (run reqs).build = some d) : d.display.isSome = true := by
  unfold BState.build at hb
  split at hb
  · simp only [Option.some.injEq] at hb
    subst hb
    exact display_isSome _ (fun v hvm => ((reachable_BInv reqs hv).vinv v hvm).sorted)
  · simp at hb

/-- the capacity computation does not overflow as long as the layout itself fits in `usize`
    (in particular a datum added and removed again before its variant is closed, whose offset is
    still `usize::MAX`, is not looked at) -/
theorem C13_maxSize_no_panic (d : Definition)
    (hfit : ∀ v ∈ d.variants, ∀ id ∈ v, off d.defs id + sz d.defs id < 2 ^ 64) : d.maxSize.isSome = true :=
  maxSize_isSome hfit

/-- `generate()` does not panic on a definition built from valid requests whose layout fits in `usize`,
    whatever the fragment selection -/
theorem C13_generate_no_panic (reqs : List Req) (hv : ∀ r ∈ reqs, r.valid) (d : Definition)
    (hb : (run reqs).build = some d) (cfg : Gen.Cfg)
    (hfit : ∀ v ∈ d.variants, ∀ id ∈ v, off d.defs id + sz d.defs id < 2 ^ 64) :
    (Gen.module d cfg).isSome = true ∧ d.display.isSome = true := by
  refine ⟨?_, C13_display_no_panic reqs hv d hb⟩
  have hm := C13_maxSize_no_panic d hfit
  unfold Gen.module
  cases hms : d.maxSize with
  | none => rw [hms] at hm; simp at hm
  | some ms => rfl

/-- non-vacuity, including an add-then-remove-before-close -/
example : (run (Ex.h1 ++ [.add (Ex.I "x" 8 8), .remove 6, .close .simple])).build.isSome = true ∧
    ((run (Ex.h1 ++ [.add (Ex.I "x" 8 8), .remove 6, .close .simple])).build.bind (·.maxSize)) = some 24 := by
  decide +kernel

end Truc
