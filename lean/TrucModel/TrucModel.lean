import TrucModel.Model.Layout
import TrucModel.Model.Strategy
import TrucModel.Model.Builder
import TrucModel.Model.Definition
import TrucModel.Model.Replay
import TrucModel.Model.VecConvert
import TrucModel.Model.Gen
import TrucModel.Model.Machine
