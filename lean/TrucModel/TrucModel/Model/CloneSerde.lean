import TrucModel.Model.Machine
/-
  The optional fragments (`generator/fragment/clone.rs`, `serde.rs`) at the level of field values.
  The field types' own `Clone` / codec implementations are parameters.
-/
namespace Truc.Frag
open Truc.Gen Truc.Mach

/-! ### Clone -/

inductive CloneOut where
  | ok (vals : List Val)
  /-- a field's `clone()` panicked: the clones already built are dropped by unwinding -/
  | panicked (at_ : Nat) (dropped : List Val)
deriving Repr, DecidableEq, Inhabited

/-- `Self::from(UnpackedRecordN { f: *self.f() | self.f().clone(), … })`: the struct literal is
    evaluated field by field in declaration order -/
def cloneFields (dr : String → Bool) (cl : Val → Val) (bomb : Val → Bool) : List (D × Val) → List Val → CloneOut
  | [], acc => .ok acc
  | (d, v) :: rest, acc =>
    if d.uninit then cloneFields dr cl bomb rest (acc ++ [v])            -- bit copy of a `Copy` field
    else if bomb v then .panicked acc.length (acc.filter (fun x => dr x.ty))
    else cloneFields dr cl bomb rest (acc ++ [cl v])

/-- `clone_from`: field-by-field assignment through the mutable accessors; returns the new field
    values of the target and what was dropped (the target's previous droppable values) -/
def cloneFromFields (dr : String → Bool) (cl : Val → Val) : List (D × Val × Val) → List Val × List Val
  | [] => ([], [])
  | (d, src, old) :: rest =>
    let (vs, ds) := cloneFromFields dr cl rest
    ((if d.uninit then src else cl src) :: vs, (if dr d.ty then [old] else []) ++ ds)

/-- `clone_from` in which a field's `clone()` may panic (`bomb`): the assignments are statements executed in declaration
    order; the statement whose clone panics changes nothing. Returns the target's field values afterwards, what was
    dropped, and the index of the panicking field if any -/
def cloneFromBomb (dr : String → Bool) (cl : Val → Val) (bomb : Val → Bool) : List (D × Val × Val) → List Val × List Val × Option Nat
  | [] => ([], [], none)
  | (d, src, old) :: rest =>
    if !d.uninit && bomb src then (old :: rest.map (·.2.2), [], some 0)
    else
      let (vs, ds, k) := cloneFromBomb dr cl bomb rest
      ((if d.uninit then src else cl src) :: vs, (if dr d.ty then [old] else []) ++ ds, k.map (· + 1))

/-! ### serde -/

inductive DeErr where
  | invalidLength | missingField (k : Nat) | badElement (k : Nat) | trailing
deriving Repr, DecidableEq, Inhabited

inductive DeOut where
  | ok (vals : List Val)
  | err (e : DeErr) (dropped : List Val)
deriving Repr, DecidableEq, Inhabited

/-- the sequence the visitor reads: `hinted` = the format reports the remaining length (bincode:
    yes; serde_json: no); an element is `none` when it cannot be decoded as its field type -/
structure SeqIn where
  hinted : Bool
  elems  : List (Option Val)
deriving Repr, DecidableEq, Inhabited

/-- the `let f = seq.next_element::<T>()?.ok_or_else(missing_field)?;` lines -/
def readElems (dr : String → Bool) : Nat → List D → List (Option Val) → List Val → DeOut
  | _, [], _, acc => .ok acc
  | k, _ :: _, [], acc => .err (.missingField k) (acc.filter fun x => dr x.ty)
  | k, _ :: _, none :: _, acc => .err (.badElement k) (acc.filter fun x => dr x.ty)
  | k, _ :: ds, some v :: es, acc => readElems dr (k + 1) ds es (acc ++ [v])

/-- `visit_seq` followed by the format's own end-of-sequence check (self-describing formats without a
    length hint reject trailing elements themselves — an assumption about the format) -/
def deserialize (dr : String → Bool) (ds : List D) (inp : SeqIn) : DeOut :=
  if inp.hinted && inp.elems.length != ds.length then .err .invalidLength []
  else match readElems dr 0 ds inp.elems [] with
    | .err e d => .err e d
    | .ok vals =>
      if !inp.hinted && inp.elems.length > ds.length then .err .trailing (vals.filter fun x => dr x.ty)
      else .ok vals

/-- `serialize`: the accessor values in id order as a fixed-length tuple -/
def serialize (vals : List Val) : List (Option Val) := vals.map some

end Truc.Frag
