"""Channel L: builder / layout / definition / replay correspondence (real code vs Lean model)."""
import glob, hashlib, json, os, re, shutil, subprocess, time
from concurrent.futures import ThreadPoolExecutor
from common import *

L_BIN = "chan_l"


def _run_shard(args):
    mode, seed, count, outdir = args[:4]
    binp = args[4] if len(args) > 4 else harness_bin(L_BIN)
    os.makedirs(outdir, exist_ok=True)
    rc, out, err = sh([binp, mode, str(seed), str(count), outdir], timeout=3600)
    if rc != 0:
        hp = os.path.join(outdir, "hang.txt")
        if rc == 3 and os.path.exists(hp):
            # the harness's watchdog: the implementation did not answer the last request of this history
            return {"dir": outdir, "error": "the implementation does not answer (non-termination) on a history", "hang": open(hp).read().splitlines()}
        return {"dir": outdir, "error": f"harness rc={rc}: {err[-500:]}"}
    with open(os.path.join(outdir, "req.txt")) as fin, open(os.path.join(outdir, "model.txt"), "w") as fout:
        p = subprocess.run([DRV], stdin=fin, stdout=fout, stderr=subprocess.PIPE, text=True)
    if p.returncode != 0:
        return {"dir": outdir, "error": f"driver rc={p.returncode}: {p.stderr[-500:]}"}
    return {"dir": outdir, "mode": mode, "seed": seed}


# ---- alpha-normalisation of generated function bodies -------------------------------------------------------------------------
# Two generated modules that differ only by a consistent, injective renaming of local bindings (function parameters and `let`
# bindings that are never used in struct-literal shorthand position) are the same program. The comparison of the generator's
# output with the model's falls back to this normal form when the raw token lines differ.
_TOK = re.compile(r"[A-Za-z_][A-Za-z0-9_]*|::|->|=>|.")
_KW = {"mut", "ref", "self", "Self", "_", "let", "fn", "pub", "unsafe", "const", "crate", "super", "as", "in", "for", "if", "else", "match", "move", "dyn", "impl", "where"}


def _idents_of_pattern(toks):
    return [t for t in toks if re.match(r"[A-Za-z_]", t) and t not in _KW and not t[0].isupper()]


def _split_top(toks, sep):
    out, cur, depth = [], [], 0
    for t in toks:
        if t in "([{<":
            depth += 1
        elif t in ")]}>":
            depth -= 1
        if t == sep and depth == 0:
            out.append(cur); cur = []
        else:
            cur.append(t)
    out.append(cur)
    return out


def _until_top(toks, stops):
    depth = 0
    for i, t in enumerate(toks):
        if t in "([{":
            depth += 1
        elif t in ")]}":
            depth -= 1
        if depth == 0 and t in stops:
            return toks[:i]
    return toks


def alpha_fn(lines):
    """lines of one `fn ... endfn` block -> the same lines with renamable binders replaced by $0, $1, ..."""
    toks = [_TOK.findall(l) for l in lines]
    binders = []
    sig = toks[0]
    name_i = -1
    try:
        k = len(sig) - 1 - sig[::-1].index("fn")        # last `fn` keyword of the signature line
        name_i = next(i for i in range(k + 1, len(sig)) if sig[i] != " ")
        j = sig.index("(", name_i)
        depth, end = 0, j
        for i in range(j, len(sig)):
            if sig[i] == "(":
                depth += 1
            elif sig[i] == ")":
                depth -= 1
                if depth == 0:
                    end = i; break
        for prm in _split_top(sig[j + 1:end], ","):
            binders += _idents_of_pattern(_until_top(prm, {":"}))
    except (ValueError, StopIteration):
        pass
    for ts in toks[1:]:
        tt = [t for t in ts if t != " "]
        if len(tt) > 2 and tt[0] == "s" and tt[1] == "let":
            binders += _idents_of_pattern(_until_top(tt[2:], {":", "="}))
    short = set()
    for ts in toks:
        tt = [t for t in ts if t != " "]
        for i in range(1, len(tt) - 1):
            if tt[i - 1] in ("{", ",") and tt[i + 1] in (",", "}") and re.match(r"[a-z_]", tt[i]):
                short.add(tt[i])
    order = []
    for b in binders:
        if b not in short and b not in order:
            order.append(b)
    ren = {b: f"${i}" for i, b in enumerate(order)}
    out = []
    for li, ts in enumerate(toks):
        res = []
        prev = ""
        for i, t in enumerate(ts):
            if t in ren and prev not in ("::", ".") and not (li == 0 and i == name_i):
                res.append(ren[t])
            else:
                res.append(t)
            if t != " ":
                prev = t
        out.append("".join(res))
    return out


def alpha_ir(ans):
    """normal form of an `ir ...` answer"""
    if not ans.startswith("ir "):
        return ans
    lines = ans[3:].split("\t")
    out, i = [], 0
    while i < len(lines):
        if lines[i].startswith("fn "):
            j = i
            while j < len(lines) and lines[j] != "endfn":
                j += 1
            out += alpha_fn(lines[i:j]) + (["endfn"] if j < len(lines) else [])
            i = j + 1
        else:
            out.append(lines[i]); i += 1
    return "ir " + "\t".join(out)


def project(prop, req, ans):
    """per-property canonicalisation of an answer line (what the property's tie depends on)"""
    if prop != "C12":
        return ans
    t = ans.split(" ")
    if t[0] == "v" and len(t) >= 3:
        ids = sorted(x for x in t[2].strip("[]").split(",") if x)
        return f"v {t[1]} {ids}"
    if t[0] == "ids":
        return "ids " + ",".join(sorted((t[1] if len(t) > 1 else "").split(",")))
    if req.startswith("variant") and t[0] == "some":
        return "some " + ",".join(sorted(t[1].strip("[]").split(",")))
    if req.startswith("get") and t[0] == "some":
        return " ".join(t[:-2] + t[-1:])   # drop the offset
    if req.split(" ")[0] in ("maxsize", "align", "display", "replay"):
        return ""
    return ans


def analyse(dirs, prop):
    """compare impl vs model per line, group by history; collect oracle hits and statistics"""
    res = {"histories": 0, "lines": 0, "disagreements": [], "oracle": [], "distinct": 0, "nontrivial": 0,
           "samples": [], "stats": {}}
    seen = set()
    nontriv = set()
    for d in dirs:
        req = open(os.path.join(d, "req.txt")).read().split("\n")
        imp = open(os.path.join(d, "impl.txt")).read().split("\n")
        mod = open(os.path.join(d, "model.txt")).read().split("\n")
        if req and req[-1] == "":
            req.pop()
        n = len(req)
        imp = imp[:n] + [""] * (n - len(imp))
        mod = mod[:n] + ["<missing>"] * (n - len(mod))
        hist = -1
        start = 0
        bounds = []
        for i, r in enumerate(req):
            if r.startswith("reset"):
                if hist >= 0:
                    bounds.append((start, i))
                hist += 1
                start = i
        if hist >= 0:
            bounds.append((start, n))
        res["histories"] += len(bounds)
        res["lines"] += n
        bad_hist = {}
        for hi, (a, b) in enumerate(bounds):
            body = "\n".join(req[a + 1:b])
            hsh = hashlib.md5(body.encode()).digest()
            if hsh not in seen:
                seen.add(hsh)
                # non-trivial: at least two variants closed and one accepted removal
                closes = sum(1 for k in range(a, b) if imp[k].startswith("v "))
                rms = sum(1 for k in range(a, b) if req[k].startswith("rm") and imp[k] == "ok")
                if closes >= 2 and rms >= 1:
                    nontriv.add(hsh)
            for k in range(a, b):
                if imp[k] != mod[k] and project(prop, req[k], imp[k]) != project(prop, req[k], mod[k]):
                    if req[k].startswith("gen") and alpha_ir(imp[k]) == alpha_ir(mod[k]):
                        res["alpha_equal"] = res.get("alpha_equal", 0) + 1    # same program up to renaming of local bindings
                        continue
                    if hi not in bad_hist:
                        bad_hist[hi] = k
                        if len(res["disagreements"]) < 50:
                            res["disagreements"].append({"dir": d, "history": hi, "line": k - a, "request": req[k],
                                                         "impl": imp[k][:200000], "model": mod[k][:200000],
                                                         "requests": req[a:b]})
                    break
            if len(res["samples"]) < 3 and b - a > 8 and hi % 97 == 5:
                res["samples"].append(req[a:b][:40])
        res.setdefault("n_disagree", 0)
        res["n_disagree"] += len(bad_hist)
        for l in open(os.path.join(d, "oracle.txt")):
            l = l.strip()
            if not l:
                continue
            kv = l.split(" ", 2)
            hi = int(kv[0].split("=")[1]); p = kv[1].split("=")[1]
            a, b = bounds[hi]
            res["oracle"].append({"dir": d, "history": hi, "property": p, "message": kv[2] if len(kv) > 2 else "",
                                  "requests": req[a:b]})
        try:
            st = json.load(open(os.path.join(d, "stats.json")))
            for k, v in st.items():
                if isinstance(v, dict):
                    dd = res["stats"].setdefault(k, {})
                    for kk, vv in v.items():
                        dd[kk] = dd.get(kk, 0) + vv
                else:
                    res["stats"][k] = res["stats"].get(k, 0) + v
        except Exception:
            pass
    res["distinct"] = len(seen)
    res["nontrivial"] = len(nontriv)
    if not res["samples"] and dirs:
        req = open(os.path.join(dirs[0], "req.txt")).read().split("\n")[:30]
        res["samples"].append(req)
    return res


def run(seed, tier, extra_seeds=0):
    """runs the channel (corpus first), returns the list of shard directories. Cached by content."""
    key = f"{repo_hash()}-{machinery_hash()}"
    base = os.path.join(WORK, "cache", key, f"L-{seed}-{tier}-{extra_seeds}")
    marker = os.path.join(base, "done.json")
    if os.path.exists(marker) and not os.environ.get("VERIF_NO_CACHE"):
        info = json.load(open(marker))
        info["cached"] = True
        return info
    if os.path.exists(base):
        shutil.rmtree(base)
    os.makedirs(base)
    t0 = time.time()
    jobs = []
    for i, c in enumerate(sorted(glob.glob(os.path.join(VERIF, "corpus", "L-*.txt")))):
        jobs.append((f"file:{c}", 0, 0, os.path.join(base, f"corpus{i}")))
    nsh = 16
    per = 5000 if tier == "quick" else 60000
    if extra_seeds:
        per = per * 2
    for i in range(nsh):
        jobs.append(("random", seed * 1000 + i + 7919 * extra_seeds, per, os.path.join(base, f"rand{i}")))
    ex = "exhaustive-quick" if tier == "quick" else "exhaustive-thorough"
    for i in range(nsh):
        jobs.append((f"{ex}:{i}/{nsh}", 0, 0, os.path.join(base, f"exh{i}")))
    # the same library built the way users build it for release (no debug assertions, no overflow checks): four more shards
    rc_opt, _, _ = sh(["cargo", "build", "--offline", "--profile", "opt", "--bin", L_BIN], cwd=HARNESS, timeout=3600)
    opt_bin = os.path.join(TARGET, "opt", L_BIN)
    if rc_opt == 0 and os.path.exists(opt_bin):
        for i in range(4):
            jobs.append(("random", seed * 1000 + 900 + i + 7919 * extra_seeds, per // 2, os.path.join(base, f"opt{i}"), opt_bin))
    with ThreadPoolExecutor(max_workers=16) as pool:
        results = list(pool.map(_run_shard, jobs))
    errors = [r for r in results if "error" in r]
    info = {"dirs": [r["dir"] for r in results if "error" not in r], "errors": errors,
            "wall": time.time() - t0, "computed_at": time.strftime("%Y-%m-%dT%H:%M:%S"), "cached": False,
            "exhaustive_mode": ex}
    json.dump(info, open(marker, "w"))
    # keep the cache small: drop other keys
    croot = os.path.join(WORK, "cache")
    for k in os.listdir(croot):
        if k != key:
            shutil.rmtree(os.path.join(croot, k), ignore_errors=True)
    return info
