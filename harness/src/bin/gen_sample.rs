use truc::generator::{config::GeneratorConfig, fragment::{clone::CloneImplGenerator, serde::SerdeImplGenerator, FragmentGenerator}, generate};
use truc::record::definition::builder::native::NativeRecordDefinitionBuilder;
use truc::record::type_resolver::HostTypeResolver;
fn main() {
    let mut b = NativeRecordDefinitionBuilder::new(HostTypeResolver);
    let a = b.add_datum::<u32, _>("a").unwrap();
    b.add_datum_allow_uninit::<u16, _>("b").unwrap();
    b.add_datum::<String, _>("s").unwrap();
    b.close_record_variant();
    b.remove_datum(a).unwrap();
    b.add_datum_allow_uninit::<u64, _>("c").unwrap();
    b.close_record_variant();
    let def = b.build();
    let full = std::env::args().nth(1).is_some();
    let cfg = if full { GeneratorConfig::default_with_custom_generators([Box::new(CloneImplGenerator) as Box<dyn FragmentGenerator>, Box::new(SerdeImplGenerator) as Box<dyn FragmentGenerator>]) } else { GeneratorConfig::default() };
    let text = generate(&def, &cfg);
    if std::env::args().nth(2).is_some() { println!("{}", text); return; }
    for l in verif_harness::irdump::dump(&text).unwrap() { println!("{}", l); }
}
