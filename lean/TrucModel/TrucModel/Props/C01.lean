import TrucModel.Proofs.Corollaries
import TrucModel.Props.Examples
/-
  C01 — No two data of a record variant ever share a byte.
  For every history of add / remove / close requests (any length, any removals, every close choosing
  its own strategy among the four shipped native ones, any sizes incl. 0 and odd sizes, any positive
  alignment — a superset of the powers of two 1..16), in every variant of the resulting state, the
  byte ranges of any two distinct data are disjoint.  (Stronger than asked: zero-size data too sit
  outside every other datum's interior.)
-/
namespace Truc

theorem C01_disjoint (reqs : List Req) (hv : ∀ r ∈ reqs, r.valid) :
    ∀ v ∈ (run reqs).variants, ∀ a ∈ v, ∀ b ∈ v, a ≠ b →
      off (run reqs).defs a + sz (run reqs).defs a ≤ off (run reqs).defs b ∨
      off (run reqs).defs b + sz (run reqs).defs b ≤ off (run reqs).defs a := by
  intro v hvm a ha b hb hne
  exact ((reachable_BInv reqs hv).vinv v hvm).disjoint ha hb hne

/-- the strategies never hit one of their panic sites on such a history (so the state above is the
    state the real builder reaches) -/
theorem C01_no_strategy_panic (reqs : List Req) (hv : ∀ r ∈ reqs, r.valid) (r : Req) (hr : r.valid) :
    stepPanics (run reqs) r = false :=
  ((reachable_BInv reqs hv).step hr).2

/-- the property in its literal byte form: in a definition built from any valid history, no byte of
    the record buffer belongs to two different data of one variant (zero-size data own no byte, so
    the statement is about data of non-zero size exactly as the property says) -/
theorem C01_no_shared_byte (reqs : List Req) (hv : ∀ r ∈ reqs, r.valid) (def_ : Definition)
    (hb : (run reqs).build = some def_) :
    ∀ v ∈ def_.variants, ∀ a ∈ v, ∀ b ∈ v, ∀ x : Nat,
      off def_.defs a ≤ x → x < off def_.defs a + sz def_.defs a →
      off def_.defs b ≤ x → x < off def_.defs b + sz def_.defs b → a = b := by
  intro v hvm a ha b hbm x h1 h2 h3 h4
  have hdef : def_ = ⟨(run reqs).defs, (run reqs).variants⟩ := by
    unfold BState.build at hb
    split at hb
    · exact (Option.some.inj hb).symm
    · simp at hb
  subst hdef
  by_cases hne : a = b
  · exact hne
  · have := C01_disjoint reqs hv v hvm a ha b hbm hne
    simp only at h1 h2 h3 h4
    omega

/-- non-vacuity: a mixed-strategy history meets the hypothesis and produces three non-trivial variants -/
example : (∀ r ∈ Ex.h1, r.valid) ∧
    (run Ex.h1).variants = [[0, 2, 1], [2, 1, 3, 4], [2, 1, 3, 4, 5]] ∧
    (run Ex.h1).defs.map (·.offset) = [0, 8, 4, 8, 20, 22] := by
  refine ⟨?_, by decide +kernel⟩
  intro r hr
  simp only [Ex.h1, List.mem_cons, List.mem_nil_iff, or_false] at hr
  rcases hr with rfl | rfl | rfl | rfl | rfl | rfl | rfl | rfl | rfl | rfl <;> simp [Req.valid, Ex.I, Strategy.isNative]

end Truc
