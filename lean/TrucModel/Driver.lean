import TrucModel.Model.Replay
import TrucModel.Model.VecConvert
import TrucModel.Model.Gen
import TrucModel.Model.Machine
import TrucModel.Model.Static
import TrucModel.Model.CloneSerde
import TrucModel.Model.TypeName
import TrucModel.Model.MachineWF
import TrucModel.Model.Resolver
import TrucModel.Model.GenCheck
/-
  Line-protocol driver (channel L): one request per line on stdin, one answer per line on stdout.
-/
open Truc

def joinNat (l : List Nat) : String := ",".intercalate (l.map toString)

def offStr (o : Nat) : String := if o = UNSET then "-" else toString o

def defsStr (defs : Defs) : String :=
  ";".intercalate (defs.map fun i => s!"{offStr i.offset},{i.size},{i.align}")

def parseStrategy : String → Option Strategy
  | "simple" => some .simple
  | "basic" => some .basic
  | "append" => some .append
  | "append_rev" => some .appendRev
  | "gappend" => some .gAppend
  | "gappend_rev" => some .gAppendRev
  | _ => none

def errStr : ErrKind → String
  | .dupName => "dup"
  | .alreadyRemoved => "already"
  | .notInPrev => "noprev"
  | .notInCurrent => "nocur"

def escape (s : String) : String := s.replace "\n" "\\n"

/-! ### channel V -/
namespace V
open Truc.Vec

abbrev UV := Nat × Nat   -- (ledger id, version)

/-- the scripted converter of channel V (same definition as in the Rust harness) -/
def scripted (script : Array String) (k : Nat) (_t : Nat) (prev : Option UV) : COut UV Nat Nat :=
  match script[k]?.getD "c" with
  | "c" => .converted (100000 + k, 0) prev
  | "t" => .converted (100000 + k, 0) (prev.map fun (i, v) => (i, v + 1))
  | "r" => .converted (100000 + k, 0) (prev.map fun _ => (200000 + k, 0))
  | "a" => .abandoned prev
  | "ta" => .abandoned (prev.map fun (i, v) => (i, v + 1))
  | "ra" => .abandoned (prev.map fun _ => (200000 + k, 0))
  | "e" => .err (300000 + k) prev
  | _ => .panic (400000 + k) prev

def uStr (u : UV) : String := s!"U{u.1}.{u.2}"
def slotStr : Slot Nat UV → String
  | .inp t => s!"T{t}"
  | .out u => uStr u
  | .dead => "dead"

def sortedJoin (l : List String) : String := ",".intercalate (l.toArray.qsort (· < ·)).toList

def callsStr (calls : List (Nat × Option UV)) : String :=
  "|".intercalate (calls.map fun (t, p) => s!"T{t}:" ++ (match p with | some u => uStr u | none => "-"))

/-- what the scripted converter itself drops at call k (it owns its input) -/
def convDrops (script : Array String) (calls : List (Nat × Option UV)) : String :=
  let rec go (k : Nat) : List (Nat × Option UV) → List String
    | [] => []
    | (t, p) :: rest =>
      let base := [s!"T{t}"]
      let extra := match script[k]?.getD "c", p with
        | "r", some u => [uStr u]
        | "ra", some u => [uStr u]
        | "p3", _ => [uStr (100000 + k, 0)]
        | _, _ => []
      (s!"{k}:" ++ sortedJoin (base ++ extra)) :: go (k + 1) rest
  ";".intercalate (go 0 calls)

def run (toks : List String) : String :=
  match toks with
  | sT :: aT :: sU :: aU :: n :: script =>
    match sT.toNat?, aT.toNat?, sU.toNat?, aU.toNat?, n.toNat? with
    | some sT, some aT, some sU, some aU, some n =>
      let sc := script.toArray
      let out : VOut Nat UV Nat Nat := tryConvert (sT, aT) (sU, aU) (scripted sc) (List.range n)
      match out with
      | .done outs leaked calls =>
        s!"done outs={",".intercalate (outs.map slotStr)} leaked={sortedJoin (leaked.map slotStr)} calls={callsStr calls} convdrops={convDrops sc calls} alloc=same"
      | .failed why dropped leaked freed calls =>
        let w := match why with | .inl e => s!"e{e}" | .inr p => s!"p{p}"
        s!"failed why={w} fndrops={sortedJoin (dropped.map slotStr)} leaked={sortedJoin (leaked.map slotStr)} calls={callsStr calls} convdrops={convDrops sc calls} alloc={if freed then "freed" else "leaked"}"
      | .refused dropped calls =>
        s!"refused fndrops={sortedJoin (dropped.map slotStr)} calls={callsStr calls}"
      | .ub _ => "ub"
    | _, _, _, _, _ => "bad-op"
  | _ => "bad-op"
end V

/-! ### channel X -/
namespace X
open Truc.Gen Truc.Mach

def droppable (ty : String) : Bool := ["H", "O3", "Z", "Z8", "A16", "H40"].contains ty
def isZst (ty : String) : Bool := ty == "Z" || ty == "Z8"

structure XS where
  specs : List Spec := []
  cap : Nat := 0
  align : Nat := 1
  regs : List (Nat × Nat × Buf) := []      -- register, variant, buffer

def valStr (v : Val) : String := if isZst v.ty then v.ty else if v.id = 0 then "?" else toString v.id
def dropStr (v : Val) : String := if isZst v.ty then v.ty else s!"{v.ty}{v.id}"
def sortedJoin (l : List String) : String := ",".intercalate (l.toArray.qsort (· < ·)).toList
def accStr (a : List Access) : String := sortedJoin (a.map fun (k, o, t) => s!"{k}:{o}:{t}")
def outLine (res : String) (drops : List Val) (acc : List Access) : String :=
  s!"{res} | d={sortedJoin (drops.map dropStr)} | a={accStr acc}"

def parseVals (s : String) : List Nat := if s == "-" then [] else (s.splitOn ",").filterMap String.toNat?

def getReg (xs : XS) (r : Nat) : Option (Nat × Buf) := (xs.regs.find? (fun p => p.1 == r)).map (·.2)
def setReg (xs : XS) (r v : Nat) (b : Buf) : XS := { xs with regs := (r, v, b) :: xs.regs.filter (fun p => p.1 != r) }
def delReg (xs : XS) (r : Nat) : XS := { xs with regs := xs.regs.filter (fun p => p.1 != r) }

def cloneVal (v : Val) : Val := if droppable v.ty && !isZst v.ty then { v with id := v.id + 1000000 } else v

def errStr : MErr → String
  | .oob => "oob" | .storeOverOwned => "store-over-owned" | .readMoved => "read-moved"
  | .noBuffer => "no-buffer" | .missingField => "missing-field" | .doubleFree => "double-free"

/-- run the full constructor of `sp` on the given field values -/
def construct (xs : XS) (sp : Spec) (uninit : Bool) (vals : List Val) : Except MErr St :=
  let ds := if uninit then sp.data.filter (fun d => !d.uninit) else sp.data
  let st : St := { args := [("from", (ds.map (·.name)).zip vals)] }
  call droppable xs.cap (if uninit then ctorNewUninit sp else ctorNew sp) st

def run (xs : XS) (toks : List String) : XS × String :=
  let fail (e : MErr) := (xs, s!"machine-error {errStr e}")
  match toks with
  | ["sizes"] =>
    let sz := (xs.cap + xs.align - 1) / xs.align * xs.align
    (xs, outLine s!"sizes {",".intercalate ((xs.specs.map fun _ => s!"{sz}/{xs.align}") ++ [s!"{sz}/{xs.align}"])}" [] [])
  | ["place", _, _] => (xs, outLine "ok" [] [])
  | ["rename", a, b] =>
    match a.toNat?, b.toNat? with
    | some a, some b => match getReg xs a with
      | some (v, buf) => (setReg (delReg xs a) b v buf, outLine "ok" [] [])
      | none => (xs, "bad-op")
    | _, _ => (xs, "bad-op")
  | ["clonefrombomb", dst, src, fi] =>
    -- clone-assignment in which the clone of (mandatory) field `fi` of the source panics: the fields before it are assigned
    -- (their previous values destroyed), field `fi` and the later ones keep what they held, nothing else is destroyed
    match dst.toNat?, src.toNat?, fi.toNat? with
    | some dreg, some sreg, some fi =>
      match getReg xs dreg, getReg xs sreg with
      | some (dv, db), some (_, sb) =>
        match xs.specs[dv]? with
        | none => (xs, "bad-op")
        | some sp =>
          -- what is dropped and where it stops come from the model proved in C16_clone_from_panic_safe
          let valOf (b : Buf) (d : D) : Val := match b.find d with | some e => e.val | none => ⟨0, d.ty⟩
          let fs := sp.data.map fun d => (d, valOf sb d, valOf db d)
          let bombV := (sp.data[fi]?).map (valOf sb)
          let (_, mdrops, mk) := Frag.cloneFromBomb droppable cloneVal (fun v => some v == bombV) fs
          let fi := mk.getD fi
          let (nb, _, acc) := (sp.data.take fi).foldl (fun (acc : Buf × List Val × List Access) d =>
            let (cur, dr, ac) := acc
            let sv := match sb.find d with | some e => e.val | none => ⟨0, d.ty⟩
            let nv := if d.uninit then sv else cloneVal sv
            let (cur', old) := cur.assign droppable d nv
            (cur', dr ++ old, ac ++ [("get", d.offset, d.ty), ("get_mut", d.offset, d.ty)])) (db, [], [])
          -- the harness reads the bombed field's id first; the failing statement itself takes both accessors before the clone panics
          let bomb := (sp.data.drop fi).take 1
          let acc := acc ++ (bomb.map fun d => (("get", d.offset, d.ty) : Access)) ++
            (bomb.foldl (fun ac d => ac ++ [("get", d.offset, d.ty), ("get_mut", d.offset, d.ty)]) [])
          (setReg xs dreg dv nb, outLine (if mk.isSome then "panic" else "no-panic") mdrops acc)
      | _, _ => (xs, "bad-op")
    | _, _, _ => (xs, "bad-op")
  | [kind, v, r, vals] =>
    if kind == "new" || kind == "newu" then
      match v.toNat?, r.toNat? with
      | some v, some r =>
        match xs.specs[v]? with
        | none => (xs, "bad-op")
        | some sp =>
          let uninit := kind == "newu"
          let ds := if uninit then sp.data.filter (fun d => !d.uninit) else sp.data
          let vs := (ds.zip (parseVals vals)).map fun (d, n) => (⟨n, d.ty⟩ : Val)
          match construct xs sp uninit vs with
          | .error e => fail e
          | .ok st => match st.result with
            | .record b => (setReg xs r v b, outLine "ok" st.drops st.acc)
            | _ => (xs, "machine-error no-result")
      | _, _ => (xs, "bad-op")
    else if kind == "set" then
      match v.toNat?, r.toNat?, vals.toNat? with
      | some reg, some fi, some nv =>
        match getReg xs reg with
        | none => (xs, "bad-op")
        | some (vv, b) =>
          match (xs.specs[vv]?).bind (fun sp => sp.data[fi]?) with
          | none => (xs, "bad-op")
          | some d =>
            match call droppable xs.cap ⟨"", [.getMut d]⟩ { self_ := some b } with
            | .error e => fail e
            | .ok st =>
              let (b', old) := b.assign droppable d ⟨nv, d.ty⟩
              (setReg xs reg vv b', outLine "ok" (st.drops ++ old) st.acc)
      | _, _, _ => (xs, "bad-op")
    else if kind == "serde" then
      -- [serde, fmt, reg, newreg]
      match r.toNat?, vals.toNat? with
      | some reg, some nr =>
        match getReg xs reg with
        | none => (xs, "bad-op")
        | some (vv, b) =>
          match xs.specs[vv]? with
          | none => (xs, "bad-op")
          | some sp =>
            let gets1 := sp.data.map fun d => (("get", d.offset, d.ty) : Access)
            -- bincode serialises twice (size computation, then output)
            let gets := if v == "bincode" then gets1 ++ gets1 else gets1
            let vs := sp.data.map fun d => match b.find d with | some e => e.val | none => ⟨0, d.ty⟩
            match construct xs sp false vs with
            | .error e => fail e
            | .ok st => match st.result with
              | .record nb => (setReg xs nr vv nb, outLine "ok" st.drops (gets ++ st.acc))
              | _ => (xs, "machine-error no-result")
      | _, _ => (xs, "bad-op")
    else (xs, "bad-op")
  | ["get", r, fi] =>
    match r.toNat?, fi.toNat? with
    | some reg, some fi =>
      match getReg xs reg with
      | none => (xs, "bad-op")
      | some (vv, b) =>
        match (xs.specs[vv]?).bind (fun sp => sp.data[fi]?) with
        | none => (xs, "bad-op")
        | some d =>
          match call droppable xs.cap ⟨"", [.get d]⟩ { self_ := some b } with
          | .error e => fail e
          | .ok st => match st.result with
            | .ref v => (xs, outLine s!"val {valStr v}" st.drops st.acc)
            | _ => (xs, "machine-error no-result")
    | _, _ => (xs, "bad-op")
  | ["unpack", r] =>
    match r.toNat? with
    | some reg =>
      match getReg xs reg with
      | none => (xs, "bad-op")
      | some (vv, b) =>
        match xs.specs[vv]? with
        | none => (xs, "bad-op")
        | some sp =>
          match call droppable xs.cap (unpackFn sp) { self_ := some b, selfGlue := some sp.data } with
          | .error e => fail e
          | .ok st => match st.result with
            | .struct fs _ => (delReg xs reg, outLine s!"vals {",".intercalate (fs.map fun p => valStr p.2)}" st.drops st.acc)
            | _ => (xs, "machine-error no-result")
    | none => (xs, "bad-op")
  | ["drop", r] =>
    match r.toNat? with
    | some reg =>
      match getReg xs reg with
      | none => (xs, "bad-op")
      | some (vv, b) =>
        match xs.specs[vv]? with
        | none => (xs, "bad-op")
        | some sp =>
          match call droppable xs.cap (dropFn sp) { self_ := some b } with
          | .error e => fail e
          | .ok st => (delReg xs reg, outLine "ok" st.drops st.acc)
    | none => (xs, "bad-op")
  | ["conv", form, r, nr, vals] =>
    match r.toNat?, nr.toNat? with
    | some reg, some nreg =>
      match getReg xs reg with
      | none => (xs, "bad-op")
      | some (vv, b) =>
        match xs.specs[vv]?, xs.specs[vv + 1]? with
        | some sp0, some sp =>
          let uninit := form == "us" || form == "uo"
          let andOut := form == "fo" || form == "uo"
          let ds := if uninit then sp.plus.filter (fun d => !d.uninit) else sp.plus
          let vs := (ds.zip (parseVals vals)).map fun (d, n) => (d.name, (⟨n, d.ty⟩ : Val))
          match call droppable xs.cap (convFn sp uninit andOut) { from_ := some b, fromGlue := some sp0.data, args := [("plus", vs)] } with
          | .error e => fail e
          | .ok st => match st.result with
            | .record nb => (setReg (delReg xs reg) nreg (vv + 1) nb, outLine "ok" st.drops st.acc)
            | .struct fs (some nb) =>
              (setReg (delReg xs reg) nreg (vv + 1) nb, outLine s!"out {",".intercalate (fs.map fun p => valStr p.2)}" st.drops st.acc)
            | _ => (xs, "machine-error no-result")
        | _, _ => (xs, "bad-op")
    | _, _ => (xs, "bad-op")
  | ["clone", r, nr] =>
    match r.toNat?, nr.toNat? with
    | some reg, some nreg =>
      match getReg xs reg with
      | none => (xs, "bad-op")
      | some (vv, b) =>
        match xs.specs[vv]? with
        | none => (xs, "bad-op")
        | some sp =>
          let gets := sp.data.map fun d => (("get", d.offset, d.ty) : Access)
          let vs := sp.data.map fun d => match b.find d with
            | some e => if d.uninit then e.val else cloneVal e.val
            | none => ⟨0, d.ty⟩
          match construct xs sp false vs with
          | .error e => fail e
          | .ok st => match st.result with
            | .record nb => (setReg xs nreg vv nb, outLine "ok" st.drops (gets ++ st.acc))
            | _ => (xs, "machine-error no-result")
    | _, _ => (xs, "bad-op")
  | ["clonebomb", r, fi] =>
    match r.toNat?, fi.toNat? with
    | some reg, some fi =>
      match getReg xs reg with
      | none => (xs, "bad-op")
      | some (vv, b) =>
        match xs.specs[vv]? with
        | none => (xs, "bad-op")
        | some sp =>
          let fs := sp.data.map fun d => (d, match b.find d with | some e => e.val | none => (⟨0, d.ty⟩ : Val))
          let bombV := (fs[fi]?).map (·.2)
          match Frag.cloneFields droppable cloneVal (fun v => some v == bombV) fs [] with
          | .ok _ => (xs, "bad-op")
          | .panicked k dropped =>
            -- the driver reads the bombed field's id first (one more `get` of field k)
            let gets := ((sp.data.take (k + 1)) ++ (sp.data.drop k).take 1).map fun d => (("get", d.offset, d.ty) : Access)
            (xs, outLine "panic" dropped gets)
    | _, _ => (xs, "bad-op")
  | ["debad", fmt, r, kind, k] =>
    match r.toNat?, k.toNat? with
    | some reg, some k =>
      match getReg xs reg with
      | none => (xs, "bad-op")
      | some (vv, b) =>
        match xs.specs[vv]? with
        | none => (xs, "bad-op")
        | some sp =>
          let vals := sp.data.map fun d => match b.find d with | some e => e.val | none => (⟨0, d.ty⟩ : Val)
          let n := vals.length
          let hinted := fmt == "bincode"
          let elems : List (Option Val) :=
            if kind == "trunc" then
              (if hinted then (vals.take k).map some ++ List.replicate (n - k) none else (vals.take k).map some)
            else if kind == "corrupt" then (vals.take k).map some ++ [none] ++ (vals.drop (k + 1)).map some
            else vals.map some ++ [some ⟨0, "P8"⟩]
          let gets1 := sp.data.map fun d => (("get", d.offset, d.ty) : Access)
          let gets := if hinted then gets1 ++ gets1 else gets1
          match Frag.deserialize droppable sp.data ⟨hinted, elems⟩ with
          | .ok _ => (xs, outLine "ok?" [] gets)
          | .err e dropped =>
            let cls := match e with | .missingField _ => "missing" | .badElement _ => "bad" | .trailing => "trailing" | .invalidLength => "invalid-length"
            -- a trailing-element rejection happens after the record was built and dropped again
            let extra : List Access := match e with
              | .trailing => (sp.data.map fun d => (("write", d.offset, d.ty) : Access)) ++ (sp.data.map fun d => (("read", d.offset, d.ty) : Access))
              | _ => []
            (xs, outLine s!"err {cls}" dropped (gets ++ extra))
    | _, _ => (xs, "bad-op")
  | ["clonefrom", dst, src] =>
    match dst.toNat?, src.toNat? with
    | some dreg, some sreg =>
      match getReg xs dreg, getReg xs sreg with
      | some (dv, db), some (_, sb) =>
        match xs.specs[dv]? with
        | none => (xs, "bad-op")
        | some sp =>
          let (nb, drops, acc) := sp.data.foldl (fun (acc : Buf × List Val × List Access) d =>
            let (cur, dr, ac) := acc
            let sv := match sb.find d with | some e => e.val | none => ⟨0, d.ty⟩
            let nv := if d.uninit then sv else cloneVal sv
            let (cur', old) := cur.assign droppable d nv
            (cur', dr ++ old, ac ++ [("get", d.offset, d.ty), ("get_mut", d.offset, d.ty)])) (db, [], [])
          (setReg xs dreg dv nb, outLine "ok" drops acc)
      | _, _ => (xs, "bad-op")
    | _, _ => (xs, "bad-op")
  | _ => (xs, "bad-op")

end X

/-! ### compile probes: the lab's real types -/
namespace P
open Truc.Static

def labTable : List (String × Nat × Nat × Bool × Bool × Bool) :=   -- name, size, align, Copy, Send, Sync
  [("P1", 1, 1, true, true, true), ("P2", 2, 2, true, true, true), ("P4", 4, 4, true, true, true), ("P8", 8, 8, true, true, true),
   ("P16", 16, 16, true, true, true), ("P3", 3, 1, true, true, true), ("P12", 12, 4, true, true, true), ("P24", 24, 8, true, true, true),
   ("H", 8, 8, false, true, true), ("O3", 3, 1, false, true, true), ("A16", 16, 16, false, true, true), ("Z", 0, 1, false, true, true),
   ("Z8", 0, 8, false, true, true), ("NS", 8, 8, false, false, false), ("NY", 8, 8, false, true, false)]

def look (t : String) := labTable.find? (fun p => p.1 == t)

def labEnv : TyEnv :=
  { size := fun t => match look t with | some p => p.2.1 | none => 0,
    align := fun t => match look t with | some p => p.2.2.1 | none => 0,
    copy := fun t => match look t with | some p => p.2.2.2.1 | none => false,
    send := fun t => match look t with | some p => p.2.2.2.2.1 | none => false,
    sync := fun t => match look t with | some p => p.2.2.2.2.2 | none => false }
end P

structure DState where
  tables : List (Nat × Res.Table) := []    -- the synthetic resolver tables announced by `tbl` lines (kept across `reset`)
  table : Nat := 0                          -- the one this history's builder was created with
  b : BState := {}
  built : Option Definition := none
  dead : Bool := false     -- a panic happened: the Rust side stops the history too
  xs : X.XS := {}

def infoStr (i : Info) : String :=
  s!"{i.name} {i.ty} {i.size} {i.align} {offStr i.offset} {if i.uninit then 1 else 0}"

def dstep (s : DState) (line : String) : DState × String :=
  if line.startsWith "tn " || line.trimAscii.toString == "tn" then
    let arg := (line.drop 3).toString
    let arg := if arg.endsWith "\n" then (arg.dropEnd 1).toString else arg
    (s, match TN.normalize arg with | some n => "some " ++ n | none => "none")
  else
  match line.trimAscii.toString.splitOn " " with
  | "reset" :: rest => ({ tables := s.tables, table := ((rest[1]?).bind String.toNat?).getD 0 }, "--")
  | ["tbl", k, name, size, align, un] =>
    match k.toNat?, size.toNat?, align.toNat? with
    | some k, some sz, some al =>
      let nm := name.replace "_" " "
      let old := (s.tables.lookup k).getD []
      match Res.register old nm ⟨nm, sz, al, un == "1"⟩ with
      | some t => ({ s with tables := (k, t) :: s.tables.filter (fun p => p.1 != k) }, "--")
      | none => (s, "--")
    | _, _, _ => (s, "bad-op")
  | "vec" :: toks => (s, V.run toks)
  | ["xmod", extra] =>
    match s.built, extra.toNat? with
    | some d, some ex =>
      match d.maxSize with
      | some ms => ({ s with xs := { specs := Gen.specs d, cap := ms + ex, align := d.maxTypeAlign, regs := [] } },
          s!"ok wf={Mach.moduleWFB X.droppable (ms + ex) (Gen.specs d)} chk={(Gen.specs d).all Gen.variantChecks}")
      | none => (s, "panic")
    | _, _ => (s, "bad-op")
  | "x" :: toks =>
    let (xs, out) := X.run s.xs toks
    ({ s with xs := xs }, out)
  | cmd =>
    if s.dead then (s, "dead") else
    match cmd with
    | "add" :: name :: ty :: size :: align :: un :: rest =>
      match size.toNat?, align.toNat? with
      | some sz, some al =>
        let tyn := ty.replace "_" " "
        let tbl := (s.tables.lookup s.table).getD []
        -- the entry point named by the request decides where the numbers come from: the explicit ones of the request
        -- (full override, generic builder, copy) or the resolver's table (typed / dynamic / partial overrides)
        let info : Option Info := match rest.head? with
          | some "typed" => Res.entryInfo tbl name (.typed tyn)
          | some "uninit" => Res.entryInfo tbl name (.typedUninit tyn)
          | some "dynamic" => Res.entryInfo tbl name (.dynamic tyn)
          | some "ovr-n" => Res.entryInfo tbl name (.override tyn {})
          | some "ovr-s" => Res.entryInfo tbl name (.override tyn { size := some sz, uninit := some (un == "1") })
          | some "ovr-a" => Res.entryInfo tbl name (.override tyn { align := some al, uninit := some (un == "1") })
          | some "copy" => Res.entryInfo tbl name (.copy ⟨name, tyn, sz, al, 1234, un == "1"⟩)
          | _ => some ⟨name, tyn, sz, al, UNSET, un == "1"⟩
        match info with
        | none => (s, "refused")
        | some i =>
          let (b, r) := s.b.addDatum i
          ({ s with b := b }, match r with | .ok id => s!"ok {id}" | .error e => s!"err {errStr e}")
      | _, _ => (s, "bad-op")
    | ["unreg", k] =>
      -- a type the resolver's table does not contain: every entry point that consults the resolver refuses it
      let tbl := (s.tables.lookup s.table).getD []
      let e : Res.EntryPoint := match k.toNat?.getD 0 % 4 with
        | 0 => .typed "Vec < u32 >"
        | 1 => .typedUninit "[u32 ; 11]"
        | 2 => .dynamic "Option<Option<u8>>"
        | _ => .override "(u8 , u64)" { align := some 2 }
      (s, match Res.entryInfo tbl "zz" e with | none => "refused" | some _ => "accepted")
    | ["rm", id] =>
      match id.toNat? with
      | some id =>
        let (b, r) := s.b.removeDatum id
        ({ s with b := b }, match r with | .ok _ => "ok" | .error e => s!"err {errStr e}")
      | none => (s, "bad-op")
    | ["close", st] =>
      match parseStrategy st with
      | some st =>
        match s.b.close st with
        | some (b, vid) =>
          ({ s with b := b }, s!"v {vid} [{joinNat (b.variants.getLast?.getD [])}] {defsStr b.defs}")
        | none => ({ s with dead := true }, "panic")
      | none => (s, "bad-op")
    | ["cur"] => (s, s!"ids {joinNat s.b.currentData}")
    | ["byname", n] => (s, match s.b.currentByName n with | some id => s!"some {id}" | none => "none")
    | ["vbyname", v, n] =>
      match v.toNat? with
      | some v => (s, match s.b.variantByName v n with | some id => s!"some {id}" | none => "none")
      | none => (s, "bad-op")
    | ["get", id] =>
      match id.toNat? with
      | some id => (s, match s.b.defs[id]? with | some i => s!"some {infoStr i}" | none => "none")
      | none => (s, "bad-op")
    | ["variant", v] =>
      match v.toNat? with
      | some v => (s, match s.b.variants[v]? with | some l => s!"some [{joinNat l}]" | none => "none")
      | none => (s, "bad-op")
    | ["build"] =>
      match s.b.build with
      | some d => ({ s with built := some d }, "ok")
      | none => ({ s with dead := true }, "panic")
    | ["maxsize"] =>
      match s.built with
      | some d => (match d.maxSize with | some n => (s, toString n) | none => (s, "panic"))
      | none => (s, "bad-op")
    | ["align"] =>
      match s.built with
      | some d => (s, toString d.maxTypeAlign)
      | none => (s, "bad-op")
    | ["display"] =>
      match s.built with
      | some d => (match d.display with | some t => (s, "text " ++ escape t) | none => (s, "panic"))
      | none => (s, "bad-op")
    | ["gen", flags] =>
      match s.built with
      | some d =>
        let cfg : Gen.Cfg := { clone := flags.contains 'c', serde := flags.contains 's' }
        (s, match Gen.module d cfg with
          | some items => "ir " ++ "\t".intercalate (Gen.render items)
          | none => "panic")
      | none => (s, "bad-op")
    | ["static"] =>
      match s.built with
      | some d => (s, if Static.acceptsB P.labEnv d then "accept" else "reject")
      | none => (s, "bad-op")
    | ["autotraits"] =>
      match s.built with
      | some d =>
        let ss := Gen.specs d
        (s, "send=" ++ ",".intercalate (ss.map fun sp => toString (Static.recordSend P.labEnv sp)) ++
            " sync=" ++ ",".intercalate (ss.map fun sp => toString (Static.recordSync P.labEnv sp)))
      | none => (s, "bad-op")
    | ["replay", st] =>
      match s.built, parseStrategy st with
      | some d, some st =>
        (s, match replay d st with
          | .panic => "panic"
          | .err e => s!"err {errStr e}"
          | .ok r =>
            let m := ",".intercalate (r.vMap.map fun (a, b) => s!"{a}>{b}")
            let vs := ";".intercalate (r.tgt.variants.map fun l => "[" ++ joinNat l ++ "]")
            let ds := ";".intercalate (r.tgt.defs.map infoStr)
            s!"map {m} | {vs} | {ds}")
      | _, _ => (s, "bad-op")
    | _ => (s, "bad-op")

partial def loop (h : IO.FS.Stream) (out : IO.FS.Stream) (s : DState) : IO Unit := do
  let line ← h.getLine
  if line.isEmpty then return ()
  let (s', o) := dstep s line
  out.putStrLn o
  loop h out s'

def main : IO Unit := do
  let stdin ← IO.getStdin
  let stdout ← IO.getStdout
  loop stdin stdout {}
