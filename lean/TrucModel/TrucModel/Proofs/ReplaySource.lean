import TrucModel.Proofs.ReplayProps
/-
  Every definition the builder produces from valid requests satisfies `SrcChain`, the premise of the
  replay theorem: ids are never reused, a close without changes creates no variant.
-/
namespace Truc

/-- the id part of `SrcChain` -/
def IdChain : List Nat → Option (List Nat) → List (List Nat) → Prop
  | _, _, [] => True
  | seen, prev, v :: vs =>
      (∀ d ∈ v, d ∉ prev.getD [] → d ∉ seen) ∧ (∀ old, prev = some old → ¬ (∀ d, d ∈ old ↔ d ∈ v)) ∧
      IdChain (seen ++ v) (some v) vs

theorem SrcChain.of_idChain (src : Defs) : ∀ (vs : List (List Nat)) (seen : List Nat) (prev : Option (List Nat)),
    (∀ v ∈ vs, VOk src v) → IdChain seen prev vs → SrcChain src seen prev vs := by
  intro vs
  induction vs with
  | nil => intro _ _ _ _; trivial
  | cons v vs ih =>
    intro seen prev hv hc
    exact ⟨hv v List.mem_cons_self, hc.1, hc.2.1, ih _ _ (fun w hw => hv w (List.mem_cons_of_mem _ hw)) hc.2.2⟩

theorem IdChain.snoc (w : List Nat) : ∀ (vs : List (List Nat)) (seen : List Nat) (prev : Option (List Nat)),
    IdChain seen prev vs →
    (∀ d ∈ w, d ∉ ((vs.getLast?).or prev).getD [] → d ∉ seen ++ vs.flatten) →
    (∀ old, (vs.getLast?).or prev = some old → ¬ (∀ d, d ∈ old ↔ d ∈ w)) →
    IdChain seen prev (vs ++ [w]) := by
  intro vs
  induction vs with
  | nil =>
    intro seen prev _ h1 h2
    simp only [List.getLast?_nil, Option.none_or, List.flatten_nil, List.append_nil] at h1 h2
    exact ⟨h1, h2, trivial⟩
  | cons u us ih =>
    intro seen prev hc h1 h2
    have hor : ((u :: us).getLast?).or prev = (us.getLast?).or (some u) := by
      rw [List.getLast?_cons]
      cases us.getLast? <;> rfl
    rw [hor] at h1 h2
    refine ⟨hc.1, hc.2.1, ih (seen ++ u) (some u) hc.2.2 ?_ h2⟩
    intro d hd hn
    have := h1 d hd hn
    simpa [List.append_assoc] using this

structure CInv (s : BState) : Prop where
  chain : IdChain [] none s.variants
  rmIn  : ∀ x ∈ s.toRemove, x ∈ (s.variants.getLast?).getD []

theorem CInv.init : CInv BState.init := ⟨trivial, by simp [BState.init]⟩

theorem CInv.step {s : BState} (hb : BInv s) (h : CInv s) {r : Req} (hr : r.valid) : CInv (Truc.step s r) := by
  cases r with
  | add i =>
    simp only [Truc.step]
    unfold BState.addDatum
    split
    · exact h
    · exact ⟨h.chain, h.rmIn⟩
  | remove id =>
    simp only [Truc.step]
    unfold BState.removeDatum
    cases hl : s.variants.getLast? with
    | none =>
      simp only
      split
      · exact ⟨h.chain, h.rmIn⟩
      · exact h
    | some v =>
      simp only
      split
      · split
        · exact h
        · refine ⟨h.chain, ?_⟩
          intro x hx
          simp only [List.mem_append, List.mem_singleton] at hx
          rcases hx with hx | rfl
          · exact h.rmIn x hx
          · simp only [hl, Option.getD_some]
            rename_i hc _
            simpa using hc
      · split
        · exact ⟨h.chain, h.rmIn⟩
        · exact h
  | close st =>
    have hn : st.isNative = true := hr
    simp only [Truc.step]
    by_cases hp : s.hasPendingChanges = true
    · obtain ⟨defs', l', hc, hok⟩ := hb.close_spec hn hp
      rw [hc]
      simp only
      have hmem : ∀ d, d ∈ l' ↔ (d ∈ (s.variants.getLast?).getD [] ∧ d ∉ s.toRemove) ∨ d ∈ s.toAdd := by
        intro d
        rw [hok.perm.mem_iff, List.mem_append, mem_removeData]
      have haddFresh : ∀ a ∈ s.toAdd, a ∉ s.variants.flatten := by
        intro a ha hf
        rw [List.mem_flatten] at hf
        obtain ⟨v, hv, hav⟩ := hf
        exact hb.addFresh a ha v hv hav
      refine ⟨?_, by simp⟩
      apply IdChain.snoc l' s.variants [] none h.chain
      · intro d hd hn'
        simp only [Option.or_none] at hn'
        simp only [List.nil_append]
        rcases (hmem d).1 hd with ⟨h1, _⟩ | h2
        · exact absurd h1 hn'
        · exact haddFresh d h2
      · intro old hold
        simp only [Option.or_none] at hold
        have holdm : old ∈ s.variants := List.mem_of_getLast? hold
        intro hiff
        have hne : s.variants.isEmpty = false := by
          cases hv : s.variants with
          | nil => rw [hv] at hold; simp at hold
          | cons a as => rfl
        unfold BState.hasPendingChanges at hp
        rw [hne] at hp
        simp only [Bool.false_or, Bool.or_eq_true, Bool.not_eq_true', List.isEmpty_eq_false_iff] at hp
        rcases hp with hp | hp
        · obtain ⟨x, hx⟩ := List.exists_mem_of_ne_nil _ hp
          have hxo := h.rmIn x hx
          rw [hold] at hxo
          simp only [Option.getD_some] at hxo
          have := (hiff x).1 hxo
          rcases (hmem x).1 this with ⟨_, h2⟩ | h2
          · exact h2 hx
          · exact hb.addFresh x h2 old holdm hxo
        · obtain ⟨a, ha⟩ := List.exists_mem_of_ne_nil _ hp
          have : a ∈ l' := (hmem a).2 (Or.inr ha)
          exact hb.addFresh a ha old holdm ((hiff a).2 this)
    · unfold BState.close
      simp only [hp, Bool.not_false, if_true]
      exact h

theorem reachable_CInv (reqs : List Req) (hv : ∀ r ∈ reqs, r.valid) : CInv (run reqs) := by
  suffices h : ∀ (reqs : List Req) (s : BState), BInv s → CInv s → (∀ r ∈ reqs, r.valid) →
      CInv (reqs.foldl Truc.step s) from h reqs _ BInv.init CInv.init hv
  intro reqs
  induction reqs with
  | nil => intro s _ h _; exact h
  | cons r rest ih =>
    intro s hb h hv
    have hr := hv r List.mem_cons_self
    exact ih _ (hb.step hr).1 (h.step hb hr) (fun r' hr' => hv r' (List.mem_cons_of_mem _ hr'))

/-- the premise of the replay theorem holds for every definition built from valid requests -/
theorem builder_srcChain (reqs : List Req) (hv : ∀ r ∈ reqs, r.valid) (d : Definition) (hb : (run reqs).build = some d) :
    SrcChain d.defs [] none d.variants := by
  obtain ⟨hB, hN⟩ := reachable_inv2 reqs hv
  have hC := reachable_CInv reqs hv
  unfold BState.build at hb
  split at hb
  · simp only [Option.some.injEq] at hb
    subst hb
    apply SrcChain.of_idChain _ _ _ _ _ hC.chain
    intro v hvm
    have hl := hB.vinv v hvm
    refine ⟨hl.nodup, hl.inRange, hN.variants v hvm, fun d hd => hB.alignPos d (hl.inRange d hd)⟩
  · simp at hb

end Truc
