import TrucModel.Proofs.VecConvert
/- Facts about the left-to-right specification `spec`. -/
namespace Truc.Vec

variable {T U E P : Type}

def neverFails (conv : Nat → T → Option U → COut U E P) : Prop :=
  ∀ k t p, (∃ u p', conv k t p = .converted u p') ∨ (∃ p', conv k t p = .abandoned p')

theorem spec_ok_of_neverFails (conv : Nat → T → Option U → COut U E P) (h : neverFails conv) :
    ∀ (input : List T) (outs : List U) (calls : List (T × Option U)),
      ∃ outs' calls', spec conv input outs calls = .ok outs' calls' := by
  intro input
  induction input with
  | nil => intro outs calls; exact ⟨outs, calls, rfl⟩
  | cons t rest ih =>
    intro outs calls
    unfold spec
    simp only
    rcases h calls.length t outs.getLast? with ⟨u, p', hc⟩ | ⟨p', hc⟩
    · rw [hc]; exact ih _ _
    · rw [hc]; exact ih _ _

/-- the call log: every input exactly once, in order -/
theorem spec_ok_calls (conv : Nat → T → Option U → COut U E P) :
    ∀ (input : List T) (outs : List U) (calls : List (T × Option U)) (outs' : List U) (calls' : List (T × Option U)),
      spec conv input outs calls = .ok outs' calls' → calls'.map (·.1) = calls.map (·.1) ++ input := by
  intro input
  induction input with
  | nil =>
    intro outs calls outs' calls' h
    simp only [spec, SpecOut.ok.injEq] at h
    simp [h.2]
  | cons t rest ih =>
    intro outs calls outs' calls' h
    unfold spec at h
    simp only at h
    split at h
    · have := ih _ _ _ _ h; simp [this]
    · have := ih _ _ _ _ h; simp [this]
    · simp at h
    · simp at h

/-- each call receives the most recently produced output, as left by the previous calls -/
def callsConsistent (conv : Nat → T → Option U → COut U E P) : List T → List U → Nat → List (T × Option U)
  | [], _, _ => []
  | t :: rest, outs, k =>
    (t, outs.getLast?) ::
      match conv k t outs.getLast? with
      | .converted u p' => callsConsistent conv rest (setLast outs p' ++ [u]) (k + 1)
      | .abandoned p' => callsConsistent conv rest (setLast outs p') (k + 1)
      | _ => []

theorem spec_failed (conv : Nat → T → Option U → COut U E P) :
    ∀ (input : List T) (outs : List U) (calls : List (T × Option U)) (why : Sum E P) (outs' : List U) (rest' : List T)
      (calls' : List (T × Option U)),
      spec conv input outs calls = .failed why outs' rest' calls' →
      ∃ (pre : List T) (t : T) (prev p' : Option U),
        input = pre ++ t :: rest' ∧
        calls'.map (·.1) = calls.map (·.1) ++ pre ++ [t] ∧
        calls'.getLast? = some (t, prev) ∧
        ((∃ e, why = .inl e ∧ conv (calls'.length - 1) t prev = .err e p') ∨
         (∃ p, why = .inr p ∧ conv (calls'.length - 1) t prev = .panic p p')) := by
  intro input
  induction input with
  | nil => intro outs calls why outs' rest' calls' h; simp [spec] at h
  | cons t rest ih =>
    intro outs calls why outs' rest' calls' h
    unfold spec at h
    simp only at h
    split at h
    · obtain ⟨pre, t', prev, p', h1, h2, h3, h4⟩ := ih _ _ _ _ _ _ h
      exact ⟨t :: pre, t', prev, p', by simp [h1], by simp [h2], h3, h4⟩
    · obtain ⟨pre, t', prev, p', h1, h2, h3, h4⟩ := ih _ _ _ _ _ _ h
      exact ⟨t :: pre, t', prev, p', by simp [h1], by simp [h2], h3, h4⟩
    · rename_i e p' hc
      simp only [SpecOut.failed.injEq] at h
      obtain ⟨rfl, _, rfl, rfl⟩ := h
      refine ⟨[], t, outs.getLast?, p', by simp, by simp, by simp, Or.inl ⟨e, rfl, ?_⟩⟩
      simpa using hc
    · rename_i p p' hc
      simp only [SpecOut.failed.injEq] at h
      obtain ⟨rfl, _, rfl, rfl⟩ := h
      refine ⟨[], t, outs.getLast?, p', by simp, by simp, by simp, Or.inr ⟨p, rfl, ?_⟩⟩
      simpa using hc

/-! ### a converter that leaves the previous output alone and always converts: plain `map` -/

theorem setLast_getLast (outs : List U) : setLast outs outs.getLast? = outs := by
  unfold setLast
  split
  · rename_i n u hlen hlast
    rw [List.getLast?_eq_getElem?] at hlast
    apply List.ext_getElem?
    intro i
    rw [List.getElem?_set]
    split
    · rename_i hni
      have hlt : n < outs.length := by omega
      rw [← hlast, if_pos hlt]; congr 1; omega
    · rfl
  · rfl

theorem spec_map (f : T → U) (conv : Nat → T → Option U → COut U E P)
    (hc : ∀ k t p, conv k t p = .converted (f t) p) :
    ∀ (input : List T) (outs : List U) (calls : List (T × Option U)),
      ∃ calls', spec conv input outs calls = .ok (outs ++ input.map f) calls' := by
  intro input
  induction input with
  | nil => intro outs calls; exact ⟨calls, by simp [spec]⟩
  | cons t rest ih =>
    intro outs calls
    unfold spec
    simp only [hc, setLast_getLast]
    obtain ⟨c', h⟩ := ih (outs ++ [f t]) (calls ++ [(t, outs.getLast?)])
    exact ⟨c', by rw [h]; simp⟩

end Truc.Vec
