//! Channel T: type names. For every type of the catalogue and several spellings of its name: what the real
//! normaliser (`truc_dynamic_type_name`, observed through `StaticTypeResolver::dynamic_type_info`) makes of it,
//! and what `HostTypeResolver` records; plus table registration / lookup / JSON round trip.
//! usage: chan_t <seed> <outdir>
use std::io::Write;
use truc::record::type_resolver::{StaticTypeResolver, TypeResolver};
use verif_harness::{catch, silence_panics, Rng};

/// the real normaliser, through the public API: an empty table panics with the normalised name
fn normalise(spelling: &str) -> Option<String> {
    let r = StaticTypeResolver::new();
    match catch(|| r.dynamic_type_info(spelling)) {
        Ok(_) => None,
        Err(m) => m.strip_prefix("Could not resolve type ").map(|s| s.to_string()),
    }
}

fn respace(rng: &mut Rng, s: &str) -> String {
    let mut out = String::new();
    for c in s.chars() {
        if c == ' ' { if rng.chance(1, 2) { out.push(' '); } continue; }
        let punct = matches!(c, '<' | '>' | ',' | ';' | '(' | ')' | '[' | ']');
        if punct && rng.chance(1, 2) { out.push_str(if rng.chance(1, 2) { " " } else { "  " }); }
        out.push(c);
        if punct && rng.chance(1, 3) { out.push(' '); }
    }
    // "::" must stay together; spaces around it are allowed by the tokenizer
    if rng.chance(1, 4) { out = out.replace("::", " :: "); }
    out
}

fn main() {
    silence_panics();
    let args: Vec<String> = std::env::args().collect();
    let seed: u64 = args[1].parse().unwrap();
    let outdir = &args[2];
    std::fs::create_dir_all(outdir).unwrap();
    let mk = |n: &str| std::io::BufWriter::new(std::fs::File::create(format!("{}/{}", outdir, n)).unwrap());
    let (mut req, mut imp, mut ora, mut probe) = (mk("req.txt"), mk("impl.txt"), mk("oracle.txt"), mk("probe.rs"));
    let mut rng = Rng::new(seed);
    let mut n = 0usize;
    writeln!(probe, "#![allow(dead_code, unused)]\nmod verif_harness {{ pub mod userty {{ pub struct Foo(pub u32); pub mod deep {{ pub struct Bar<T>(pub T); }} pub mod vec {{ pub struct Vec<T>(pub T, pub u8); }} }} pub mod vec {{ pub struct Vec<T>(pub T, pub u8); }} pub mod string {{ pub struct String(pub u8); }} pub mod boxed {{ pub struct Box<T>(pub T, pub u8); }} pub mod option {{ pub struct Option<T>(pub T, pub u8); }} pub mod result {{ pub struct Result<T>(pub T, pub u8); }} pub mod alloc {{ pub mod vec {{ pub struct Vec<T>(pub T, pub u8); }} }} }}\nuse crate::verif_harness as krate;").unwrap();
    // the standard table, checked entry by entry against the compiler's own numbers for every catalogue type it registers
    let std_table = { let mut t = StaticTypeResolver::new(); t.add_std_types(); t };
    let std_keys: std::collections::BTreeSet<String> = std_table.to_json_value().unwrap().as_object().unwrap().keys().cloned().collect();
    let mut std_checked: std::collections::BTreeSet<String> = Default::default();
    verif_harness::catalogue::each(&mut |src, full, host, size, align| {
        n += 1;
        if std_keys.contains(&host.name) {
            std_checked.insert(host.name.clone());
            match catch(|| std_table.dynamic_type_info(&host.name)) {
                Ok(d) => if d.info.size != size || d.info.align != align || d.info.name != host.name {
                    writeln!(ora, "property=C18 the standard table records {}/{} for `{}`, the compiler says {}/{}", d.info.size, d.info.align, host.name, size, align).unwrap();
                },
                Err(e) => writeln!(ora, "property=C18 the standard table has the key `{}` but does not answer for it: {}", host.name, e.replace('\n', " ")).unwrap(),
            }
        }
        // the compiler's spelling uses the crate name of the harness; the source spelling uses `crate::`
        let src_abs = src.replace("crate::", "verif_harness::");
        let mut spellings = vec![full.to_string(), src_abs.clone()];
        for _ in 0..2 { spellings.push(respace(&mut rng, full)); spellings.push(respace(&mut rng, &src_abs)); }
        for s in &spellings {
            let got = normalise(s);
            writeln!(req, "tn {}", s).unwrap();
            writeln!(imp, "{}", match &got { Some(g) => format!("some {}", g), None => "none".to_string() }).unwrap();
            // oracle: every spelling normalises to the name the host resolver records
            if got.as_deref() != Some(host.name.as_str()) {
                writeln!(ora, "property=C17 spelling `{}` of {} normalises to {:?}, the recorded name is `{}`", s, src, got, host.name).unwrap();
            }
        }
        if host.size != size || host.align != align {
            writeln!(ora, "property=C18 HostTypeResolver reports {}/{} for {}, the compiler says {}/{}", host.size, host.align, src, size, align).unwrap();
        }
        // rustc probe: the recorded name, written into code, denotes the same type
        // (`*mut T` is invariant in `T`: the two spellings must denote the same type, a mere subtype or coercion does not pass)
        writeln!(probe, "const _: fn(*mut {}) -> *mut {} = |x| x;", src.replace("crate::", "crate::verif_harness::"), host.name.replace("verif_harness ::", "crate :: verif_harness ::")).unwrap();
    });
    // types outside the grammar of the Lean model (function pointers, references, lifetimes): no model tie for these,
    // the compiler alone says whether the recorded name still denotes the declared type
    macro_rules! extra { ($($t:ty),* $(,)?) => { $( {
        use truc::record::type_resolver::HostTypeResolver;
        n += 1;
        match catch(|| HostTypeResolver.type_info::<$t>()) {
            Ok(info) => writeln!(probe, "const _: fn(*mut {}) -> *mut {} = |x| x;", stringify!($t), info.name).unwrap(),
            Err(m) => writeln!(ora, "property=C17 HostTypeResolver panics on {}: {}", stringify!($t), m).unwrap(),
        }
    } )* } }
    extra!(fn(u32) -> u32, fn(&str) -> usize, fn(&str) -> &str, Option<fn(&mut Vec<String>, &str)>, [fn(&u8); 2], (u8, fn(&u8)),
           &'static str, &'static [u8], Option<&'static str>, fn() -> String, unsafe fn(*const u8) -> u8, extern "C" fn(i32) -> i32,
           *const u8, *mut [u16; 3], Box<fn(&str) -> usize>, Vec<Option<fn(&str) -> &str>>, Result<fn(&u8), &'static str>);
    // (only Rust's primitive types -- function pointers, references, raw pointers, `str` -- under the constructors C17 lists;
    //  trait objects, `Cow`, ... are outside the property: `Box<dyn Fn(&str)>` is recorded with the private path
    //  `core::ops::function::Fn` on the unchanged tree, which C17 does not promise to avoid)
    writeln!(probe, "fn main() {{}}").unwrap();
    // a malformed stream
    for s in ["", "Vec<", "u8,", "(u8", "[u8; ]", "Vec<<u8>>", "a b"] {
        writeln!(req, "tn {}", s).unwrap();
        writeln!(imp, "{}", match normalise(s) { Some(g) => format!("some {}", g), None => "none".to_string() }).unwrap();
    }
    // tables (C18): registration, lookup, JSON round trip
    let mut t = StaticTypeResolver::new();
    t.add_all_types();
    // user registrations of every kind of layout: zero-size (size < alignment), over-aligned, odd-sized, nested generics
    t.add_type::<()>();
    t.add_type::<std::marker::PhantomData<u64>>();
    t.add_type_allow_uninit::<[u64; 0]>();
    t.add_type::<verif_harness::userty::Foo>();
    t.add_type_allow_uninit::<[u8; 13]>();
    t.add_type::<(u8, u64, u16)>();
    t.add_type::<Vec<Option<Box<str>>>>();
    let json = t.to_json_string().unwrap();
    let back: StaticTypeResolver = match catch(|| -> StaticTypeResolver { serde_json::from_str::<std::collections::BTreeMap<String, truc::record::type_resolver::DynamicTypeInfo>>(&json).unwrap().into() }) {
        Ok(b) => b,
        Err(e) => {
            writeln!(ora, "property=C18 a table cannot be loaded back from its own JSON form: {}", e.replace('\n', " ")).unwrap();
            StaticTypeResolver::new()
        }
    };
    let keys: Vec<String> = t.to_json_value().unwrap().as_object().unwrap().keys().cloned().collect();
    let mut tables = 0;
    for k in &keys {
        tables += 1;
        let a = t.dynamic_type_info(k);
        let b = match catch(|| back.dynamic_type_info(k)) { Ok(b) => b, Err(_) => { writeln!(ora, "property=C18 table entry {} is missing after the JSON round trip", k).unwrap(); continue; } };
        if a.info != b.info || a.allow_uninit != b.allow_uninit {
            writeln!(ora, "property=C18 table entry {} differs after the JSON round trip", k).unwrap();
        }
        if &a.info.name != k {
            writeln!(ora, "property=C18 table entry {} answers for {}", k, a.info.name).unwrap();
        }
        // lookups ignore whitespace
        let spaced = respace(&mut rng, k);
        match catch(|| t.dynamic_type_info(&spaced)) {
            Ok(c) if c.info == a.info => {}
            other => { writeln!(ora, "property=C17 table lookup of `{}` (for {}) gives {:?}", spaced, k, other.map(|c| c.info.name)).unwrap(); }
        }
    }
    macro_rules! agree { ($($ty:ty),*) => { $( {
        use truc::record::type_resolver::HostTypeResolver;
        let b = HostTypeResolver.type_info::<$ty>();
        match catch(|| t.type_info::<$ty>()) {
            Ok(a) => if a != b { writeln!(ora, "property=C18 standard table and host resolver disagree on {}", stringify!($ty)).unwrap(); },
            Err(e) => writeln!(ora, "property=C18 the standard table does not answer the typed lookup of {} although it is registered ({})", stringify!($ty), e.replace('\n', " ")).unwrap(),
        }
        tables += 1;
    } )* } }
    agree!(u8, u16, u32, u64, u128, usize, i8, i16, i32, i64, i128, isize, f32, f64, char, bool, String, Box<str>, Vec<()>,
           [u8; 3], [u64; 10], Option<u32>, Option<String>, Option<[u16; 7]>, [String; 4], Option<Vec<()>>);
    // a table answers exactly what was registered: nothing for a type that was never registered (no fall-back to the host)
    macro_rules! absent { ($($ty:ty),*) => { $( {
        let name = { use truc::record::type_resolver::HostTypeResolver; HostTypeResolver.type_info::<$ty>().name };
        if !keys.iter().any(|k| k == &name) {
            tables += 1;
            if let Ok(a) = catch(|| t.type_info::<$ty>()) {
                writeln!(ora, "property=C18 the table answers {}/{} for {} which was never registered", a.size, a.align, name).unwrap();
            }
            if let Ok(a) = catch(|| t.dynamic_type_info(&name)) {
                writeln!(ora, "property=C18 the table answers {}/{} for the name `{}` which was never registered", a.info.size, a.info.align, name).unwrap();
            }
        }
    } )* } }
    absent!(Vec<u32>, [u32; 11], Option<Option<u8>>, (u8, u64), verif_harness::userty::Foo, Box<[u16]>);
    // std items that share an item name are different types: a table holding one of them does not answer for the other,
    // and both can be registered
    {
        let lookalikes = catch(|| {
            let mut t2 = StaticTypeResolver::new();
            t2.add_type::<std::net::SocketAddr>();
            t2.add_type::<std::io::Error>();
            t2
        });
        match lookalikes {
            Err(e) => writeln!(ora, "property=C18 registering std::net::SocketAddr and std::io::Error in an empty table panics: {}", e).unwrap(),
            Ok(t2) => {
                tables += 2;
                if let Ok(a) = catch(|| t2.type_info::<std::fmt::Error>()) {
                    writeln!(ora, "property=C18 a table holding std::io::Error answers {}/{} for std::fmt::Error which was never registered", a.size, a.align).unwrap();
                }
                if let Ok(a) = catch(|| t2.type_info::<std::os::unix::net::SocketAddr>()) {
                    writeln!(ora, "property=C18 a table holding std::net::SocketAddr answers {}/{} for std::os::unix::net::SocketAddr which was never registered", a.size, a.align).unwrap();
                }
                let mut t3 = t2;
                if catch(std::panic::AssertUnwindSafe(|| { t3.add_type::<std::fmt::Error>(); })).is_err() {
                    writeln!(ora, "property=C18 std::fmt::Error cannot be registered next to std::io::Error (same key)").unwrap();
                }
            }
        }
    }
    // a refused registration leaves the table as it was (whichever of the two entry points refuses)
    {
        let mut t4 = StaticTypeResolver::new();
        t4.add_std_types();
        t4.add_type::<(u8, u16)>();
        let before = t4.to_json_string().unwrap();
        let r1 = catch(std::panic::AssertUnwindSafe(|| { t4.add_type::<u32>(); }));
        let r2 = catch(std::panic::AssertUnwindSafe(|| { t4.add_type_allow_uninit::<Option<[bool; 2]>>(); }));
        let r3 = catch(std::panic::AssertUnwindSafe(|| { t4.add_type_allow_uninit::<(u8, u16)>(); }));
        let r4 = catch(std::panic::AssertUnwindSafe(|| { t4.add_type::<[u8; 4]>(); }));
        tables += 4;
        if r1.is_ok() || r2.is_ok() || r3.is_ok() || r4.is_ok() { writeln!(ora, "property=C18 registering a type twice (through the other entry point) is accepted").unwrap(); }
        let after = t4.to_json_string().unwrap();
        if before != after {
            let (a, b): (std::collections::BTreeMap<String, serde_json::Value>, std::collections::BTreeMap<String, serde_json::Value>) = (serde_json::from_str(&before).unwrap(), serde_json::from_str(&after).unwrap());
            let what: Vec<String> = a.iter().filter(|(k, v)| b.get(*k) != Some(v)).map(|(k, v)| format!("{}: {} -> {}", k, v, b.get(k).map(|x| x.to_string()).unwrap_or("<gone>".into()))).collect();
            writeln!(ora, "property=C18 a refused duplicate registration changed the table: {}", what.join("; ")).unwrap();
        }
    }
    // every key of the standard table was compared with the compiler's numbers above
    {
        let missing: Vec<&String> = std_keys.iter().filter(|k| !std_checked.contains(*k)).collect();
        tables += std_checked.len();
        if !missing.is_empty() {
            writeln!(ora, "property=C18 the standard table has {} keys the catalogue does not cover (cannot be checked against the compiler): {:?}", missing.len(), &missing[..missing.len().min(5)]).unwrap();
        }
    }
    // a table loaded from a map answers what was registered under the key, through both entry points (the registered name may
    // differ from the key: the `Vec < () >` placeholder standing for `Vec < MyStruct >`)
    {
        use truc::record::type_resolver::{DynamicTypeInfo, TypeInfo};
        let mut map: std::collections::BTreeMap<String, DynamicTypeInfo> = Default::default();
        map.insert("Vec < () >".into(), DynamicTypeInfo { info: TypeInfo { name: "Vec < MyStruct >".into(), size: 24, align: 8 }, allow_uninit: false });
        map.insert("u64".into(), DynamicTypeInfo { info: TypeInfo { name: "crate :: Nanos".into(), size: 8, align: 8 }, allow_uninit: true });
        map.insert("u8".into(), DynamicTypeInfo { info: TypeInfo { name: "u8".into(), size: 1, align: 1 }, allow_uninit: true });
        let t5: StaticTypeResolver = map.clone().into();
        tables += 3;
        macro_rules! same { ($ty:ty, $key:expr) => { {
            let want = &map[$key].info;
            match catch(|| t5.type_info::<$ty>()) { Ok(a) => if &a != want { writeln!(ora, "property=C18 loaded table: typed lookup of {} answers {:?}, registered was {:?}", $key, a, want).unwrap(); }, Err(e) => writeln!(ora, "property=C18 loaded table: typed lookup of {} panics: {}", $key, e.replace('\n', " ")).unwrap() }
            match catch(|| t5.dynamic_type_info($key)) { Ok(a) => if &a.info != want { writeln!(ora, "property=C18 loaded table: dynamic lookup of {} answers {:?}, registered was {:?}", $key, a.info, want).unwrap(); }, Err(e) => writeln!(ora, "property=C18 loaded table: dynamic lookup of {} panics: {}", $key, e.replace('\n', " ")).unwrap() }
        } } }
        same!(Vec<()>, "Vec < () >");
        same!(u64, "u64");
        same!(u8, "u8");
    }
    // registering a type twice panics
    let dup = catch(|| { let mut x = StaticTypeResolver::new(); x.add_type::<u8>(); x.add_type::<u8>(); });
    if dup.is_ok() { writeln!(ora, "property=C18 registering a type twice is accepted").unwrap(); }
    std::fs::write(format!("{}/stats.json", outdir), format!("{{\"types\":{},\"table_checks\":{}}}", n, tables)).unwrap();
}
