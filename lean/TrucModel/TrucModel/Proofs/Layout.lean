import TrucModel.Proofs.Basic
/-
  The layout invariant `LInv` and the generic insertion lemma every strategy's proof goes through.
-/
namespace Truc

/-- list order = address order, zero-size data included -/
def Sorted (defs : Defs) (l : List Nat) : Prop := l.Pairwise (fun a b => stop defs a ≤ off defs b)

structure LInv (defs : Defs) (l : List Nat) : Prop where
  sorted  : Sorted defs l
  aligned : ∀ d ∈ l, al defs d ∣ off defs d
  inRange : ∀ d ∈ l, d < defs.length
  nodup   : l.Nodup

theorem LInv.nil (defs : Defs) : LInv defs [] :=
  ⟨List.Pairwise.nil, by simp, by simp, List.nodup_nil⟩

theorem Sorted.sublist {defs : Defs} {l l' : List Nat} (h : Sorted defs l) (hs : l'.Sublist l) : Sorted defs l' :=
  List.Pairwise.sublist hs h

theorem LInv.sublist {defs : Defs} {l l' : List Nat} (h : LInv defs l) (hs : l'.Sublist l) : LInv defs l' :=
  ⟨h.sorted.sublist hs, fun d hd => h.aligned d (hs.subset hd), fun d hd => h.inRange d (hs.subset hd),
   h.nodup.sublist hs⟩

theorem LInv.removeData {defs : Defs} {l : List Nat} (h : LInv defs l) (rm : List Nat) : LInv defs (removeData l rm) :=
  h.sublist (removeData_sublist l rm)

/-- an invariant only depends on the layout numbers of the listed data -/
theorem LInv.congr {defs defs' : Defs} {l : List Nat} (h : LInv defs l) (hlen : defs'.length = defs.length)
    (hoff : ∀ d ∈ l, off defs' d = off defs d) (hsz : ∀ d ∈ l, sz defs' d = sz defs d)
    (hal : ∀ d ∈ l, al defs' d = al defs d) : LInv defs' l := by
  refine ⟨?_, ?_, ?_, h.nodup⟩
  · unfold Sorted
    refine List.Pairwise.imp_of_mem ?_ h.sorted
    intro a b ha hb hab
    unfold stop at *
    rw [hoff a ha, hsz a ha, hoff b hb]; exact hab
  · intro d hd; rw [hal d hd, hoff d hd]; exact h.aligned d hd
  · intro d hd; rw [hlen]; exact h.inRange d hd

theorem LInv.setOffset_notin {defs : Defs} {l : List Nat} (h : LInv defs l) {id : Nat} (o : Nat) (hid : id ∉ l) :
    LInv (setOffset defs id o) l := by
  refine h.congr (by simp) ?_ (by simp) (by simp)
  intro d hd
  exact off_setOffset_ne _ _ _ _ (fun e => hid (e ▸ hd))

theorem stop_le_endOf {defs : Defs} {l : List Nat} (h : Sorted defs l) {x : Nat} (hx : x ∈ l) :
    stop defs x ≤ endOf defs l := by
  unfold endOf
  rcases List.eq_nil_or_concat l with rfl | ⟨l0, z, rfl⟩
  · simp at hx
  · simp only [List.concat_eq_append, List.getLast?_append, List.getLast?_singleton, Option.some_or]
    rw [List.concat_eq_append] at hx h
    rcases List.mem_append.1 hx with hx | hx
    · unfold Sorted at h
      rw [List.pairwise_append] at h
      have := h.2.2 x hx z (by simp)
      unfold stop at *; omega
    · simp at hx; subst hx; exact Nat.le_refl _

/-- the insertion lemma: put a fresh datum at list position `k` and byte offset `o` -/
theorem LInv.insert {defs : Defs} {l : List Nat} (h : LInv defs l) {id k o : Nat}
    (hid : id ∉ l) (hlt : id < defs.length)
    (hbefore : ∀ e ∈ l.take k, stop defs e ≤ o)
    (hafter : ∀ e ∈ l.drop k, o + sz defs id ≤ off defs e)
    (hal : al defs id ∣ o) :
    LInv (setOffset defs id o) (l.take k ++ id :: l.drop k) := by
  have hl := h.setOffset_notin o hid
  have hne : ∀ e ∈ l, e ≠ id := fun e he heq => hid (heq ▸ he)
  refine ⟨?_, ?_, ?_, ?_⟩
  · unfold Sorted
    rw [List.pairwise_append]
    refine ⟨(hl.sorted.sublist (List.take_sublist k l)), ?_, ?_⟩
    · rw [List.pairwise_cons]
      refine ⟨?_, hl.sorted.sublist (List.drop_sublist k l)⟩
      intro b hb
      have hbl : b ∈ l := List.mem_of_mem_drop hb
      rw [stop_setOffset_self _ _ _ hlt, off_setOffset_ne _ _ _ _ (hne b hbl)]
      exact hafter b hb
    · intro a ha b hb
      have hal' : a ∈ l := List.mem_of_mem_take ha
      rcases List.mem_cons.1 hb with rfl | hb
      · rw [stop_setOffset_ne _ _ _ _ (hne a hal'), off_setOffset_self _ _ _ hlt]
        exact hbefore a ha
      · have hbl : b ∈ l := List.mem_of_mem_drop hb
        have := hbefore a ha
        have := hafter b hb
        rw [stop_setOffset_ne _ _ _ _ (hne a hal'), off_setOffset_ne _ _ _ _ (hne b hbl)]
        omega
  · intro d hd
    rcases mem_insert.1 hd with rfl | hd
    · rw [al_setOffset, off_setOffset_self _ _ _ hlt]; exact hal
    · exact hl.aligned d hd
  · intro d hd
    rcases mem_insert.1 hd with rfl | hd
    · simpa using hlt
    · exact hl.inRange d hd
  · have : (l.take k ++ id :: l.drop k).Perm (id :: l) := perm_insert l k id
    rw [this.nodup_iff]
    exact List.nodup_cons.2 ⟨hid, h.nodup⟩

theorem LInv.push {defs : Defs} {l : List Nat} (h : LInv defs l) {id : Nat}
    (hid : id ∉ l) (hlt : id < defs.length) (hpos : 0 < al defs id) :
    LInv (pushDatum defs l id).1 (pushDatum defs l id).2.1 := by
  unfold pushDatum
  simp only
  have := h.insert (k := l.length) (o := alignUp (endOf defs l) (al defs id)) hid hlt ?_ ?_ (alignUp_dvd _ _)
  · simpa using this
  · intro e he
    rw [List.take_length] at he
    exact Nat.le_trans (stop_le_endOf h.sorted he) (le_alignUp _ _ hpos)
  · intro e he; simp at he

end Truc
