#!/bin/bash
# usage: seedconfirm.sh <worktree>  -- for seeds delivered as <wt>/seed.patch + <wt>/seed_demo/run.sh:
# resets the worktree to pristine + seed.patch, runs the unedited suite, runs the demo with and without the change
WT=$1
cd $WT || exit 2
export CARGO_NET_OFFLINE=true
git checkout -q -- . && git apply seed.patch || { echo "PATCH-DOES-NOT-APPLY"; exit 2; }
echo "== changed files"; git status --short --untracked-files=no
echo "== suite with change"; cargo test --workspace --no-fail-fast --offline 2>&1 | grep -E "^test result: (ok|FAILED)\. [1-9]|FAILED|panicked" | head -6
echo "== demo with change (must fail)"; (cd seed_demo && timeout 1800 ./run.sh > /tmp/demo_with_$$.txt 2>&1; echo "exit=$?"; tail -3 /tmp/demo_with_$$.txt)
git apply -R seed.patch
echo "== demo without change (must pass)"; (cd seed_demo && timeout 1800 ./run.sh > /tmp/demo_without_$$.txt 2>&1; echo "exit=$?"; tail -3 /tmp/demo_without_$$.txt)
git apply seed.patch
rm -f /tmp/demo_with_$$.txt /tmp/demo_without_$$.txt
