import TrucModel.Model.Builder
/-
  Layout decisions read nothing but sizes, alignments and offsets: every strategy commutes with
  erasing the names, type names and uninit flags of the datum collection (C18, first sentence).
-/
namespace Truc

def eraseI (i : Info) : Info := { i with name := "", ty := "", uninit := false }

def G (defs : Defs) : Defs := defs.map eraseI

@[simp] theorem G_length (defs : Defs) : (G defs).length = defs.length := by simp [G]

theorem info_G (defs : Defs) (id : Nat) : info (G defs) id = eraseI (info defs id) := by
  unfold info G
  rw [List.getElem?_map]
  cases defs[id]? <;> rfl

@[simp] theorem sz_G (defs : Defs) (id : Nat) : sz (G defs) id = sz defs id := by simp [sz, info_G, eraseI]
@[simp] theorem al_G (defs : Defs) (id : Nat) : al (G defs) id = al defs id := by simp [al, info_G, eraseI]
@[simp] theorem off_G (defs : Defs) (id : Nat) : off (G defs) id = off defs id := by simp [off, info_G, eraseI]
@[simp] theorem stop_G (defs : Defs) (id : Nat) : stop (G defs) id = stop defs id := by simp [stop]

@[simp] theorem setOffset_G (defs : Defs) (id o : Nat) : setOffset (G defs) id o = G (setOffset defs id o) := by
  unfold setOffset G
  induction defs generalizing id with
  | nil => simp
  | cons x xs ih =>
    cases id with
    | zero => simp [eraseI]
    | succ n => simp [ih]

@[simp] theorem endOf_G (defs : Defs) (l : List Nat) : endOf (G defs) l = endOf defs l := by
  unfold endOf; cases l.getLast? <;> simp


/-- erase the first component of a strategy result -/
def G2 (p : Defs × List Nat) : Defs × List Nat := (G p.1, p.2)

theorem pushDatum_G (defs : Defs) (l : List Nat) (id : Nat) :
    pushDatum (G defs) l id = (G (pushDatum defs l id).1, (pushDatum defs l id).2) := by
  simp [pushDatum]

theorem pushAll_G : ∀ (add : List Nat) (defs : Defs) (l : List Nat),
    pushAll (G defs) l add = G2 (pushAll defs l add) := by
  intro add
  induction add with
  | nil => intro defs l; rfl
  | cons id rest ih =>
    intro defs l
    simp only [pushAll, pushDatum_G]
    exact ih _ _

theorem basicScan_G (defs : Defs) (data : List Nat) (dsz dal : Nat) : ∀ (dc bc : Nat),
    basicScan (G defs) data dsz dal dc bc = basicScan defs data dsz dal dc bc := by
  suffices h : ∀ (n dc bc : Nat), data.length - dc = n →
      basicScan (G defs) data dsz dal dc bc = basicScan defs data dsz dal dc bc from fun dc bc => h _ dc bc rfl
  intro n
  induction n with
  | zero =>
    intro dc bc hn
    have : ¬ dc < data.length := by omega
    rw [basicScan]
    conv => rhs; rw [basicScan]
    simp [this]
  | succ k ih =>
    intro dc bc hn
    rw [basicScan]
    conv => rhs; rw [basicScan]
    by_cases h : dc < data.length
    · simp only [h, dite_true, off_G, sz_G]
      rw [ih (dc + 1) _ (by omega), ih (dc + 1) _ (by omega)]
    · simp [h]

theorem basicLoop_G : ∀ (add : List Nat) (defs : Defs) (data : List Nat) (dc bc : Nat),
    basicLoop (G defs) data dc bc add = (basicLoop defs data dc bc add).map G2 := by
  intro add
  induction add with
  | nil => intro defs data dc bc; rfl
  | cons id rest ih =>
    intro defs data dc bc
    simp only [basicLoop, basicScan_G, sz_G, al_G]
    cases insertAt? data (basicScan defs data (sz defs id) (al defs id) dc bc).1 id with
    | none => rfl
    | some data' => simp only [setOffset_G]; exact ih _ _ _ _

theorem initialGapsFrom_G (defs : Defs) : ∀ (l : List Nat) (i last : Nat),
    initialGapsFrom (G defs) l i last = initialGapsFrom defs l i last := by
  intro l
  induction l with
  | nil => intro _ _; rfl
  | cons d rest ih => intro i last; simp only [initialGapsFrom, off_G, stop_G, ih]

theorem insertBySize_G (defs : Defs) (id : Nat) : ∀ (acc : List Nat),
    insertBySize (G defs) id acc = insertBySize defs id acc := by
  intro acc
  induction acc with
  | nil => rfl
  | cons x xs ih => simp only [insertBySize, sz_G, ih]

theorem sortBySizeDesc_G (defs : Defs) (add : List Nat) : sortBySizeDesc (G defs) add = sortBySizeDesc defs add := by
  unfold sortBySizeDesc
  congr 1
  funext acc id
  exact insertBySize_G defs id acc

def GS (s : SState) : SState := ⟨G s.defs, s.data, s.gaps⟩

theorem simpleStep_G (s : SState) (id : Nat) : simpleStep (GS s) id = (simpleStep s id).map GS := by
  unfold simpleStep
  simp only [GS, sz_G, al_G]
  split
  · rename_i f hf
    split
    · rfl
    · rename_i gap hg
      split
      · rfl
      · simp [GS]
  · simp [pushDatum_G, pushDatum, GS]

theorem simpleLoop_G : ∀ (ids : List Nat) (s : SState), simpleLoop (GS s) ids = (simpleLoop s ids).map GS := by
  intro ids
  induction ids with
  | nil => intro s; rfl
  | cons id rest ih =>
    intro s
    simp only [simpleLoop, simpleStep_G]
    cases simpleStep s id with
    | none => rfl
    | some s' => exact ih s'

theorem simple_G (defs : Defs) (data add rm : List Nat) : simple (G defs) data add rm = (simple defs data add rm).map G2 := by
  unfold simple
  simp only [sortBySizeDesc_G]
  have : (⟨G defs, removeData data rm, initialGaps (G defs) (removeData data rm)⟩ : SState) =
      GS ⟨defs, removeData data rm, initialGaps defs (removeData data rm)⟩ := by
    simp [GS, initialGaps, initialGapsFrom_G]
  rw [this, simpleLoop_G]
  cases simpleLoop ⟨defs, removeData data rm, initialGaps defs (removeData data rm)⟩ (sortBySizeDesc defs add) with
  | none => rfl
  | some s => rfl

theorem runStrategy_G (st : Strategy) (defs : Defs) (data add rm : List Nat) :
    runStrategy st (G defs) data add rm = (runStrategy st defs data add rm).map G2 := by
  unfold runStrategy
  simp only [al_G]
  split
  · rfl
  · cases st with
    | simple => exact simple_G defs data add rm
    | basic => exact basicLoop_G add defs _ 0 0
    | append => simp [runStrategy', appendData, pushAll_G]
    | appendRev => simp [runStrategy', appendDataReverse, pushAll_G]
    | gAppend => rfl
    | gAppendRev => rfl

/-- the builder with its datum collection erased -/
def GB (s : BState) : BState := { s with defs := G s.defs }

theorem close_G (s : BState) (st : Strategy) : (GB s).close st = (s.close st).map (fun p => (GB p.1, p.2)) := by
  unfold BState.close
  have hp : (GB s).hasPendingChanges = s.hasPendingChanges := rfl
  rw [hp]
  split
  · rfl
  · simp only [GB, runStrategy_G]
    cases runStrategy st s.defs (s.variants.getLast?.getD []) s.toAdd s.toRemove with
    | none => rfl
    | some p => rfl


/-! ### histories with the same geometry -/

def geoEq : Req → Req → Prop
  | .add i, .add i' => i.size = i'.size ∧ i.align = i'.align
  | .remove a, .remove b => a = b
  | .close st, .close st' => st = st'
  | _, _ => False

def SameGeo : List Req → List Req → Prop
  | [], [] => True
  | r :: rs, r' :: rs' => geoEq r r' ∧ SameGeo rs rs'
  | _, _ => False

/-- no addition of the history is refused (the only thing names are used for) -/
def Accepted (s : BState) : List Req → Prop
  | [] => True
  | r :: rest =>
    (match r with
     | .add i => (s.currentByName i.name).isSome = false
     | _ => True) ∧ Accepted (step s r) rest

theorem GB_removeDatum (s : BState) (id : Nat) : GB (s.removeDatum id).1 = ((GB s).removeDatum id).1 := by
  unfold BState.removeDatum
  show _ = (match s.variants.getLast? with | some v => _ | none => _ : BState × Except ErrKind Unit).1
  cases s.variants.getLast? with
  | none =>
    simp only [GB]
    by_cases h1 : id ∈ s.toAdd <;> simp [h1]
  | some v =>
    simp only [GB]
    by_cases h1 : id ∈ v <;> by_cases h2 : id ∈ s.toRemove <;>
      by_cases h3 : id ∈ s.toAdd <;> simp [h1, h2, h3]

theorem GB_step_close (s : BState) (st : Strategy) : GB (step s (.close st)) = step (GB s) (.close st) := by
  simp only [step, close_G]
  cases s.close st with
  | none => rfl
  | some p => rfl

theorem GB_add {s s' : BState} {i i' : Info} (h : GB s = GB s') (hg : i.size = i'.size ∧ i.align = i'.align)
    (ha : (s.currentByName i.name).isSome = false) (ha' : (s'.currentByName i'.name).isSome = false) :
    GB (step s (.add i)) = GB (step s' (.add i')) := by
  have hlen : s.defs.length = s'.defs.length := by
    have := congrArg (fun b => b.defs.length) h
    simpa [GB] using this
  have hd : G s.defs = G s'.defs := congrArg BState.defs h
  have hv : s.variants = s'.variants := by have := congrArg BState.variants h; exact this
  have hta : s.toAdd = s'.toAdd := by have := congrArg BState.toAdd h; exact this
  have htr : s.toRemove = s'.toRemove := by have := congrArg BState.toRemove h; exact this
  simp only [step, BState.addDatum, ha, ha', Bool.false_eq_true, if_false, GB]
  simp only [G, List.map_append, List.map_cons, List.map_nil] at hd ⊢
  rw [hd, hv, hta, htr, hlen]
  simp [eraseI, hg.1, hg.2]

theorem layout_factor_from : ∀ (rs rs' : List Req) (s s' : BState), GB s = GB s' → SameGeo rs rs' →
    Accepted s rs → Accepted s' rs' → GB (rs.foldl step s) = GB (rs'.foldl step s') := by
  intro rs
  induction rs with
  | nil =>
    intro rs' s s' h hg _ _
    cases rs' with
    | nil => exact h
    | cons _ _ => exact absurd hg (by simp [SameGeo])
  | cons r rest ih =>
    intro rs' s s' h hg ha ha'
    cases rs' with
    | nil => exact absurd hg (by simp [SameGeo])
    | cons r' rest' =>
      obtain ⟨hr, hrest⟩ := hg
      simp only [List.foldl_cons]
      apply ih rest' _ _ ?_ hrest ha.2 ha'.2
      cases r with
      | add i =>
        cases r' with
        | add i' => exact GB_add h hr ha.1 ha'.1
        | remove _ => exact absurd hr (by simp [geoEq])
        | close _ => exact absurd hr (by simp [geoEq])
      | remove a =>
        cases r' with
        | add _ => exact absurd hr (by simp [geoEq])
        | remove b =>
          have : a = b := hr
          subst this
          simp only [step]
          rw [GB_removeDatum, GB_removeDatum, h]
        | close _ => exact absurd hr (by simp [geoEq])
      | close st =>
        cases r' with
        | add _ => exact absurd hr (by simp [geoEq])
        | remove _ => exact absurd hr (by simp [geoEq])
        | close st' =>
          have : st = st' := hr
          subst this
          rw [GB_step_close, GB_step_close, h]

end Truc
