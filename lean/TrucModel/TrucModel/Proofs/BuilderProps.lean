import TrucModel.Proofs.Reach
/-
  Builder-level facts for C12: membership, fresh ids, unique names, rejected requests.
-/
namespace Truc

def nameOf (defs : Defs) (id : Nat) : String := (info defs id).name

/-- names are unique in every closed variant and in the current (pending) view -/
structure NInv (s : BState) : Prop where
  variants : ∀ v ∈ s.variants, (v.map (nameOf s.defs)).Nodup
  current  : (s.currentData.map (nameOf s.defs)).Nodup
  curRange : ∀ d ∈ s.currentData, d < s.defs.length

theorem currentData_eq (s : BState) :
    s.currentData = removeData ((s.variants.getLast?).getD []) s.toRemove ++ s.toAdd := by
  unfold BState.currentData removeData
  cases s.variants.getLast? <;> simp

theorem NInv.init : NInv BState.init := by
  refine ⟨by simp [BState.init], ?_, ?_⟩ <;> simp [BState.currentData, BState.init]

theorem map_nameOf_congr {defs defs' : Defs} {l : List Nat} (h : ∀ d ∈ l, info defs' d = info defs d) :
    l.map (nameOf defs') = l.map (nameOf defs) := by
  apply List.map_congr_left
  intro d hd; unfold nameOf; rw [h d hd]

theorem currentByName_none {s : BState} {n : String} (h : s.currentByName n = none)
    (hr : ∀ d ∈ s.currentData, d < s.defs.length) : n ∉ s.currentData.map (nameOf s.defs) := by
  unfold BState.currentByName at h
  rw [List.find?_eq_none] at h
  intro hin
  obtain ⟨d, hd, hn⟩ := List.mem_map.1 hin
  have := h d (List.mem_filter.2 ⟨hd, by simpa using hr d hd⟩)
  simp [nameOf] at hn this
  exact this hn

theorem NInv.addDatum {s : BState} (hb : BInv s) (h : NInv s) (i : Info) : NInv (s.addDatum i).1 := by
  unfold BState.addDatum
  split
  · exact h
  · rename_i hnone
    simp only [Option.isSome_iff_ne_none, ne_eq, Decidable.not_not] at hnone
    have hcur : ({ s with defs := s.defs ++ [i], toAdd := s.toAdd ++ [s.defs.length] } : BState).currentData
        = s.currentData ++ [s.defs.length] := by
      simp [currentData_eq]
    have hold : ∀ d, d < s.defs.length → info (s.defs ++ [i]) d = info s.defs d := fun d hd => info_append_left _ _ hd
    refine ⟨?_, ?_, ?_⟩
    · intro v hv
      simp only
      rw [map_nameOf_congr (fun d hd => hold d ((hb.vinv v hv).inRange d hd))]
      exact h.variants v hv
    · rw [hcur]
      simp only [List.map_append, List.map_singleton]
      rw [map_nameOf_congr (fun d hd => hold d (h.curRange d hd))]
      rw [List.nodup_append]
      refine ⟨h.current, by simp, ?_⟩
      intro a ha b hb'
      simp only [List.mem_singleton] at hb'
      subst hb'
      have hnm : nameOf (s.defs ++ [i]) s.defs.length = i.name := by unfold nameOf; rw [info_append_self]
      rw [hnm]
      intro heq
      exact currentByName_none hnone h.curRange (heq ▸ ha)
    · rw [hcur]
      intro d hd
      simp only [List.mem_append, List.mem_singleton] at hd
      rcases hd with hd | rfl
      · have := h.curRange d hd; simp; omega
      · simp

theorem NInv.of_sublist {s s' : BState} (h : NInv s) (hd : s'.defs = s.defs) (hv : s'.variants = s.variants)
    (hs : s'.currentData.Sublist s.currentData) : NInv s' := by
  refine ⟨?_, ?_, ?_⟩
  · rw [hd, hv]; exact h.variants
  · rw [hd]; exact h.current.sublist (hs.map _)
  · rw [hd]; intro d hdm; exact h.curRange d (hs.subset hdm)

theorem filter_sublist_of_imp {α : Type} {p q : α → Bool} (h : ∀ a, p a = true → q a = true) (l : List α) :
    (l.filter p).Sublist (l.filter q) := by
  induction l with
  | nil => simp
  | cons x xs ih =>
    simp only [List.filter_cons]
    by_cases hp : p x = true
    · simp only [hp, h x hp, if_true]; exact ih.cons₂ x
    · by_cases hq : q x = true
      · simp only [hp, hq, if_true]; exact ih.cons x
      · simp only [hp, hq]; exact ih

theorem NInv.removeDatum {s : BState} (h : NInv s) (id : Nat) : NInv (s.removeDatum id).1 := by
  have herase : NInv { s with toAdd := s.toAdd.erase id } := by
    refine h.of_sublist rfl rfl ?_
    simp only [currentData_eq]
    exact List.Sublist.append_left (List.erase_sublist) _
  have hrm : NInv { s with toRemove := s.toRemove ++ [id] } := by
    refine h.of_sublist rfl rfl ?_
    simp only [currentData_eq]
    refine List.Sublist.append_right ?_ _
    unfold removeData
    apply filter_sublist_of_imp
    intro a ha
    simp only [Bool.not_eq_true', List.contains_eq_mem, List.mem_append, decide_eq_false_iff_not] at ha ⊢
    exact fun hm => ha (Or.inl hm)
  unfold BState.removeDatum
  split
  · split
    · split
      · exact h
      · exact hrm
    · split
      · exact herase
      · exact h
  · split
    · exact herase
    · exact h

end Truc

namespace Truc

theorem BInv.close_spec {s : BState} (h : BInv s) {st : Strategy} (hn : st.isNative = true)
    (hp : s.hasPendingChanges = true) :
    ∃ defs' l', s.close st = some ({ defs := defs', variants := s.variants ++ [l'], toAdd := [], toRemove := [] },
        s.variants.length) ∧
      CloseOk s.defs (removeData ((s.variants.getLast?).getD []) s.toRemove) s.toAdd defs' l' := by
  obtain ⟨defs', l', hrun, hok⟩ := runStrategy_ok hn h.lastInv h.fresh
  refine ⟨defs', l', ?_, hok⟩
  unfold BState.close
  simp only [hp, Bool.not_true, Bool.false_eq_true, if_false, hrun]

theorem removeData_nil (l : List Nat) : removeData l [] = l := by
  unfold removeData; simp

theorem NInv.close {s : BState} (hb : BInv s) (h : NInv s) {st : Strategy} (hn : st.isNative = true) :
    ∀ s' vid, s.close st = some (s', vid) → NInv s' := by
  intro s' vid hc
  by_cases hp : s.hasPendingChanges = true
  · obtain ⟨defs', l', hc', hok⟩ := hb.close_spec hn hp
    rw [hc'] at hc
    simp only [Option.some.injEq, Prod.mk.injEq] at hc
    obtain ⟨rfl, _⟩ := hc
    have hname : ∀ d, nameOf defs' d = nameOf s.defs d := fun d => (hok.shape d).1
    have hcur : ({ defs := defs', variants := s.variants ++ [l'], toAdd := [], toRemove := [] } : BState).currentData = l' := by
      simp [currentData_eq, removeData_nil]
    have hl'names : (l'.map (nameOf defs')).Nodup := by
      have : l'.map (nameOf defs') = l'.map (nameOf s.defs) := List.map_congr_left (fun d _ => hname d)
      rw [this]
      have hperm := (hok.perm.map (nameOf s.defs))
      rw [← currentData_eq] at hperm
      exact hperm.nodup_iff.2 h.current
    refine ⟨?_, ?_, ?_⟩
    · intro v hv
      simp only [List.mem_append, List.mem_singleton] at hv
      rcases hv with hv | rfl
      · have : v.map (nameOf defs') = v.map (nameOf s.defs) := List.map_congr_left (fun d _ => hname d)
        simp only; rw [this]; exact h.variants v hv
      · exact hl'names
    · rw [hcur]; exact hl'names
    · rw [hcur]; exact hok.inv.inRange
  · unfold BState.close at hc
    simp only [hp, Bool.not_false, if_true, Option.some.injEq, Prod.mk.injEq] at hc
    obtain ⟨rfl, _⟩ := hc
    exact h

/-- both invariants, for every reachable state -/
theorem reachable_inv2 (reqs : List Req) (hv : ∀ r ∈ reqs, r.valid) : BInv (run reqs) ∧ NInv (run reqs) := by
  suffices h : ∀ (reqs : List Req) (s : BState), BInv s ∧ NInv s → (∀ r ∈ reqs, r.valid) →
      BInv (reqs.foldl Truc.step s) ∧ NInv (reqs.foldl Truc.step s) from h reqs _ ⟨BInv.init, NInv.init⟩ hv
  intro reqs
  induction reqs with
  | nil => intro s h _; exact h
  | cons r rest ih =>
    intro s h hv
    have hr := hv r List.mem_cons_self
    refine ih _ ⟨(h.1.step hr).1, ?_⟩ (fun r' hr' => hv r' (List.mem_cons_of_mem _ hr'))
    cases r with
    | add i => exact h.2.addDatum h.1 _
    | remove id => exact h.2.removeDatum id
    | close st =>
      obtain ⟨s', vid, hc, _⟩ := h.1.close hr
      simp only [Truc.step, hc]
      exact h.2.close h.1 hr s' vid hc

/-- a removal is accepted exactly when the datum is in the current (pending) view -/
theorem removeDatum_ok_iff {s : BState} (h : BInv s) (id : Nat) :
    (s.removeDatum id).2 = .ok () ↔ id ∈ s.currentData := by
  rw [currentData_eq, List.mem_append, mem_removeData]
  unfold BState.removeDatum
  cases hl : s.variants.getLast? with
  | none =>
    simp only [Option.getD_none, List.not_mem_nil, false_and, false_or]
    split <;> simp_all
  | some v =>
    simp only [Option.getD_some]
    have hvm : v ∈ s.variants := List.mem_of_getLast? hl
    by_cases hin : id ∈ v
    · have hna : id ∉ s.toAdd := fun ha => h.addFresh id ha v hvm hin
      by_cases hr : id ∈ s.toRemove <;> simp [hin, hr, hna]
    · by_cases ha : id ∈ s.toAdd <;> simp [hin, ha]

end Truc
