import TrucModel.Proofs.CloneSerdeProps
/-
  C15 — Serialising then deserialising a record gives an equal record.
  Model of the generated `Serialize` / `Deserialize` (visitor) at the level of field values; the
  codecs of the field types are assumed to round-trip (an element is `some v` exactly when it
  decodes to `v`).  serde, serde_json and bincode themselves are modelled by `SeqIn` (parameter).
-/
namespace Truc.Frag
open Truc.Gen Truc.Mach

/-- round trip, for both kinds of format (with and without a length hint), any number of fields
    (including none) -/
theorem C15_roundtrip (dr : String → Bool) (ds : List D) (vals : List Val) (h : vals.length = ds.length) (hinted : Bool) :
    deserialize dr ds ⟨hinted, serialize vals⟩ = .ok vals := by
  unfold deserialize
  have hl : (serialize vals).length = ds.length := by simp [serialize, h]
  simp only [hl, bne_self_eq_false, Bool.and_false, Bool.false_eq_true, if_false]
  rw [readElems_roundtrip dr ds vals [] 0 h]
  simp

/-- too few elements: rejected (`invalid_length` when the format announces the length, else
    `missing_field` at the first absent one) and exactly the already decoded values are dropped -/
theorem C15_too_few (dr : String → Bool) (ds : List D) (vals : List Val) (h : vals.length < ds.length) :
    deserialize dr ds ⟨true, serialize vals⟩ = .err .invalidLength [] ∧
    deserialize dr ds ⟨false, serialize vals⟩ = .err (.missingField vals.length) (vals.filter fun x => dr x.ty) := by
  have hl : (serialize vals).length = vals.length := by simp [serialize]
  constructor
  · unfold deserialize
    have : ((serialize vals).length != ds.length) = true := by simp [hl]; omega
    simp [this]
  · unfold deserialize
    simp only [Bool.false_and, Bool.false_eq_true, if_false]
    rw [readElems_short dr ds vals [] 0 h]
    simp

/-- an undecodable element at position `k`: rejected with that element's error, the `k` values
    decoded before it are dropped, nothing else -/
theorem C15_bad_element (dr : String → Bool) (ds : List D) (pre : List Val) (post : List (Option Val))
    (h : pre.length < ds.length) :
    deserialize dr ds ⟨false, serialize pre ++ none :: post⟩ = .err (.badElement pre.length) (pre.filter fun x => dr x.ty) := by
  unfold deserialize
  simp only [Bool.false_and, Bool.false_eq_true, if_false]
  suffices hs : ∀ (ds : List D) (pre acc : List Val) (k : Nat), pre.length < ds.length →
      readElems dr k ds (serialize pre ++ none :: post) acc = .err (.badElement (k + pre.length)) ((acc ++ pre).filter fun x => dr x.ty) by
    rw [hs ds pre [] 0 h]; simp
  intro ds
  induction ds with
  | nil => intro pre acc k h; simp at h
  | cons d ds ih =>
    intro pre acc k h
    cases pre with
    | nil => simp [serialize, readElems]
    | cons v vs =>
      simp only [serialize, List.map_cons, List.cons_append, readElems]
      have := ih vs (acc ++ [v]) (k + 1) (by simpa using h)
      simp only [serialize] at this
      rw [this]
      simp [Nat.add_comm, Nat.add_left_comm]

/-- too many elements: a length-announcing format is rejected by the hint check before anything is
    decoded; a self-describing format without hint is rejected by its end-of-sequence check, and the
    record that had been built is dropped (all of its values, once) -/
theorem C15_too_many (dr : String → Bool) (ds : List D) (vals : List Val) (extra : List (Option Val))
    (h : vals.length = ds.length) (hx : extra ≠ []) :
    deserialize dr ds ⟨true, serialize vals ++ extra⟩ = .err .invalidLength [] ∧
    deserialize dr ds ⟨false, serialize vals ++ extra⟩ = .err .trailing (vals.filter fun x => dr x.ty) := by
  have hlen : (serialize vals ++ extra).length = ds.length + extra.length := by simp [serialize, h]
  have hpos : 0 < extra.length := List.length_pos_iff.2 hx
  constructor
  · unfold deserialize
    have : ((serialize vals ++ extra).length != ds.length) = true := by rw [hlen]; simp; omega
    simp only [this, Bool.and_self, if_true]
  · unfold deserialize
    simp only [Bool.false_and, Bool.false_eq_true, if_false]
    suffices hs : ∀ (ds : List D) (vals acc : List Val) (k : Nat), vals.length = ds.length →
        readElems dr k ds (serialize vals ++ extra) acc = .ok (acc ++ vals) by
      rw [hs ds vals [] 0 h]
      have : decide ((serialize vals ++ extra).length > ds.length) = true := by rw [hlen]; simp; omega
      simp only [Bool.not_false, Bool.true_and, this, if_true, List.nil_append]
    intro ds
    induction ds with
    | nil => intro vals acc k h; simp at h; subst h; simp [readElems, serialize]
    | cons d ds ih =>
      intro vals acc k h
      cases vals with
      | nil => simp at h
      | cons v vs =>
        simp only [serialize, List.map_cons, List.cons_append, readElems]
        have := ih vs (acc ++ [v]) (k + 1) (by simpa using h)
        simp only [serialize] at this
        rw [this]; simp

/-- non-vacuity -/
example : deserialize (fun t => t == "H") [⟨0, "a", "H", 8, 8, 0, false⟩, ⟨1, "b", "P4", 4, 4, 8, false⟩]
    ⟨false, [some ⟨5, "H"⟩]⟩ = .err (.missingField 1) [⟨5, "H"⟩] := by decide +kernel

end Truc.Frag
