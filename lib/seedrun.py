#!/usr/bin/env python3
"""seedrun.py <seed-id> <worktree> <prop> [<prop>...]: store the seeded change under /verif/seeded/<seed-id>/, apply it to /repo,
run the listed checks (quick), undo it, and record which checks caught it in meta.json."""
import json, os, shutil, subprocess, sys, glob
sid, wt = sys.argv[1], sys.argv[2]
props = sys.argv[3:]
dst = f"/verif/seeded/{sid}"
os.makedirs(dst, exist_ok=True)
if wt != "-":
    for f in glob.glob(f"{wt}/seed/*"):
        if os.path.isdir(f):
            shutil.copytree(f, os.path.join(dst, os.path.basename(f)), dirs_exist_ok=True, ignore=shutil.ignore_patterns("target"))
        else:
            shutil.copy(f, dst)
    if os.path.exists(f"{wt}/seed.patch"):
        shutil.copy(f"{wt}/seed.patch", f"{dst}/patch.diff")
    if os.path.isdir(f"{wt}/seed_demo"):
        shutil.copytree(f"{wt}/seed_demo", f"{dst}/seed_demo", dirs_exist_ok=True, ignore=shutil.ignore_patterns("target", "*.lock", "generated_last.rs"))
# regenerate the patch from the worktree itself (library sources only)
    diff = subprocess.run(["git", "-C", wt, "diff", "--", "truc/src", "truc_runtime/src"], capture_output=True, text=True).stdout
    if diff.strip() and not os.path.exists(f"{wt}/seed.patch"):
        open(f"{dst}/patch.diff", "w").write(diff)
assert subprocess.run(["git", "-C", "/repo", "status", "--porcelain", "--untracked-files=no"], capture_output=True, text=True).stdout.strip() == "", "repo dirty"
r = subprocess.run(["git", "-C", "/repo", "apply", f"{dst}/patch.diff"], capture_output=True, text=True)
if r.returncode != 0:
    print("patch does not apply:", r.stderr); sys.exit(2)
results = {}
try:
    for p in props:
        r = subprocess.run(["./check", p], cwd="/verif", capture_output=True, text=True)
        line = [l for l in r.stdout.splitlines() if l.startswith(("VIOLATION", "OK", "KNOWN"))]
        results[p] = {"rc": r.returncode, "line": line[-1] if line else r.stdout[-200:] + r.stderr[-300:]}
        print(p, results[p])
        if "replay=" in results[p]["line"]:
            path = results[p]["line"].split("replay=")[1].split(" ")[0]
            try:
                results[p]["replay_head"] = open(path).read()[:1500]
            except OSError:
                pass
finally:
    subprocess.run(["git", "-C", "/repo", "checkout", "--", "."], check=True)
meta_p = f"{dst}/meta.json"
meta = json.load(open(meta_p)) if os.path.exists(meta_p) else {}
meta.setdefault("seed", sid)
meta["checks_run"] = results
meta["caught_by"] = sorted(p for p, v in results.items() if v["rc"] == 1)
json.dump(meta, open(meta_p, "w"), indent=1)
