import TrucModel.Model.Gen
/-
  Two of the compiler's rules for the generated function bodies (C13, "… and compiled"): a binding is
  used only while it is in scope and not moved out (E0382 / E0425), and `data` is written only when it was
  declared `mut` (E0596). Bodies are the structured statements of `Model/Gen.lean`; parameters are given
  by name.
-/
namespace Truc.Gen

structure CState where
  bound  : List (String × Bool) := []     -- binding, mutable?
  moved  : List String := []              -- bindings moved out as a whole
  fields : List (String × String) := []   -- fields moved out of a binding (`from.x`)
deriving Repr, Inhabited

def CState.usable (c : CState) (n : String) : Bool := (c.bound.lookup n).isSome && !c.moved.contains n

def CState.bind (c : CState) (n : String) (m : Bool) : CState :=
  { c with bound := (n, m) :: c.bound, moved := c.moved.filter (· != n), fields := c.fields.filter (·.1 != n) }

def CState.move (c : CState) (n : String) : CState := { c with moved := n :: c.moved }

/-- one statement; `none` = rustc rejects it -/
def checkStmt (c : CState) : Stmt → Option CState
  | .letBuf m => some (c.bind "data" m)
  | .safeFrom b _ _ a =>
    if c.usable a && !c.fields.any (·.1 == a) then some ((c.move a).bind b false) else none
  | .write d src =>
    if c.bound.lookup "data" == some true && !c.moved.contains "data" && c.usable src && !c.fields.contains (src, d.name)
    then some { c with fields := (src, d.name) :: c.fields } else none
  | .readLet b _ recv => if c.usable recv then some (c.bind b false) else none
  | .forgetSelf => if c.usable "self" then some (c.move "self") else none
  | .manuallyDrop => if c.usable "from" && !c.fields.any (·.1 == "from") then some ((c.move "from").bind "manually_drop" false) else none
  | .copyBuf m => if c.usable "manually_drop" then some (c.bind "data" m) else none
  | .retSelfData => if c.usable "data" then some (c.move "data") else none
  | .letRecord _ => if c.usable "data" then some ((c.move "data").bind "record" false) else none
  | .retStruct _ fs => if fs.all c.usable then some c else none
  | .get _ => if c.usable "self" then some c else none
  | .getMut _ => if c.usable "self" then some c else none
  | .raw _ => some c

def checkBody (c : CState) : List Stmt → Option CState
  | [] => some c
  | s :: rest => match checkStmt c s with | none => none | some c' => checkBody c' rest

/-- the parameters of a function, by name -/
def params (names : List String) : CState := { bound := names.map (·, false) }

/-- the bodies of one variant's functions together with their parameters -/
def variantBodies (s : Spec) : List (List String × List Stmt) :=
  [([if s.data.isEmpty then "_from" else "from"], (ctorNew s).body),
   (["from"], (ctorNewUninit s).body),
   (["self"], (unpackFn s).body),
   (["self"], (dropFn s).body)] ++
  (if s.hasPrev then
    [(false, false), (true, false), (false, true), (true, true)].map fun (u, o) =>
      (["from", if u || !s.plus.isEmpty then "plus" else "_plus"], (convFn s u o).body)
   else [])

def variantChecks (s : Spec) : Bool := (variantBodies s).all fun p => (checkBody (params p.1) p.2).isSome

end Truc.Gen
