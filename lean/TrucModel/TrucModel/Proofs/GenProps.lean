import TrucModel.Proofs.StaticProps
/-
  What the generator emits for capacity, alignment and the record types (used by C02, C03).
-/
namespace Truc.Gen

theorem go_align (d : Definition) (al : Nat) : ∀ (vs : List (List Nat)) (k : Nat) (prev : Option (List Nat)),
    ∀ s ∈ specs.go d al vs k prev, s.align = al := by
  intro vs
  induction vs with
  | nil => intro k prev s hs; simp [specs.go] at hs
  | cons v rest ih =>
    intro k prev s hs
    unfold specs.go at hs
    rcases List.mem_cons.1 hs with rfl | hs
    · rfl
    · exact ih _ _ s hs

/-- every `RecordSpec` carries the definition's `max_type_align()` -/
theorem specs_align (d : Definition) : ∀ s ∈ specs d, s.align = d.maxTypeAlign := go_align d _ d.variants 0 none

/-- the two items `RecordGenerator` emits for a variant -/
theorem fragRecord_mem_variantItems (cfg : Cfg) (s : Spec) : ∀ it ∈ fragRecord s, it ∈ variantItems cfg s := by
  intro it hit
  unfold variantItems
  simp only [List.mem_append]
  left; left; left; left; left; left; left; right
  exact hit

/-- the emitted module publishes the capacity `max_size()` as `MAX_SIZE`, imposes `max_type_align()`
    on `RecordUninitialized`, and contains, for every variant, a record struct with that same
    `repr(align)` and the single field `data: RecordMaybeUninit<CAP>` -/
theorem module_layout_items (d : Definition) (cfg : Cfg) (items : List Item) (h : module d cfg = some items) :
    ∃ ms, d.maxSize = some ms ∧
      Item.raw s!"pub const MAX_SIZE:usize={ms};" ∈ items ∧
      Item.raw (s!"#[repr(align({d.maxTypeAlign}))]pub struct RecordUninitialized<{CAPG}>" ++ "{_data:RecordMaybeUninit<CAP>,}") ∈ items ∧
      ∀ s ∈ specs d,
        Item.raw (s!"#[repr(align({d.maxTypeAlign}))]pub struct {capped s.vid}<{CAPG}>" ++ "{data:RecordMaybeUninit<CAP>,}") ∈ items := by
  unfold module at h
  cases hm : d.maxSize with
  | none => simp [hm] at h
  | some ms =>
    simp only [hm, Option.some.injEq] at h
    subst h
    refine ⟨ms, rfl, ?_, ?_, ?_⟩
    · simp
    · simp
    · intro s hs
      have hal := specs_align d s hs
      have hin : Item.raw (s!"#[repr(align({s.align}))]pub struct {capped s.vid}<{CAPG}>" ++ "{data:RecordMaybeUninit<CAP>,}") ∈ variantItems cfg s :=
        fragRecord_mem_variantItems cfg s _ (by simp [fragRecord])
      rw [hal] at hin
      simp only [List.mem_append]
      left; left; right
      exact List.mem_flatten.2 ⟨_, List.mem_map.2 ⟨s, hs, rfl⟩, hin⟩

/-- size and alignment of a `#[repr(align(A))]` struct whose only field is `cap` bytes of alignment 1
    (rustc's layout rule for `repr(align)`: modelled; validated by the `sizes` operation of channel X) -/
def recLayout (cap A : Nat) : Nat × Nat := ((cap + A - 1) / A * A, A)

end Truc.Gen

namespace Truc

/-- a spec of a definition: its data are a variant's ids in id order; the added fields are among them; the removed ones are data of the definition -/
theorem spec_of_mem (d : Definition) (s : Gen.Spec) (hs : s ∈ Gen.specs d) :
    ∃ v ∈ d.variants, s.data = (Gen.sortIds v).map (Gen.mkD d.defs) ∧ s.plus.Sublist s.data ∧
      ∀ x ∈ s.minus, ∃ id, x = Gen.mkD d.defs id := by
  suffices h : ∀ (vs : List (List Nat)) (k : Nat) (prev : Option (List Nat)), s ∈ Gen.specs.go d d.maxTypeAlign vs k prev →
      ∃ v ∈ vs, s.data = (Gen.sortIds v).map (Gen.mkD d.defs) ∧ s.plus.Sublist s.data ∧ ∀ x ∈ s.minus, ∃ id, x = Gen.mkD d.defs id from
    h d.variants 0 none hs
  intro vs
  induction vs with
  | nil => intro k prev h; simp [Gen.specs.go] at h
  | cons v rest ih =>
    intro k prev h
    unfold Gen.specs.go at h
    simp only [List.mem_cons] at h
    rcases h with rfl | h
    · refine ⟨v, List.mem_cons_self, rfl, ?_, ?_⟩
      · cases prev with
        | none => exact List.Sublist.refl _
        | some p => exact List.filter_sublist.map _
      · intro x hx
        cases prev with
        | none => simp at hx
        | some p =>
          simp only [List.mem_map] at hx
          obtain ⟨id, _, rfl⟩ := hx
          exact ⟨id, rfl⟩
    · obtain ⟨v', hv', h1, h2, h3⟩ := ih _ _ h
      exact ⟨v', List.mem_cons_of_mem _ hv', h1, h2, h3⟩

end Truc
