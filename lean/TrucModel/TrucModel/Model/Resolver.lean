import TrucModel.Model.TypeName
/-
  `StaticTypeResolver` (`record/type_resolver.rs`): an ordered table keyed by the normalised type
  name; registration refuses duplicates (panic); dynamic lookups normalise the requested name first.
-/
namespace Truc.Res

structure Entry where
  name   : String
  size   : Nat
  align  : Nat
  uninit : Bool
deriving Repr, DecidableEq, Inhabited

abbrev Table := List (String × Entry)

/-- `add_type` / `add_type_allow_uninit`; `none` = "Type … is already defined" panic -/
def register (t : Table) (key : String) (e : Entry) : Option Table :=
  if (t.lookup key).isSome then none else some (t ++ [(key, e)])

/-- `dynamic_type_info`; `none` = "Could not resolve type" / "syn type" panic -/
def lookup (t : Table) (requested : String) : Option Entry :=
  match TN.normalize requested with
  | some k => t.lookup k
  | none => none

/-- `type_info::<T>()` with `key` = `truc_type_name::<T>()` -/
def lookupKey (t : Table) (key : String) : Option Entry := t.lookup key

end Truc.Res
