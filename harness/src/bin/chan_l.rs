//! Channel L: drives the real builder / strategies / definition / replay helper and writes the
//! request lines (for the Lean model) and the implementation's canonical answers, line-aligned.
//!
//! usage: chan_l <mode> <seed> <count> <outdir> [shard nshards]
//!   mode = random | exhaustive-quick | exhaustive-thorough | file:<path>
use std::collections::{BTreeMap, BTreeSet};
use std::fmt::Write as _;
use std::io::Write as _;

use truc::generator::config::GeneratorConfig;
use truc::generator::fragment::clone::CloneImplGenerator;
use truc::generator::fragment::serde::SerdeImplGenerator;
use truc::generator::fragment::FragmentGenerator;
use truc::record::definition::builder::generic::variant as gvariant;
use truc::record::definition::builder::generic::GenericRecordDefinitionBuilder;
use truc::record::definition::builder::native::variant as nvariant;
use truc::record::definition::builder::native::{
    DatumDefinitionOverride, NativeRecordDefinitionBuilder,
};
use truc::record::definition::convert::convert_record_definition;
use truc::record::definition::{
    DatumDefinition, DatumId, NativeDatumDetails, RecordDefinition, RecordVariantId,
};
use truc::record::type_resolver::{DynamicTypeInfo, StaticTypeResolver, TypeInfo, TypeResolver};
use verif_harness::{catch, silence_panics, Rng};

const UNSET: usize = usize::MAX;

#[derive(Clone, Copy, PartialEq, Eq, Debug)]
enum Strat {
    Simple,
    Basic,
    Append,
    AppendRev,
    GAppend,
    GAppendRev,
}

impl Strat {
    fn name(self) -> &'static str {
        match self {
            Strat::Simple => "simple",
            Strat::Basic => "basic",
            Strat::Append => "append",
            Strat::AppendRev => "append_rev",
            Strat::GAppend => "gappend",
            Strat::GAppendRev => "gappend_rev",
        }
    }
    fn parse(s: &str) -> Option<Strat> {
        Some(match s {
            "simple" => Strat::Simple,
            "basic" => Strat::Basic,
            "append" => Strat::Append,
            "append_rev" => Strat::AppendRev,
            "gappend" => Strat::GAppend,
            "gappend_rev" => Strat::GAppendRev,
            _ => return None,
        })
    }
}

const NATIVE: [Strat; 4] = [Strat::Simple, Strat::Basic, Strat::Append, Strat::AppendRev];

/// Synthetic type table: what the resolver answers, deliberately not the host's numbers.
/// (key = truc type name, size, align, allow_uninit)
fn synthetic_table(which: usize) -> Vec<(&'static str, usize, usize, bool)> {
    match which {
        // ILP32-like
        0 => vec![
            ("()", 0, 1, true),
            ("u8", 1, 1, true),
            ("u16", 2, 2, true),
            ("u32", 4, 4, true),
            ("u64", 8, 4, true),
            ("u128", 16, 4, true),
            ("usize", 4, 4, true),
            ("[u8 ; 3]", 3, 1, true),
            ("[u16 ; 3]", 6, 2, true),
            ("String", 12, 4, false),
            ("Vec < () >", 12, 4, false),
            ("Option < u32 >", 8, 4, true),
        ],
        // odd: things no host would answer
        _ => vec![
            ("()", 0, 8, true),
            ("u8", 1, 1, true),
            ("u16", 2, 1, true),
            ("u32", 4, 2, true),
            ("u64", 8, 16, true),
            ("u128", 24, 8, true),
            ("usize", 5, 1, true),
            ("[u8 ; 3]", 3, 1, true),
            ("[u16 ; 3]", 6, 2, true),
            ("String", 12, 4, false),
            ("Vec < () >", 16, 16, false),
            ("Option < u32 >", 0, 2, true),
        ],
    }
}

fn make_resolver(which: usize) -> StaticTypeResolver {
    let mut m = BTreeMap::new();
    for (n, s, a, u) in synthetic_table(which) {
        m.insert(
            n.to_string(),
            DynamicTypeInfo {
                info: TypeInfo {
                    name: n.to_string(),
                    size: s,
                    align: a,
                },
                allow_uninit: u,
            },
        );
    }
    StaticTypeResolver::from(m)
}

/// the resolver handed to the native builder: the table itself, or the table behind a reference
/// (`NativeRecordDefinitionBuilder::new(&resolver)`, the way the example build scripts pass it), i.e. through
/// the blanket `impl TypeResolver for &R`
struct AnyRes { inner: StaticTypeResolver, by_ref: bool }

impl TypeResolver for AnyRes {
    fn type_info<T>(&self) -> TypeInfo {
        if self.by_ref { <&StaticTypeResolver as TypeResolver>::type_info::<T>(&&self.inner) } else { self.inner.type_info::<T>() }
    }
    fn dynamic_type_info(&self, type_name: &str) -> DynamicTypeInfo {
        if self.by_ref { <&StaticTypeResolver as TypeResolver>::dynamic_type_info(&&self.inner, type_name) } else { self.inner.dynamic_type_info(type_name) }
    }
}

enum Sut {
    Native(NativeRecordDefinitionBuilder<AnyRes>),
    Generic(GenericRecordDefinitionBuilder<NativeDatumDetails>),
}

#[derive(Clone, Debug)]
struct AddReq {
    name: String,
    ty: String,
    size: usize,
    align: usize,
    uninit: bool,
    entry: &'static str, // override | typed | uninit | dynamic | copy | generic
}

macro_rules! typed_dispatch {
    ($b:expr, $ty:expr, $name:expr, $method:ident) => {
        match $ty {
            "()" => $b.$method::<(), _>($name),
            "u8" => $b.$method::<u8, _>($name),
            "u16" => $b.$method::<u16, _>($name),
            "u32" => $b.$method::<u32, _>($name),
            "u64" => $b.$method::<u64, _>($name),
            "u128" => $b.$method::<u128, _>($name),
            "usize" => $b.$method::<usize, _>($name),
            "[u8 ; 3]" => $b.$method::<[u8; 3], _>($name),
            "[u16 ; 3]" => $b.$method::<[u16; 3], _>($name),
            "Option < u32 >" => $b.$method::<Option<u32>, _>($name),
            other => panic!("harness: no typed dispatch for {}", other),
        }
    };
}

macro_rules! override_dispatch {
    ($b:expr, $ty:expr, $name:expr, $ov:expr) => {
        match $ty {
            "()" => $b.add_datum_override::<(), _>($name, $ov),
            "u8" => $b.add_datum_override::<u8, _>($name, $ov),
            "u16" => $b.add_datum_override::<u16, _>($name, $ov),
            "u32" => $b.add_datum_override::<u32, _>($name, $ov),
            "u64" => $b.add_datum_override::<u64, _>($name, $ov),
            "u128" => $b.add_datum_override::<u128, _>($name, $ov),
            "usize" => $b.add_datum_override::<usize, _>($name, $ov),
            "[u8 ; 3]" => $b.add_datum_override::<[u8; 3], _>($name, $ov),
            "[u16 ; 3]" => $b.add_datum_override::<[u16; 3], _>($name, $ov),
            "Option < u32 >" => $b.add_datum_override::<Option<u32>, _>($name, $ov),
            "String" => $b.add_datum_override::<String, _>($name, $ov),
            "Vec < () >" => $b.add_datum_override::<Vec<()>, _>($name, $ov),
            other => panic!("harness: no override dispatch for {}", other),
        }
    };
}

impl Sut {
    fn add(&mut self, r: &AddReq) -> Result<usize, String> {
        let id = match self {
            Sut::Generic(b) => b.add_datum(
                r.name.clone(),
                NativeDatumDetails::new(
                    UNSET,
                    TypeInfo {
                        name: r.ty.clone(),
                        size: r.size,
                        align: r.align,
                    },
                    r.uninit,
                ),
            ),
            Sut::Native(b) => match r.entry {
                "override" => b.add_datum_override::<(), _>(
                    r.name.clone(),
                    DatumDefinitionOverride {
                        type_name: Some(r.ty.clone()),
                        size: Some(r.size),
                        align: Some(r.align),
                        allow_uninit: Some(r.uninit),
                    },
                ),
                // partial overrides: what is left unspecified must come from the resolver, not from the host
                "ovr-n" => override_dispatch!(b, r.ty.as_str(), r.name.clone(), DatumDefinitionOverride { type_name: None, size: None, align: None, allow_uninit: None }),
                "ovr-s" => override_dispatch!(b, r.ty.as_str(), r.name.clone(), DatumDefinitionOverride { type_name: None, size: Some(r.size), align: None, allow_uninit: Some(r.uninit) }),
                "ovr-a" => override_dispatch!(b, r.ty.as_str(), r.name.clone(), DatumDefinitionOverride { type_name: None, size: None, align: Some(r.align), allow_uninit: Some(r.uninit) }),
                "typed" => match r.ty.as_str() {
                    "String" => b.add_datum::<String, _>(r.name.clone()),
                    "Vec < () >" => b.add_datum::<Vec<()>, _>(r.name.clone()),
                    t => typed_dispatch!(b, t, r.name.clone(), add_datum),
                },
                "uninit" => typed_dispatch!(b, r.ty.as_str(), r.name.clone(), add_datum_allow_uninit),
                "dynamic" => {
                    // the caller's spelling is not the canonical one: extra / no whitespace, fully qualified std paths
                    // (a fresh heap string each time). Lookups are normalised and the canonical name is what gets recorded.
                    let spelled = match r.name.len() % 3 {
                        0 => r.ty.replace(" ", "  "),
                        1 => r.ty.replace(" ", ""),
                        _ => r.ty.replace("String", "alloc::string::String").replace("Vec", "alloc::vec::Vec").replace("Option", "core::option::Option"),
                    };
                    b.add_dynamic_datum(r.name.clone(), spelled)
                }
                "copy" => {
                    let src = DatumDefinition::new(
                        DatumId::from(777usize),
                        r.name.clone(),
                        NativeDatumDetails::new(
                            1234,
                            TypeInfo {
                                name: r.ty.clone(),
                                size: r.size,
                                align: r.align,
                            },
                            r.uninit,
                        ),
                    );
                    b.copy_datum(&src)
                }
                e => panic!("harness: entry {}", e),
            },
        }?;
        Ok(usize_of(id))
    }
    fn rm(&mut self, id: usize) -> Result<(), String> {
        match self {
            Sut::Native(b) => b.remove_datum(DatumId::from(id)),
            Sut::Generic(b) => b.remove_datum(DatumId::from(id)),
        }
    }
    fn close(&mut self, s: Strat) -> usize {
        let v = match self {
            Sut::Native(b) => match s {
                Strat::Simple => b.close_record_variant_with(nvariant::simple),
                Strat::Basic => b.close_record_variant_with(nvariant::basic),
                Strat::Append => b.close_record_variant_with(nvariant::append_data),
                Strat::AppendRev => b.close_record_variant_with(nvariant::append_data_reverse),
                Strat::GAppend => b.close_record_variant_with(gvariant::append_data),
                Strat::GAppendRev => b.close_record_variant_with(gvariant::append_data_reverse),
            },
            Sut::Generic(b) => match s {
                Strat::Simple => b.close_record_variant_with(nvariant::simple),
                Strat::Basic => b.close_record_variant_with(nvariant::basic),
                Strat::Append => b.close_record_variant_with(nvariant::append_data),
                Strat::AppendRev => b.close_record_variant_with(nvariant::append_data_reverse),
                Strat::GAppend => b.close_record_variant_with(gvariant::append_data),
                Strat::GAppendRev => b.close_record_variant_with(gvariant::append_data_reverse),
            },
        };
        vid_of(v)
    }
    fn cur(&self) -> Vec<usize> {
        match self {
            Sut::Native(b) => b.get_current_data().map(usize_of).collect(),
            Sut::Generic(b) => b.get_current_data().map(usize_of).collect(),
        }
    }
    fn byname(&self, n: &str) -> Option<usize> {
        match self {
            Sut::Native(b) => b.get_current_datum_definition_by_name(n).map(|d| usize_of(d.id())),
            Sut::Generic(b) => b.get_current_datum_definition_by_name(n).map(|d| usize_of(d.id())),
        }
    }
    fn vbyname(&self, v: usize, n: &str) -> Option<usize> {
        match self {
            Sut::Native(b) => b
                .get_variant_datum_definition_by_name(RecordVariantId::from(v), n)
                .map(|d| usize_of(d.id())),
            Sut::Generic(b) => b
                .get_variant_datum_definition_by_name(RecordVariantId::from(v), n)
                .map(|d| usize_of(d.id())),
        }
    }
    fn get(&self, id: usize) -> Option<String> {
        let f = |d: &DatumDefinition<NativeDatumDetails>| info_str(d);
        match self {
            Sut::Native(b) => catch(|| f(&b[DatumId::from(id)])).ok(),
            Sut::Generic(b) => b.get_datum_definition(DatumId::from(id)).map(f),
        }
    }
    fn variant(&self, v: usize) -> Option<Vec<usize>> {
        match self {
            Sut::Native(b) => catch(|| b[RecordVariantId::from(v)].data().map(usize_of).collect()).ok(),
            Sut::Generic(b) => b
                .get_variant(RecordVariantId::from(v))
                .map(|x| x.data().map(usize_of).collect()),
        }
    }
    fn layout(&self, id: usize) -> Option<(usize, usize, usize)> {
        let f = |d: &DatumDefinition<NativeDatumDetails>| {
            (d.details().offset(), d.details().size(), d.details().type_align())
        };
        match self {
            Sut::Native(b) => catch(|| f(&b[DatumId::from(id)])).ok(),
            Sut::Generic(b) => b.get_datum_definition(DatumId::from(id)).map(f),
        }
    }
    fn type_name(&self, id: usize) -> Option<String> {
        let f = |d: &DatumDefinition<NativeDatumDetails>| d.details().type_name().to_string();
        match self {
            Sut::Native(b) => catch(|| f(&b[DatumId::from(id)])).ok(),
            Sut::Generic(b) => b.get_datum_definition(DatumId::from(id)).map(f),
        }
    }
    fn build(self) -> RecordDefinition<NativeDatumDetails> {
        match self {
            Sut::Native(b) => b.build(),
            Sut::Generic(b) => b.build(),
        }
    }
}

fn usize_of(id: DatumId) -> usize {
    format!("{}", id).parse().unwrap()
}
fn vid_of(id: RecordVariantId) -> usize {
    format!("{}", id).parse().unwrap()
}
fn off_str(o: usize) -> String {
    if o == UNSET {
        "-".to_string()
    } else {
        o.to_string()
    }
}
fn info_str(d: &DatumDefinition<NativeDatumDetails>) -> String {
    format!(
        "{} {} {} {} {} {}",
        d.name(),
        d.details().type_name(),
        d.details().size(),
        d.details().type_align(),
        off_str(d.details().offset()),
        if d.details().allow_uninit() { 1 } else { 0 }
    )
}
fn join(v: &[usize]) -> String {
    v.iter().map(|x| x.to_string()).collect::<Vec<_>>().join(",")
}

fn err_class(e: &str) -> &'static str {
    if e.contains("already exists in current variant") {
        "dup"
    } else if e.contains("is already removed") {
        "already"
    } else if e.contains("in previous variant") {
        "noprev"
    } else if e.contains("in variant being built") {
        "nocur"
    } else {
        "other"
    }
}

/// Independent decidable oracles over the implementation's own outputs (used only to turn a broken
/// proof/correspondence into a concrete failing input; they never decide a pass).
#[derive(Default)]
struct Oracle {
    hits: Vec<(String, String)>, // (property, message)
    snapshots: BTreeMap<usize, (usize, usize, usize)>, // id -> layout at first close containing it
    prev_variant: Option<Vec<usize>>,
    pending_add: Vec<usize>,
    pending_rm: Vec<usize>,
    ids_seen: BTreeSet<usize>,
    last_id: Option<usize>,
    all_variants: Vec<Vec<usize>>,
    names: BTreeMap<usize, String>,
    native_layout: bool,
}

impl Oracle {
    /// names of the current (pending) view according to the requests accepted so far
    fn current_names(&self) -> Vec<(usize, String)> {
        let mut ids: Vec<usize> = self.prev_variant.clone().unwrap_or_default().into_iter().filter(|d| !self.pending_rm.contains(d)).collect();
        ids.extend(self.pending_add.iter().cloned());
        ids.into_iter().filter_map(|d| self.names.get(&d).map(|n| (d, n.clone()))).collect()
    }
    fn hit(&mut self, p: &str, m: String) {
        if self.hits.len() < 20 {
            self.hits.push((p.to_string(), m));
        }
    }
    fn on_add(&mut self, id: usize, name: &str) {
        if !self.ids_seen.insert(id) {
            self.hit("C12", format!("id {} returned twice", id));
        }
        if let Some(l) = self.last_id {
            if id <= l {
                self.hit("C12", format!("id {} not greater than previous {}", id, l));
            }
        }
        self.last_id = Some(id);
        self.pending_add.push(id);
        self.names.insert(id, name.to_string());
    }
    fn on_rm(&mut self, id: usize) {
        let in_prev = self.prev_variant.as_ref().map(|v| v.contains(&id)).unwrap_or(false) && !self.pending_rm.contains(&id);
        if !in_prev && !self.pending_add.contains(&id) {
            self.hit("C12", format!("removal of datum {} accepted although it is not in the current variant (absent, stale or already removed)", id));
        }
        if let Some(p) = self.pending_add.iter().position(|&x| x == id) {
            self.pending_add.remove(p);
        } else {
            self.pending_rm.push(id);
        }
    }
    fn on_close(&mut self, created: bool, list: &[usize], lay: &dyn Fn(usize) -> (usize, usize, usize)) {
        if !created {
            if !self.pending_add.is_empty() || !self.pending_rm.is_empty() {
                self.hit("C12", "close with pending changes created no variant".into());
            }
            return;
        }
        // closing with nothing pending (every addition of the step cancelled again, or nothing requested) creates no variant
        if self.prev_variant.is_some() && self.pending_add.is_empty() && self.pending_rm.is_empty() {
            self.hit("C12", "close with no pending change created a new variant".into());
        }
        // C12 membership
        let mut expect: BTreeSet<usize> = self.prev_variant.clone().unwrap_or_default().into_iter().collect();
        for r in &self.pending_rm {
            expect.remove(r);
        }
        for a in &self.pending_add {
            expect.insert(*a);
        }
        let got: BTreeSet<usize> = list.iter().cloned().collect();
        if got != expect || got.len() != list.len() {
            self.hit("C12", format!("variant {:?} is not prev - removed + added = {:?}", list, expect));
        }
        let mut seen_names = BTreeSet::new();
        for d in list {
            if let Some(n) = self.names.get(d) {
                if !seen_names.insert(n.clone()) {
                    self.hit("C12", format!("name {} twice in variant {:?}", n, list));
                }
            }
        }
        if self.native_layout {
            // C01 overlap, C02 alignment/order
            for (i, &a) in list.iter().enumerate() {
                let (oa, sa, aa) = lay(a);
                if oa == UNSET {
                    self.hit("C02", format!("datum {} has no offset", a));
                    continue;
                }
                if aa != 0 && oa % aa != 0 {
                    self.hit("C02", format!("datum {} offset {} not aligned to {}", a, oa, aa));
                }
                for &b in &list[i + 1..] {
                    let (ob, sb, _) = lay(b);
                    if ob == UNSET {
                        continue;
                    }
                    if sa > 0 && sb > 0 {
                        if oa < ob + sb && ob < oa + sa {
                            self.hit("C01", format!("data {} [{},{}) and {} [{},{}) overlap", a, oa, oa + sa, b, ob, ob + sb));
                        }
                        if ob <= oa {
                            self.hit("C02", format!("data {} @{} listed before {} @{}: not in address order", a, oa, b, ob));
                        }
                    }
                }
            }
            // C03 stability
            for &d in list {
                let l = lay(d);
                match self.snapshots.get(&d) {
                    Some(s) if *s != l => {
                        self.hit("C03", format!("datum {} moved/changed {:?} -> {:?}", d, s, l));
                    }
                    None => {
                        self.snapshots.insert(d, l);
                    }
                    _ => {}
                }
            }
            let snap: Vec<(usize, (usize, usize, usize))> = self.snapshots.iter().map(|(k, v)| (*k, *v)).collect();
            for (d, s) in snap {
                let l = lay(d);
                if l != s {
                    self.hit("C03", format!("datum {} of an earlier variant moved/changed {:?} -> {:?}", d, s, l));
                }
            }
        }
        self.prev_variant = Some(list.to_vec());
        self.all_variants.push(list.to_vec());
        self.pending_add.clear();
        self.pending_rm.clear();
    }
}

struct Out {
    req: std::io::BufWriter<std::fs::File>,
    imp: std::io::BufWriter<std::fs::File>,
    ora: std::io::BufWriter<std::fs::File>,
    lines: usize,
}

// ---- watchdog: a request the implementation never answers (non-termination) ends the run with the history that hangs
static TICK: std::sync::atomic::AtomicU64 = std::sync::atomic::AtomicU64::new(0);
static HIST: std::sync::Mutex<Vec<String>> = std::sync::Mutex::new(Vec::new());
static PENDING: std::sync::Mutex<String> = std::sync::Mutex::new(String::new());

fn pending(line: &str) {
    if let Ok(mut p) = PENDING.lock() { p.clear(); p.push_str(line); }
}

fn start_watchdog(outdir: String) {
    let limit: u64 = std::env::var("VERIF_L_HANG_S").ok().and_then(|s| s.parse().ok()).unwrap_or(120);
    std::thread::spawn(move || {
        let mut last = TICK.load(std::sync::atomic::Ordering::Relaxed);
        let mut since = std::time::Instant::now();
        loop {
            std::thread::sleep(std::time::Duration::from_millis(500));
            let now = TICK.load(std::sync::atomic::Ordering::Relaxed);
            if now != last { last = now; since = std::time::Instant::now(); continue; }
            if since.elapsed().as_secs() >= limit {
                let h = HIST.lock().map(|h| h.clone()).unwrap_or_default();
                let p = PENDING.lock().map(|p| p.clone()).unwrap_or_default();
                let mut txt = h.join("\n");
                txt.push('\n');
                if !p.is_empty() { txt.push_str(&p); txt.push('\n'); }
                let _ = std::fs::write(format!("{}/hang.txt", outdir), txt);
                std::process::exit(3);
            }
        }
    });
}

impl Out {
    fn emit(&mut self, req: &str, imp: &str) {
        TICK.fetch_add(1, std::sync::atomic::Ordering::Relaxed);
        if let Ok(mut h) = HIST.lock() {
            if req.starts_with("reset") { h.clear(); }
            h.push(req.to_string());
        }
        pending("");
        writeln!(self.req, "{}", req).unwrap();
        writeln!(self.imp, "{}", imp).unwrap();
        self.lines += 1;
    }
}

/// One history being driven: issues requests to the implementation, logs both sides.
struct Session<'a> {
    sut: Option<Sut>,
    def: Option<RecordDefinition<NativeDatumDetails>>,
    out: &'a mut Out,
    ora: Oracle,
    hist: usize,
    n_ids: usize,
    dead: bool,
    generic_strats: bool,
    stats: &'a mut Stats,
}

#[derive(Default)]
struct Stats {
    histories: usize,
    requests: usize,
    closes: BTreeMap<String, usize>,
    errors: BTreeMap<String, usize>,
    variants_hist: BTreeMap<usize, usize>,
    zst_histories: usize,
    add_then_remove: usize,
    strategy_switches: BTreeMap<usize, usize>,
    entries: BTreeMap<String, usize>,
    panics: usize,
}

impl<'a> Session<'a> {
    fn new(out: &'a mut Out, stats: &'a mut Stats, hist: usize, kind: &str, table: usize, generic_strats: bool, by_ref: bool) -> Self {
        let sut = if kind == "native" {
            Sut::Native(NativeRecordDefinitionBuilder::new(AnyRes { inner: make_resolver(table), by_ref }))
        } else {
            Sut::Generic(GenericRecordDefinitionBuilder::new())
        };
        out.emit(&format!("reset {} {} {} {}", kind, table, if generic_strats { "g" } else { "n" }, if by_ref { "ref" } else { "val" }), "--");
        let mut ora = Oracle::default();
        ora.native_layout = !generic_strats;
        stats.histories += 1;
        Session { sut: Some(sut), def: None, out, ora, hist, n_ids: 0, dead: false, generic_strats, stats }
    }
    /// a type the resolver's table does not contain must be refused by every entry point that consults the resolver
    /// (never answered with the host's own size / alignment): `unreg <k>`
    fn unregistered(&mut self, k: usize) {
        if self.dead || self.sut.is_none() { return; }
        let line = format!("unreg {}", k);
        let name = format!("zz_unreg_{}", self.n_ids);
        let res = match self.sut.as_mut().unwrap() {
            Sut::Native(b) => catch(|| match k % 4 {
                0 => b.add_datum::<Vec<u32>, _>(name.clone()).map(usize_of),
                1 => b.add_datum_allow_uninit::<[u32; 11], _>(name.clone()).map(usize_of),
                2 => b.add_dynamic_datum(name.clone(), "Option<Option<u8>>").map(usize_of),
                _ => b.add_datum_override::<(u8, u64), _>(name.clone(), DatumDefinitionOverride { type_name: None, size: None, align: Some(2), allow_uninit: None }).map(usize_of),
            }),
            Sut::Generic(_) => return,
        };
        match res {
            Err(_) => self.out.emit(&line, "refused"),
            Ok(r) => {
                let what = match &r { Ok(id) => format!("accepted as datum {} with size/alignment {:?}", id, self.sut.as_ref().unwrap().layout(*id).map(|l| (l.1, l.2))), Err(e) => format!("answered with the error `{}` instead of refusing the type", e) };
                self.out.emit(&line, "accepted");
                self.ora.hit("C18", format!("entry point #{} given a type that is not in the resolver's table: {}", k % 4, what));
                self.dead = true;
            }
        }
    }
    fn add(&mut self, r: &AddReq) -> Option<usize> {
        if self.dead || self.sut.is_none() { return None; }
        self.stats.requests += 1;
        *self.stats.entries.entry(r.entry.to_string()).or_default() += 1;
        let line = format!("add {} {} {} {} {} {}", r.name, r.ty.replace(' ', "_"), r.size, r.align, if r.uninit { 1 } else { 0 }, r.entry);
        let before_cur = self.sut.as_ref().unwrap().cur();
        let res = catch(|| self.sut.as_mut().unwrap().add(r));
        match res {
            Ok(Ok(id)) => {
                self.out.emit(&line, &format!("ok {}", id));
                if self.ora.current_names().iter().any(|(_, n)| n == &r.name) {
                    self.ora.hit("C12", format!("datum named {} accepted although that name is already in the current variant", r.name));
                }
                // C18 oracle: what was recorded is what the resolver / the explicit override supplied
                if let Some((_, sz, al)) = self.sut.as_ref().unwrap().layout(id) {
                    if sz != r.size || al != r.align {
                        self.ora.hit("C18", format!("entry point `{}` recorded {}/{} for datum {} of type {}, the resolver / override supplied {}/{}", r.entry, sz, al, id, r.ty, r.size, r.align));
                    }
                }
                // C17: whatever the caller's spelling, the recorded type name is the canonical one (the table's key); explicit
                // names (override, copy, generic) are recorded verbatim
                if let Some(tn) = self.sut.as_ref().unwrap().type_name(id) {
                    if tn != r.ty {
                        let p = if matches!(r.entry, "dynamic" | "typed" | "uninit" | "ovr-n" | "ovr-s" | "ovr-a") { "C17" } else { "C18" };
                        self.ora.hit(p, format!("entry point `{}` recorded the type name `{}` for datum {}, expected `{}`", r.entry, tn, id, r.ty));
                        if r.entry == "copy" { self.ora.hit("C20", format!("copy_datum recorded the type name `{}` for a datum whose source says `{}`", tn, r.ty)); }
                    }
                }
                self.ora.on_add(id, &r.name);
                self.n_ids = self.n_ids.max(id + 1);
                Some(id)
            }
            Ok(Err(e)) => {
                let c = err_class(&e);
                *self.stats.errors.entry(c.to_string()).or_default() += 1;
                self.out.emit(&line, &format!("err {}", c));
                let after = self.sut.as_ref().unwrap().cur();
                if after != before_cur {
                    self.ora.hit("C12", format!("rejected add changed the current data {:?} -> {:?}", before_cur, after));
                }
                if !self.ora.current_names().iter().any(|(_, n)| n == &r.name) {
                    self.ora.hit("C12", format!("valid request rejected: no datum named {} is in the current variant ({})", r.name, e));
                }
                None
            }
            Err(p) => {
                self.out.emit(&line, &format!("panic {}", p.replace('\n', " ")));
                self.dead = true;
                None
            }
        }
    }
    fn rm(&mut self, id: usize) -> bool {
        if self.dead || self.sut.is_none() { return false; }
        self.stats.requests += 1;
        let line = format!("rm {}", id);
        let before_cur = self.sut.as_ref().unwrap().cur();
        match self.sut.as_mut().unwrap().rm(id) {
            Ok(()) => {
                if self.ora.pending_add.contains(&id) {
                    self.stats.add_then_remove += 1;
                }
                self.ora.on_rm(id);
                self.out.emit(&line, "ok");
                true
            }
            Err(e) => {
                let c = err_class(&e);
                *self.stats.errors.entry(c.to_string()).or_default() += 1;
                self.out.emit(&line, &format!("err {}", c));
                let after = self.sut.as_ref().unwrap().cur();
                if after != before_cur {
                    self.ora.hit("C12", format!("rejected removal changed the current data {:?} -> {:?}", before_cur, after));
                }
                false
            }
        }
    }
    fn close(&mut self, s: Strat) -> Option<usize> {
        if self.dead || self.sut.is_none() { return None; }
        self.stats.requests += 1;
        *self.stats.closes.entry(s.name().to_string()).or_default() += 1;
        let line = format!("close {}", s.name());
        pending(&line);
        let before = self.ora.all_variants.len();
        let res = catch(|| self.sut.as_mut().unwrap().close(s));
        match res {
            Ok(vid) => {
                let sut = self.sut.as_ref().unwrap();
                let list = sut.variant(vid).unwrap_or_default();
                let lays: Vec<(usize, usize, usize)> = (0..self.n_ids).map(|i| sut.layout(i).unwrap_or((UNSET, 0, 0))).collect();
                let ds = lays.iter().map(|(o, s, a)| format!("{},{},{}", off_str(*o), s, a)).collect::<Vec<_>>().join(";");
                self.out.emit(&line, &format!("v {} [{}] {}", vid, join(&list), ds));
                let created = vid == before;
                let l2 = lays.clone();
                self.ora.on_close(created, &list, &move |i| l2.get(i).cloned().unwrap_or((UNSET, 0, 0)));
                Some(vid)
            }
            Err(_p) => {
                self.stats.panics += 1;
                self.out.emit(&line, "panic");
                self.dead = true;
                None
            }
        }
    }
    fn query(&mut self, q: &str) {
        if self.dead || self.sut.is_none() { return; }
        self.stats.requests += 1;
        let sut = self.sut.as_ref().unwrap();
        let toks: Vec<&str> = q.split(' ').collect();
        let ans = match toks[0] {
            "cur" => format!("ids {}", join(&sut.cur())),
            "byname" => {
                let got = sut.byname(toks[1]);
                let want = self.ora.current_names().iter().find(|(_, n)| n == toks[1]).map(|(d, _)| *d);
                if got != want {
                    self.ora.hit("C12", format!("lookup of {} in the current variant gives {:?}, the current variant has {:?}", toks[1], got, want));
                }
                got.map(|i| format!("some {}", i)).unwrap_or("none".into())
            }
            "vbyname" => {
                let v: usize = toks[1].parse().unwrap();
                let got = sut.vbyname(v, toks[2]);
                // a closed variant answers from its own list, whatever is pending for the next one
                if let Some(list) = self.ora.all_variants.get(v) {
                    let want = list.iter().cloned().find(|d| self.ora.names.get(d).map(|n| n == toks[2]).unwrap_or(false));
                    if got != want {
                        self.ora.hit("C12", format!("lookup of {} in closed variant {} gives {:?}, that variant holds {:?}", toks[2], v, got, want));
                    }
                }
                got.map(|i| format!("some {}", i)).unwrap_or("none".into())
            }
            "get" => sut.get(toks[1].parse().unwrap()).map(|i| format!("some {}", i)).unwrap_or("none".into()),
            "variant" => sut.variant(toks[1].parse().unwrap()).map(|l| format!("some [{}]", join(&l))).unwrap_or("none".into()),
            _ => "bad-op".into(),
        };
        self.out.emit(q, &ans);
    }
    fn build(&mut self) {
        if self.dead || self.sut.is_none() { return; }
        self.stats.requests += 1;
        let sut = self.sut.take().unwrap();
        match catch(|| sut.build()) {
            Ok(d) => {
                // the built definition says, for every datum of every variant, what the builder said when it placed it
                let mut bad: Vec<String> = vec![];
                for v in d.variants() {
                    for id in v.data() {
                        let k = usize_of(id);
                        match d.get_datum_definition(id) {
                            None => bad.push(format!("datum #{} of a variant has no definition in the built record definition", k)),
                            Some(dd) => {
                                if let Some(n) = self.ora.names.get(&k) {
                                    if n != dd.name() { bad.push(format!("datum #{} was added as `{}`, the built definition calls it `{}`", k, n, dd.name())); }
                                }
                                if self.ora.native_layout {
                                    if let Some(&(o, sz, al)) = self.ora.snapshots.get(&k) {
                                        let now = (dd.details().offset(), dd.details().size(), dd.details().type_align());
                                        if now != (o, sz, al) { bad.push(format!("datum #{} was placed at offset {} (size {}, alignment {}), the built definition says {:?}", k, o, sz, al, now)); }
                                    }
                                }
                            }
                        }
                    }
                }
                bad.dedup();
                for b in bad.into_iter().take(3) { self.ora.hit("C03", b); }
                self.def = Some(d);
                self.out.emit("build", "ok");
            }
            Err(_) => {
                self.stats.panics += 1;
                self.dead = true;
                self.out.emit("build", "panic");
            }
        }
    }
    fn def_queries(&mut self, replay: Option<Strat>) {
        self.def_basic();
        if let Some(st) = replay { self.def_replay(st); }
    }
    fn def_basic(&mut self) {
        if self.dead { return; }
        let Some(def) = self.def.take() else { return };
        self.def_basic_inner(&def);
        self.def = Some(def);
    }
    fn gen(&mut self, flags: &str) {
        if self.dead { return; }
        let Some(def) = self.def.take() else { return };
        self.stats.requests += 1;
        let mut custom: Vec<Box<dyn FragmentGenerator>> = vec![];
        if flags.contains('c') { custom.push(Box::new(CloneImplGenerator)); }
        if flags.contains('s') { custom.push(Box::new(SerdeImplGenerator)); }
        let cfg = GeneratorConfig::default_with_custom_generators(custom);
        let res = catch(|| truc::generator::generate(&def, &cfg));
        let line = format!("gen {}", flags);
        match res {
            Err(e) => {
                self.ora.hit("C13", format!("generate() panicked: {}", e));
                self.out.emit(&line, "panic");
            }
            Ok(text) => match verif_harness::irdump::dump(&text) {
                Ok(lines) => {
                    // C19: a second generation in the same process must be byte-identical
                    let again = truc::generator::generate(&def, &cfg);
                    if again != text { self.ora.hit("C19", "two generations of the same definition differ in one process".into()); }
                    self.out.emit(&line, &format!("ir {}", lines.join("\t")));
                }
                Err(e) => {
                    self.ora.hit("C13", format!("generated module does not parse: {}", e));
                    self.out.emit(&line, &format!("unparsable {}", e.replace('\n', " ")));
                }
            },
        }
        self.def = Some(def);
    }
    fn def_replay(&mut self, st: Strat) {
        if self.dead { return; }
        let Some(def) = self.def.take() else { return };
        self.def_replay_inner(&def, st);
        self.def = Some(def);
    }
    fn def_basic_inner(&mut self, def: &RecordDefinition<NativeDatumDetails>) {
        self.stats.requests += 3;
        let ms = catch(|| def.max_size());
        let mta = def.max_type_align();
        let txt = catch(|| def.to_string());
        match &ms {
            Ok(n) => self.out.emit("maxsize", &n.to_string()),
            Err(_) => self.out.emit("maxsize", "panic"),
        }
        self.out.emit("align", &mta.to_string());
        match &txt {
            Ok(t) => self.out.emit("display", &format!("text {}", t.replace('\n', "\\n"))),
            Err(_) => self.out.emit("display", "panic"),
        }
        // oracles C02 containment / record alignment, C13 no panic, on the final definition
        if self.ora.native_layout {
            match &ms {
                Err(e) => self.ora.hit("C13", format!("max_size panicked: {}", e)),
                Ok(cap) => {
                    for v in def.variants() {
                        for d in v.data() {
                            let dd = &def[d];
                            let (o, s, a) = (dd.details().offset(), dd.details().size(), dd.details().type_align());
                            if o != UNSET && o + s > *cap {
                                self.ora.hit("C02", format!("datum {} ends at {} > capacity {}", d, o + s, cap));
                            }
                            if a != 0 && a.is_power_of_two() && mta % a != 0 {
                                self.ora.hit("C02", format!("record alignment {} not a multiple of datum {} alignment {}", mta, d, a));
                            }
                        }
                    }
                }
            }
            if let Err(e) = &txt {
                self.ora.hit("C13", format!("Display panicked: {}", e));
            }
        }
    }
    fn def_replay_inner(&mut self, def: &RecordDefinition<NativeDatumDetails>, st: Strat) {
        {
            self.stats.requests += 1;
            let line = format!("replay {}", st.name());
            let native_target = !matches!(st, Strat::GAppend | Strat::GAppendRev);
            let res = catch(|| {
                if native_target {
                    let mut tgt = NativeRecordDefinitionBuilder::new(make_resolver(0));
                    let m = convert_record_definition(
                        def,
                        |b: &mut NativeRecordDefinitionBuilder<StaticTypeResolver>, d| b.copy_datum(d),
                        |b, id| b.remove_datum(id),
                        |b| match st {
                            Strat::Simple => b.close_record_variant_with(nvariant::simple),
                            Strat::Basic => b.close_record_variant_with(nvariant::basic),
                            Strat::Append => b.close_record_variant_with(nvariant::append_data),
                            _ => b.close_record_variant_with(nvariant::append_data_reverse),
                        },
                        &mut tgt,
                    );
                    m.map(|m| (m, tgt.build()))
                } else {
                    let mut tgt = GenericRecordDefinitionBuilder::<NativeDatumDetails>::new();
                    let m = convert_record_definition(
                        def,
                        |b: &mut GenericRecordDefinitionBuilder<NativeDatumDetails>, d| {
                            b.add_datum(
                                d.name(),
                                NativeDatumDetails::new(UNSET, d.details().type_info().clone(), d.details().allow_uninit()),
                            )
                        },
                        |b, id| b.remove_datum(id),
                        |b| match st {
                            Strat::GAppend => b.close_record_variant_with(gvariant::append_data),
                            _ => b.close_record_variant_with(gvariant::append_data_reverse),
                        },
                        &mut tgt,
                    );
                    m.map(|m| (m, tgt.build()))
                }
            });
            let ans = match res {
                Err(p) => { self.ora.hit("C20", format!("replay panicked: {}", p)); "panic".to_string() }
                Ok(Err(e)) => { self.ora.hit("C20", format!("replay of a valid definition was rejected: {}", e)); format!("err {}", err_class(&e)) }
                Ok(Ok((m, t))) => {
                    let ms = m.iter().map(|(a, b)| format!("{}>{}", vid_of(*a), vid_of(*b))).collect::<Vec<_>>().join(",");
                    let vs = t.variants().map(|v| format!("[{}]", join(&v.data().map(usize_of).collect::<Vec<_>>()))).collect::<Vec<_>>().join(";");
                    let ds = t.datum_definitions().map(info_str).collect::<Vec<_>>().join(";");
                    // C20 oracle
                    self.check_replay(def, &m, &t);
                    format!("map {} | {} | {}", ms, vs, ds)
                }
            };
            self.out.emit(&line, &ans);
            // the same replay into a builder that already owns `p` closed variants (oracle only, no model line): the map must pair
            // source variant k with the variant its own close created, p + k
            if native_target && def.variants().next().map(|v| v.data().count() > 0).unwrap_or(false) {
                let p = 1 + self.stats.requests % 2;
                let res2 = catch(|| {
                    let mut tgt = NativeRecordDefinitionBuilder::new(truc::record::type_resolver::HostTypeResolver);
                    for k in 0..p {
                        tgt.add_datum::<u8, _>(format!("zz_legacy{}", k)).unwrap();
                        tgt.close_record_variant_with(nvariant::append_data);
                    }
                    let m = convert_record_definition(
                        def,
                        |b: &mut NativeRecordDefinitionBuilder<truc::record::type_resolver::HostTypeResolver>, d| b.copy_datum(d),
                        |b, id| b.remove_datum(id),
                        |b| match st {
                            Strat::Simple => b.close_record_variant_with(nvariant::simple),
                            Strat::Basic => b.close_record_variant_with(nvariant::basic),
                            Strat::Append => b.close_record_variant_with(nvariant::append_data),
                            _ => b.close_record_variant_with(nvariant::append_data_reverse),
                        },
                        &mut tgt,
                    );
                    m.map(|m| (m, tgt.build()))
                });
                match res2 {
                    Err(e) => self.ora.hit("C20", format!("replay into a builder that already owns {} variant(s) panicked: {}", p, e)),
                    Ok(Err(e)) => self.ora.hit("C20", format!("replay into a builder that already owns {} variant(s) was rejected: {}", p, e)),
                    Ok(Ok((m, t))) => {
                        let mm: BTreeMap<usize, usize> = m.iter().map(|(a, b)| (vid_of(*a), vid_of(*b))).collect();
                        let tv: Vec<_> = t.variants().collect();
                        for (k, v) in def.variants().enumerate() {
                            match mm.get(&k) {
                                Some(&tk) if tk == p + k && tk < tv.len() => {
                                    let mut a: Vec<String> = v.data().map(|d| def[d].name().to_string()).collect();
                                    let mut b: Vec<String> = tv[tk].data().map(|d| t[d].name().to_string()).filter(|n| !n.starts_with("zz_legacy")).collect();
                                    a.sort(); b.sort();
                                    if a != b { self.ora.hit("C20", format!("target already owning {} variant(s): source variant {} holds {:?}, its target variant {} holds {:?}", p, k, a, tk, b)); break; }
                                }
                                other => { self.ora.hit("C20", format!("target already owning {} variant(s): the map pairs source variant {} with {:?}, its close created variant {}", p, k, other, p + k)); break; }
                            }
                        }
                    }
                }
            }
        }
    }
    fn check_replay(
        &mut self,
        src: &RecordDefinition<NativeDatumDetails>,
        m: &BTreeMap<RecordVariantId, RecordVariantId>,
        tgt: &RecordDefinition<NativeDatumDetails>,
    ) {
        let sv: Vec<_> = src.variants().collect();
        let tv: Vec<_> = tgt.variants().collect();
        if sv.len() != tv.len() || m.len() != sv.len() {
            self.ora.hit("C20", format!("{} source variants, {} target variants, map of {}", sv.len(), tv.len(), m.len()));
            return;
        }
        let mut idmap: BTreeMap<usize, usize> = BTreeMap::new();
        let mut rev: BTreeMap<usize, usize> = BTreeMap::new();
        for (k, v) in sv.iter().enumerate() {
            let Some(t) = m.get(&v.id()) else {
                self.ora.hit("C20", format!("variant {} not in map", k));
                return;
            };
            if vid_of(*t) != k {
                self.ora.hit("C20", format!("variant {} mapped to {} (order not preserved)", k, vid_of(*t)));
            }
            let t = &tgt[*t];
            let key = |d: &DatumDefinition<NativeDatumDetails>| {
                (d.name().to_string(), d.details().type_info().clone().name, d.details().size(), d.details().type_align(), d.details().allow_uninit())
            };
            let mut a: Vec<_> = v.data().map(|d| (key(&src[d]), usize_of(d))).collect();
            let mut b: Vec<_> = t.data().map(|d| (key(&tgt[d]), usize_of(d))).collect();
            a.sort();
            b.sort();
            if a.len() != b.len() || a.iter().zip(b.iter()).any(|(x, y)| x.0 != y.0) {
                self.ora.hit("C20", format!("variant {}: source and target data differ in name/type information", k));
                continue;
            }
            for (x, y) in a.iter().zip(b.iter()) {
                if let Some(prev) = idmap.insert(x.1, y.1) {
                    if prev != y.1 {
                        self.ora.hit("C20", format!("source datum {} corresponds to target {} and {}", x.1, prev, y.1));
                    }
                }
                if let Some(prev) = rev.insert(y.1, x.1) {
                    if prev != x.1 {
                        self.ora.hit("C20", format!("target datum {} corresponds to source {} and {}", y.1, prev, x.1));
                    }
                }
            }
        }
    }
    fn finish(self) {
        for (p, m) in &self.ora.hits {
            writeln!(self.out.ora, "history={} property={} {}", self.hist, p, m).unwrap();
        }
        *self.stats.variants_hist.entry(self.ora.all_variants.len()).or_default() += 1;
        let _ = self.generic_strats;
    }
}

const SHAPES: [(usize, usize); 20] = [
    (0, 1), (0, 2), (0, 4), (0, 8), (1, 1), (2, 2), (4, 4), (8, 8), (3, 1), (5, 1), (6, 2), (12, 4),
    (24, 8), (16, 16), (2, 1), (4, 2), (8, 4), (16, 8), (7, 1), (32, 16),
];

fn gen_add(rng: &mut Rng, table: usize, native: bool, name: String, zst_heavy: bool) -> AddReq {
    if !native {
        let (s, a) = *rng.pick(&SHAPES);
        return AddReq { name, ty: format!("T{}x{}", s, a), size: s, align: a, uninit: rng.chance(1, 4), entry: "generic" };
    }
    let k = rng.below(100);
    if k < 70 {
        let (s, a) = if zst_heavy && rng.chance(1, 3) { SHAPES[rng.below(4)] } else { *rng.pick(&SHAPES) };
        // explicit type names are taken verbatim, however they are spelled
        let ty = if rng.chance(1, 6) { rng.pick(&["Vec<MyStruct>", "alloc::vec::Vec<u8>", "core::option::Option<crate::Unit>", "my::Ty<u8,u16>", "(u8,)"]).to_string() } else { format!("T{}x{}", s, a) };
        AddReq { name, ty, size: s, align: a, uninit: rng.chance(1, 4), entry: "override" }
    } else {
        let tbl = synthetic_table(table);
        if k < 80 {
            let (n, s, a, _) = *rng.pick(&tbl);
            AddReq { name, ty: n.to_string(), size: s, align: a, uninit: false, entry: "typed" }
        } else if k < 87 {
            let copyable: Vec<_> = tbl.iter().filter(|t| t.3).collect();
            let (n, s, a, _) = **rng.pick(&copyable);
            AddReq { name, ty: n.to_string(), size: s, align: a, uninit: true, entry: "uninit" }
        } else if k < 91 {
            let (n, s, a, u) = *rng.pick(&tbl);
            AddReq { name, ty: n.to_string(), size: s, align: a, uninit: u, entry: "dynamic" }
        } else if k < 96 {
            let (n, s, a, _) = *rng.pick(&tbl);
            let (s2, a2) = *rng.pick(&SHAPES);
            match rng.below(3) {
                0 => AddReq { name, ty: n.to_string(), size: s, align: a, uninit: false, entry: "ovr-n" },
                1 => AddReq { name, ty: n.to_string(), size: s2, align: a, uninit: rng.chance(1, 2), entry: "ovr-s" },
                _ => AddReq { name, ty: n.to_string(), size: s, align: a2, uninit: rng.chance(1, 2), entry: "ovr-a" },
            }
        } else {
            let (s, a) = *rng.pick(&SHAPES);
            let ty = if rng.chance(1, 3) { rng.pick(&["Vec<MyStruct>", "alloc::string::String", "core::option::Option<u8>"]).to_string() } else { format!("T{}x{}", s, a) };
            AddReq { name, ty, size: s, align: a, uninit: rng.chance(1, 2), entry: "copy" }
        }
    }
}

fn random_history(rng: &mut Rng, out: &mut Out, stats: &mut Stats, hist: usize) {
    let native = !rng.chance(1, 8);
    let generic_strats = rng.chance(1, 12);
    let table = rng.below(2);
    let chaotic = rng.chance(1, 6);
    let zst_heavy = rng.chance(1, 3);
    let fixed = if rng.chance(1, 2) { Some(*rng.pick(&NATIVE)) } else { None };
    // a few histories at scale: a first variant of 70..140 data, most of them removed in one step
    let scale = hist % 1500 == 700;
    // ... and a few with a step of 260..340 pending additions, some of them cancelled again (in any position, one of them twice)
    let scale2 = hist % 1500 == 1200;
    let nvar = if scale || scale2 { 2 + rng.below(3) } else { 1 + rng.below(8) };
    let by_ref = rng.chance(1, 3);
    let mut s = Session::new(out, stats, hist, if native { "native" } else { "generic" }, table, generic_strats, by_ref);
    let mut live: Vec<usize> = vec![];
    let mut stale: Vec<usize> = vec![];
    let mut pending: Vec<usize> = vec![];
    let mut name_ctr = 0usize;
    let mut switches = 0usize;
    let mut last_strat = None;
    let mut has_zst = false;
    let mut names_live: Vec<(usize, String)> = vec![];
    let mut reuse: Vec<String> = vec![];
    for _v in 0..nvar {
        if s.dead { break; }
        // removals
        if !live.is_empty() {
            let p = if scale && _v == 1 { 5 } else { 1 + rng.below(4) };
            // removals are requested in any order (not only oldest first)
            let mut order = live.clone();
            if rng.chance(2, 3) {
                for i in (1..order.len()).rev() { let j = rng.below(i + 1); order.swap(i, j); }
            }
            for &id in order.iter() {
                if rng.chance(p, 6) {
                    if s.rm(id) {
                        live.retain(|&x| x != id);
                        stale.push(id);
                        if let Some((_, n)) = names_live.iter().find(|x| x.0 == id).cloned() {
                            // the name of a datum pending removal is free again: look it up / re-use it right away
                            if rng.chance(1, 5) { s.query(&format!("byname {}", n)); }
                            if rng.chance(1, 5) { reuse.push(n); }
                        }
                        names_live.retain(|x| x.0 != id);
                    }
                }
            }
        }
        let big = rng.chance(1, 4);
        let nadd = if scale && _v == 0 { 70 + rng.below(70) } else if scale2 && _v == 0 { 260 + rng.below(80) } else if rng.chance(1, 10) { 0 } else { rng.below(if big { 13 } else { 5 }) };
        if native && rng.chance(1, 12) { s.unregistered(rng.below(4)); }
        for _ in 0..nadd {
            // invalid requests & lookups sprinkled in
            let inv = if chaotic { 5 } else { 60 };
            if rng.chance(1, inv) {
                match rng.below(6) {
                    0 => { if let Some(&id) = stale.get(rng.below(stale.len().max(1))) { s.rm(id); } }
                    1 => { let id = s.n_ids + rng.below(3); s.rm(id); }
                    2 => { if let Some((_, n)) = names_live.get(rng.below(names_live.len().max(1))).cloned() {
                        let r = AddReq { name: n, ty: "T1x1".into(), size: 1, align: 1, uninit: false, entry: if native { "override" } else { "generic" } };
                        s.add(&r);
                    } }
                    3 => { s.query("cur"); }
                    4 => { if let Some((_, n)) = names_live.get(rng.below(names_live.len().max(1))).cloned() { s.query(&format!("byname {}", n)); } }
                    _ => {
                        let v = rng.below(nvar + 1);
                        // half of the time a name that closed variant really holds (possibly one whose removal is pending)
                        let held: Vec<String> = s.ora.all_variants.get(v).map(|l| l.iter().filter_map(|d| s.ora.names.get(d).cloned()).collect()).unwrap_or_default();
                        let n = if !held.is_empty() && rng.chance(1, 2) { held[rng.below(held.len())].clone() } else { format!("f{}", rng.below(name_ctr + 1)) };
                        s.query(&format!("vbyname {} {}", v, n));
                    }
                }
            }
            // names: mostly fresh, sometimes reuse the name of a removed datum (legal)
            let name = if !reuse.is_empty() && rng.chance(1, 2) { reuse.remove(0) } else if !stale.is_empty() && rng.chance(1, 10) { format!("f{}", rng.below(name_ctr + 1)) } else { name_ctr += 1; match rng.below(14) { 0 => format!("f{}_mut", name_ctr), 1 => format!("_f{}", name_ctr), 2 => format!("get_f{}", name_ctr), 3 => format!("f{}_", name_ctr), _ => format!("f{}", name_ctr) } };
            let r = gen_add(rng, table, native, name.clone(), zst_heavy);
            if r.size == 0 { has_zst = true; }
            if let Some(id) = s.add(&r) {
                pending.push(id);
                names_live.push((id, name));
                // add-then-remove-before-close
                if rng.chance(1, if chaotic { 4 } else { 25 }) {
                    if s.rm(id) {
                        pending.retain(|&x| x != id);
                        names_live.retain(|x| x.0 != id);
                        stale.push(id);
                    }
                }
            }
        }
        // cancellation of pending additions in any position (not only the one just added); sometimes the same one twice (refused)
        if !pending.is_empty() && (rng.chance(1, 6) || (scale2 && _v == 0)) {
            let mut last = None;
            for _ in 0..1 + rng.below(3) {
                if pending.is_empty() { break; }
                let id = pending[rng.below(pending.len())];
                if s.rm(id) {
                    pending.retain(|&x| x != id);
                    names_live.retain(|x| x.0 != id);
                    stale.push(id);
                    last = Some(id);
                }
            }
            if let Some(id) = last { if rng.chance(1, 2) { s.rm(id); } }
        }
        if chaotic && rng.chance(1, 3) {
            // double removal of a datum already pending removal / lookups by id
            if let Some(&id) = stale.last() { s.rm(id); }
            let g = rng.below(s.n_ids + 2);
            s.query(&format!("get {}", g));
        }
        let st = if generic_strats {
            if rng.chance(1, 2) { Strat::GAppend } else { Strat::GAppendRev }
        } else {
            match fixed { Some(f) if !rng.chance(1, 8) => f, _ => *rng.pick(&NATIVE) }
        };
        if let Some(l) = last_strat { if l != st { switches += 1; } }
        last_strat = Some(st);
        if s.close(st).is_some() {
            live.extend(pending.drain(..));
        }
        if rng.chance(1, 10) { s.close(st); } // repeated close: no new variant
        if chaotic && rng.chance(1, 4) {
            let v = rng.below(nvar + 1);
            s.query(&format!("variant {}", v));
        }
    }
    if has_zst { s.stats.zst_histories += 1; }
    *s.stats.strategy_switches.entry(switches).or_default() += 1;
    // build with pending changes (panic) — rarely
    if chaotic && rng.chance(1, 10) && !live.is_empty() {
        let id = live[0];
        s.rm(id);
    }
    s.build();
    let rp = if rng.chance(1, 2) {
        Some(match rng.below(6) { 0 => Strat::Simple, 1 => Strat::Basic, 2 => Strat::Append, 3 => Strat::AppendRev, 4 => Strat::GAppend, _ => Strat::GAppendRev })
    } else { None };
    // replay into native strategies needs positive alignments: always true here
    // capacity / Display are only meaningful for native layouts (generic strategies assign no offsets)
    if !generic_strats { s.def_basic(); }
    if let Some(st) = rp { s.def_replay(st); }
    if !generic_strats && rng.chance(1, 3) {
        let flags = *rng.pick(&["-", "c", "s", "cs"]);
        s.gen(flags);
    }
    s.finish();
}

/// Exhaustive small scope: every history of the sub-space described in DESIGN.md 3.2 (a).
fn exhaustive(thorough: bool, shard: usize, nshards: usize, out: &mut Out, stats: &mut Stats) -> usize {
    let alphabet: Vec<(usize, usize)> = if thorough { vec![(0, 2), (1, 1), (4, 4), (8, 8), (3, 1)] } else { vec![(0, 2), (1, 1), (4, 4), (8, 8)] };
    let strats12: Vec<Strat> = if thorough { NATIVE.to_vec() } else { vec![Strat::Simple, Strat::Basic, Strat::AppendRev] };
    let strats3: Vec<Strat> = vec![Strat::Simple, Strat::Basic];
    let third_adds: Vec<Option<(usize, usize)>> = if thorough { vec![None, Some((0, 2)), Some((1, 1)), Some((4, 4))] } else { vec![Some((1, 1)), Some((4, 4))] };
    // all addition sequences of length <= 2
    let mut seqs: Vec<Vec<(usize, usize)>> = vec![vec![]];
    for &a in &alphabet { seqs.push(vec![a]); }
    for &a in &alphabet { for &b in &alphabet { seqs.push(vec![a, b]); } }
    let mut idx = 0usize;
    let mut ran = 0usize;
    for a1 in &seqs {
        for &s1 in &strats12 {
            for mask in 0..(1usize << a1.len()) {
                for a2 in &seqs {
                    for &s2 in &strats12 {
                        let live: Vec<usize> = (0..a1.len()).filter(|i| mask & (1 << i) == 0).chain(a1.len()..a1.len() + a2.len()).collect();
                        let rm3s: Vec<Option<usize>> = if thorough { std::iter::once(None).chain(live.iter().map(|&i| Some(i))).collect() } else { vec![None] };
                        for rm3 in &rm3s {
                            for add3 in &third_adds {
                                for &s3 in &strats3 {
                                    let me = idx % nshards == shard;
                                    idx += 1;
                                    if !me { continue; }
                                    ran += 1;
                                    let mut s = Session::new(out, stats, ran - 1, "native", 0, false, ran % 2 == 0);
                                    let mut n = 0;
                                    let mk = |sh: &(usize, usize), n: &mut usize| { *n += 1; AddReq { name: format!("f{}", n), ty: format!("T{}x{}", sh.0, sh.1), size: sh.0, align: sh.1, uninit: false, entry: "override" } };
                                    for sh in a1 { let r = mk(sh, &mut n); s.add(&r); }
                                    s.close(s1);
                                    for i in 0..a1.len() { if mask & (1 << i) != 0 { s.rm(i); } }
                                    for sh in a2 { let r = mk(sh, &mut n); s.add(&r); }
                                    s.close(s2);
                                    if let Some(i) = rm3 { s.rm(*i); }
                                    if let Some(sh) = add3 { let r = mk(sh, &mut n); s.add(&r); }
                                    s.close(s3);
                                    s.build();
                                    s.def_basic();
                                    if ran % 16 == 1 { s.gen(["-", "c", "s", "cs"][(ran / 16) % 4]); }
                                    s.finish();
                                }
                            }
                        }
                    }
                }
            }
        }
    }
    ran
}

/// Replays a request file (corpus / replay): one history per `reset`.
fn file_histories(path: &str, out: &mut Out, stats: &mut Stats) {
    let text = std::fs::read_to_string(path).expect("read request file");
    let mut sess: Option<Session> = None;
    let mut hist = 0usize;
    // Safety of the borrow juggling: sessions are finished before a new one starts.
    let out_ptr: *mut Out = out;
    let stats_ptr: *mut Stats = stats;
    for line in text.lines() {
        let line = line.trim();
        if line.is_empty() || line.starts_with('#') { continue; }
        let toks: Vec<&str> = line.split(' ').collect();
        if toks[0] == "reset" {
            if let Some(s) = sess.take() { s.finish(); }
            let kind = toks.get(1).cloned().unwrap_or("native");
            let table = toks.get(2).and_then(|t| t.parse().ok()).unwrap_or(0);
            let gs = toks.get(3).map(|t| *t == "g").unwrap_or(false);
            let by_ref = toks.get(4).map(|t| *t == "ref").unwrap_or(false);
            sess = Some(Session::new(unsafe { &mut *out_ptr }, unsafe { &mut *stats_ptr }, hist, kind, table, gs, by_ref));
            hist += 1;
            continue;
        }
        if sess.is_none() {
            sess = Some(Session::new(unsafe { &mut *out_ptr }, unsafe { &mut *stats_ptr }, hist, "native", 0, false, false));
            hist += 1;
        }
        let s = sess.as_mut().unwrap();
        match toks[0] {
            "add" => {
                let entry: &'static str = match toks.get(6).cloned().unwrap_or("override") {
                    "typed" => "typed", "uninit" => "uninit", "dynamic" => "dynamic", "copy" => "copy", "generic" => "generic", "ovr-n" => "ovr-n", "ovr-s" => "ovr-s", "ovr-a" => "ovr-a", _ => "override",
                };
                let r = AddReq { name: toks[1].into(), ty: toks[2].replace('_', " "), size: toks[3].parse().unwrap(), align: toks[4].parse().unwrap(), uninit: toks[5] == "1", entry };
                s.add(&r);
            }
            "rm" => { s.rm(toks[1].parse().unwrap()); }
            "unreg" => { s.unregistered(toks[1].parse().unwrap()); }
            "close" => { s.close(Strat::parse(toks[1]).expect("strategy")); }
            "build" => s.build(),
            "maxsize" => { s.def_basic(); }
            "align" | "display" => {}
            "gen" => { s.gen(toks[1]); }
            "replay" => { s.def_replay(Strat::parse(toks[1]).expect("strategy")); }
            _ => s.query(line),
        }
    }
    if let Some(s) = sess.take() { s.finish(); }
}

fn main() {
    silence_panics();
    let args: Vec<String> = std::env::args().collect();
    let mode = args.get(1).map(|s| s.as_str()).unwrap_or("random");
    let seed: u64 = args.get(2).and_then(|s| s.parse().ok()).unwrap_or(1);
    let count: usize = args.get(3).and_then(|s| s.parse().ok()).unwrap_or(1000);
    let outdir = args.get(4).cloned().unwrap_or("/verif/.work/L".into());
    std::fs::create_dir_all(&outdir).unwrap();
    let _ = std::fs::remove_file(format!("{}/hang.txt", outdir));
    start_watchdog(outdir.clone());
    let mk = |n: &str| std::io::BufWriter::new(std::fs::File::create(format!("{}/{}", outdir, n)).unwrap());
    let mut out = Out { req: mk("req.txt"), imp: mk("impl.txt"), ora: mk("oracle.txt"), lines: 0 };
    // the synthetic resolver tables, announced to the model: its entry-point model (`Res.entryInfo`) answers from them
    for k in 0..2 {
        for (n, sz, al, un) in synthetic_table(k) {
            out.emit(&format!("tbl {} {} {} {} {}", k, n.replace(' ', "_"), sz, al, if un { 1 } else { 0 }), "--");
        }
    }
    let mut stats = Stats::default();
    if mode == "random" {
        let mut rng = Rng::new(seed);
        for h in 0..count {
            let mut r = rng.fork();
            random_history(&mut r, &mut out, &mut stats, h);
        }
    } else if mode == "twice" {
        let mut rng = Rng::new(seed);
        for h in 0..count {
            let r = rng.fork();
            let mut r1 = r.clone();
            let mut r2 = r.clone();
            random_history(&mut r1, &mut out, &mut stats, 2 * h);
            random_history(&mut r2, &mut out, &mut stats, 2 * h + 1);
        }
    } else if mode.starts_with("exhaustive-") {
        let (m, sh) = mode.split_once(':').unwrap_or((mode, "0/1"));
        let (a, b) = sh.split_once('/').unwrap();
        exhaustive(m == "exhaustive-thorough", a.parse().unwrap(), b.parse().unwrap(), &mut out, &mut stats);
    } else if let Some(p) = mode.strip_prefix("file:") {
        file_histories(p, &mut out, &mut stats);
    } else {
        eprintln!("unknown mode {}", mode);
        std::process::exit(2);
    }
    out.req.flush().unwrap();
    out.imp.flush().unwrap();
    out.ora.flush().unwrap();
    let mut js = String::new();
    write!(js, "{{\"histories\":{},\"requests\":{},\"lines\":{},\"panics\":{},\"zst_histories\":{},\"add_then_remove\":{},", stats.histories, stats.requests, out.lines, stats.panics, stats.zst_histories, stats.add_then_remove).unwrap();
    let m2s = |m: &BTreeMap<String, usize>| format!("{{{}}}", m.iter().map(|(k, v)| format!("\"{}\":{}", k, v)).collect::<Vec<_>>().join(","));
    let n2s = |m: &BTreeMap<usize, usize>| format!("{{{}}}", m.iter().map(|(k, v)| format!("\"{}\":{}", k, v)).collect::<Vec<_>>().join(","));
    write!(js, "\"closes\":{},\"errors\":{},\"entries\":{},\"variants_per_history\":{},\"strategy_switches\":{}}}", m2s(&stats.closes), m2s(&stats.errors), m2s(&stats.entries), n2s(&stats.variants_hist), n2s(&stats.strategy_switches)).unwrap();
    std::fs::write(format!("{}/stats.json", outdir), js).unwrap();
}
