#!/usr/bin/env python3
"""regenerates MANIFEST.json from the table below (keeps it valid at all times)"""
import json, os
VERIF = os.path.dirname(os.path.dirname(os.path.abspath(__file__)))
ids = [json.loads(l)["id"] for l in open(os.path.join(VERIF, "properties.jsonl"))]

L_NOTE = ("Trusted: Lean kernel + {propext, Classical.choice, Quot.sound}; the hand-written Lean model is tied to the code by "
          "channel L (real builder/strategies/definition vs compiled Lean driver on the same request lines: corpus, random deep "
          "histories run against the library with and without debug assertions, an exhaustively enumerated small scope; a watchdog turns a request the builder never answers into a reported history) — that tie is sampling, not proof. Assumed: alignments positive, "
          "layouts below 2^63 (usize wrap-around not modelled).")

V_NOTE = ("Trusted: Lean kernel + standard axioms; slot-machine model of convert.rs tied to the code by channel V (every script of "
          "length <= 5 (quick) / 6 (thorough) over 10 converter outcomes (convert, touch / replace the previous output then convert or abandon, abandon, error, three kinds of panic) + random long scripts, five equal-layout (one whose input type has padding under the output type's data) and four "
          "unequal-layout element type pairs, zero-size elements by counts, debug and optimised builds, ledger + counting "
          "allocator + payload identity). Modelled not verified: Vec::set_len/transmute, catch_unwind; converter contract assumed.")

X_NOTE = ("Trusted: Lean kernel + standard axioms; translators/translate.py; the abstract machine's reading of ptr::read/write, moves, scope-end drops, "
          "ManuallyDrop, mem::forget (modelled; validated by channel X on 40 (quick) / 300 (thorough) generated modules x 3 builds); rustc/LLVM; "
          "Rust's aliasing model beyond the write-permission rule. Replays are deterministic in VERIF_SEED (the replay file lists the module's requests).")

P_NOTE = ("Trusted: Lean kernel + standard axioms; rustc's const-assertion evaluation, Copy obligations and structural auto-trait derivation are "
          "MODELLED (three small rules) and validated by compile probes; generator model tied by the IR correspondence of channel L/G.")

CLAIMS = {
 "C01": ("Kernel-checked theorem C01_disjoint over the Lean model of builder + all four native strategies: for every request "
         "history with every per-close strategy choice, all data of every variant are pairwise disjoint (induction: layout "
         "invariant LInv + gap invariant GInv); C01_no_strategy_panic; C01_no_shared_byte (byte form on the built definition). Model tied to /repo by channel L on every run.", "4 C01", L_NOTE,
         "Lean 4 theorem (invariant by induction over request histories) + model/implementation correspondence"),
 "C02": ("Theorems C02_aligned, C02_contained, C02_record_align, C02_order(_strict), C02_address_aligned_contained (absolute addresses under an aligned base), C02_capacity_tight (the capacity is attained by some datum), C02_sizes_sum_le_capacity (the sizes of a variant's data sum to at most the capacity) over the same model (LInv gives alignment and "
         "address order incl. zero-size data; capacity = fold over variants; record alignment = max of powers of two).", "4 C02", L_NOTE,
         "Lean 4 theorem (invariant) + correspondence"),
 "C03": ("Theorem C03_offset_stable: every datum of a closed variant keeps its whole description in every later state (frame "
         "property of each strategy + freshness of ids), for all histories; C03_same_layout, C03_layout_holds_capacity, C03_vec_elements_disjoint (data of different elements never overlap, whichever variants the elements hold), C03_vec_element_addresses (one element size for all variants; every datum of element i aligned and inside the element, under the modelled repr(align) rule).", "4 C03", L_NOTE,
         "Lean 4 theorem (frame/stability by induction) + correspondence"),
 "C13": ("Theorems C13_close_no_panic, C13_display_no_panic, C13_maxSize_no_panic: no strategy panic site, no Display clash, "
         "no capacity overflow on any accepted history. C13_generate_no_panic (generate() itself does not panic, any fragment selection); C13_bodies_pass_move_and_mut_rules: every generated function body (constructors, unpack, drop, the four conversion forms) passes two more modelled compiler rules - bindings used only while in scope and not moved out (E0382/E0425), `data` stored into only when declared mut (E0596) - for every definition built from valid requests whose field names avoid the template bindings; the checker is also evaluated by the driver on every sampled module (chk=).", "4 C13", L_NOTE,
         "Lean 4 theorem (panic-freedom from invariants) + correspondence"),
 "C12": ("Theorems over the builder state machine for all histories: C12_membership (permutation of prev − removals + additions, "
         "native and generic strategies), C12_variant_distinct_known (no datum twice, only known ids), C12_fresh_ids / C12_ids_monotone, C12_unique_names (invariant of every variant and of the "
         "pending view), C12_reject_unchanged_*, C12_dup_rejected, C12_remove_ok_iff, C12_build_pending, C12_noop_close.", "4 C12", L_NOTE,
         "Lean 4 theorem (state-machine invariants) + correspondence incl. invalid-request stream"),
 "C18": ("Theorems C18_records_answer (every accepted addition records exactly the numbers supplied by the resolver/override) and "
         "C18_shape_preserved (a close changes nothing but offsets); entry-point model Res.entryInfo (typed / allow-uninit / override / dynamic / copy) driven by the same "
         "requests as the real entry points, with C18_entry_typed, _typed_uninit, _override (specified items verbatim, unspecified ones from the table), "
         "_dynamic, _unregistered (a type missing from the table is refused), _copy, _recorded; C18_same_answers_same_layout (the same calls under two resolvers whose answers agree on size and alignment give the same variants and offsets); C18_layout_factor: two histories that agree on the supplied sizes, alignments, "
         "removals and strategies (whatever the names, type names, uninit flags) yield the same variants and the same offset for every datum - every "
         "strategy commutes with erasing everything but size/alignment/offset (Proofs/LayoutFactor.lean). Decisive for the host-independence "
         "part is the tie: channel L drives typed/uninit/dynamic/override/copy entry points under synthetic resolvers whose answers "
         "differ from the host's; C18_table_registered / _keeps / _duplicate / _lookup_normalised over the table model, tied by channel T (standard table vs host resolver, JSON round trip, whitespace lookups, duplicate registration).", "4 C18", L_NOTE,
         "Lean 4 theorems (erasure commutation of every strategy; table model) + correspondence under synthetic type tables"),
 "C19": ("The model is a pure function of the request list (C19_layout_is_function_partial, C19_size_order_stable, C19_size_order_sorted_and_stable: the one map traversal is the unique decreasing-size stable order of the request list); the property "
         "is carried by the tie: implementation = that function on every history, in one process (channel L) and across two "
         "separately started processes (byte comparison), the same history twice in a row in one process, and the same histories in reverse order in a third process (what the process did before must not matter). Partial by nature.", "4 C19", L_NOTE,
         "Lean 4 model-as-function + two-process byte comparison"),
 "C20": ("C20_target_builds (build() succeeds on the replayed target, same variant count and sizes); C20_replay: for every source definition built from any valid history and every target strategy (four native, two generic) the "
         "conversion helper succeeds (no builder error, no indexing or strategy panic), creates exactly one target variant per source variant, "
         "returns the map k -> k, leaves the target buildable, and relates source and target data by one injective id map: target variant k is a "
         "permutation of the image of source variant k under that single map, and corresponding data have the same name, type, size, alignment "
         "and uninit flag (C20_same_type_information: equal multisets of type information per pair). Loop invariant RInv by induction over the "
         "source variants; the premise (ids never reused, consecutive variants differ, unique names) is proved for every builder output "
         "(builder_srcChain). C20_map_keys_any_source for arbitrary sources. Channel L `replay` requests compare the implementation with the Lean "
         "replay model; an independent oracle checks the implementation's output. Every native replay is repeated into a builder that already owns closed variants (oracle only: the model starts from a fresh builder).", "4 C20", L_NOTE,
         "Lean 4 theorem (loop invariant over source variants, induction over histories) + correspondence"),
 "C08": ("Refinement theorem: the unsafe loop, modelled slot by slot with use-after-move/overwrite/type-confusion as explicit errors, "
         "equals the plain left-to-right pass for every input length and every converter (tryConvert_refines, three-region "
         "invariant as a representation function); corollaries C08_result, C08_calls, C08_prev_is_last_output, C08_all_abandoned, C08_map (always-converting converter that leaves the previous output alone = input.map f). Scripts include inputs of thousands of elements / hundreds of KiB (size thresholds).", "4 C08", V_NOTE,
         "Lean 4 refinement theorem (loop invariant by induction) + correspondence, debug and optimised builds"),
 "C09": ("C09_cleanup (failure at any call: every live output and every unconsumed input dropped exactly once, nothing leaked, "
         "buffer released, that very error/payload returned, no later call) and C09_no_memory_error, C09_every_input_accounted (input = handed to the converter ++ dropped unconsumed), C09_never_leaks (every outcome under any layouts: nothing live left, failed runs free the buffer), for all lengths, converters "
         "and failure positions. Side scripts: zero-size and plain-data inputs, conversion run inside a destructor during unwinding.", "4 C09", V_NOTE, "Lean 4 refinement theorem + correspondence with drop ledger and counting allocator"),
 "C10": ("C10_refuse / C10_accept: layouts differing in size or alignment are refused before any element is read or the converter "
         "called, the input dropped normally; equal layouts never refused; C10_refusal_depends_on_layouts_only (not on converter or input); C10_variants_never_refused (record types of two variants of one definition are always accepted).", "4 C10", V_NOTE, "Lean 4 theorem + correspondence over a type-pair matrix"),
 "C04": ("Translated primitives (regenerated from data.rs each run): C04_store_permission (stores and &mut through as_mut_ptr on &mut self, all "
         "use the offset), C04_primitives_are_plain_accesses (each primitive is one recognised access of its kind); byte-level machine theorems C04_store_load / C04_store_frame; program-level theorems on the abstract machine running the "
         "generator model's programs: C04_new_get (every getter after the generated constructor returns the stored value), C04_new_unpack, "
         "C04_set_frame (a setter changes exactly one field); C04_premises_hold_for_builder_output / C04_premise_check_accepts_builder_output: the well-formedness premises (ModuleWF, decided by the executable check moduleWFB that the driver evaluates on every compiled module: C07_premise_check_decides) are proved "
         "for the specs of every definition the builder can produce from valid requests (end-to-end through the layout theorems). Channel X: the Lean "
         "machine running the Lean generator's programs predicts every value of every API operation of compiled generated modules in debug and "
         "release builds.", "4 C04", X_NOTE,
         "Lean 4 theorems over translated primitives + abstract machine refinement; correspondence with compiled generated code (3 builds)"),
 "C05": ("C05_convert: for consecutive variants with well-formed field lists and a record satisfying the record invariant, every one of the four generated conversion functions runs on the abstract machine without error, keeps every carried-over field, gives every written added field the supplied value, returns (or destroys exactly once) the removed values, and re-establishes the invariant; C05_chain: every record reachable by any chain of constructors / conversions / writes satisfies that invariant (induction over Reach). Hypotheses (ModuleWF) are evaluated by the driver on every sampled module; channel X compares compiled code with the machine on every form and random chains.", "4 C05", X_NOTE, "Lean 4 refinement theorems (record invariant, induction over reachable records) + correspondence with compiled generated code"),
 "C06": ("C06_end_of_life (any reachable record: drop destroys exactly the droppable field values, unpack destroys nothing and returns them), C06_removed_dropped (non-returning conversions destroy exactly the removed droppable values), C06_new_then_drop / _unpack, C06_no_second_read_partial; with C05_convert this gives ledger balance along any life cycle. Channel X: drop multiset per call vs machine + independent birth/death ledger with leak detection on compiled code.", "4 C06", X_NOTE,
         "Lean 4 theorems (counting invariant over reachable records) + correspondence with drop ledger on compiled generated code"),
 "C07": ("C07_no_machine_error: on every record reachable by any sequence of constructor / conversion / write of a well-formed module with any capacity >= every field end, drop, unpack, every accessor and every conversion form run without oob / read-moved / store-over-owned / double-free; C07_store_tolerates_misalignment and C07_loads_are_typed decided on the translated primitives; C07_aligned_access, C07_in_bounds. Hook log of compiled code checked for bounds and alignment at real addresses. A Miri pass (cargo +nightly miri run, 3 (quick) / 8 (thorough) address placements) over 6 / 24 fully initialised lab modules leaning on over-aligned field types supports the failing-input search: any Undefined Behavior report is a C07 violation with the module as replay (skipped and recorded in the evidence if Miri is not installed).", "4 C07", X_NOTE,
         "Lean 4 theorems (no machine error on reachable records; translated primitives) + access-log validation on compiled generated code"),
 "C11": ("Theorems over the generator model + modelled compiler rules, for every definition: C11_size, C11_align, C11_copy (any datum of any "
         "variant with wrong recorded size / alignment, or a may-be-uninit datum of a non-Copy type, makes `accepts` false), "
         "C11_accepts_when_right, C11_assertions_emitted. Tie: generator IR correspondence (channel L/G) + 144 rustc compile probes (each lab "
         "type x first/later variant x perturbation) compared with the static model's verdict.", "4 C11", P_NOTE,
         "Lean 4 theorems (generator coverage lemmas) + rustc compile probes"),
 "C14": ("Full statement is false of the code (known finding K1): C14_only_if_refuted proves the negation on a witness (record holding Rc), "
         "replayed by compile probes; C14_if_partial (the 'whenever all of them can' direction) and C14_record_struct_shape proved. The check "
         "prints KNOWN-FINDING for K1 and raises VIOLATION for any other C14 failure.", "4 C14", P_NOTE,
         "Lean 4 theorems (partial + refutation witness) + rustc auto-trait probes; known finding"),
 "C15": ("Model of the generated Serialize/visitor at field-value level with the format as a parameter (length hint or not): C15_roundtrip (both "
         "format kinds, any number of fields), C15_too_few, C15_bad_element, C15_too_many — every rejection drops exactly the values decoded so "
         "far. Tie: generator IR (channel L/G) + channel X: serde_json and bincode round trips and truncated / corrupted / over-long inputs on "
         "compiled modules, compared with this model (error class, drop multiset, access multiset).", "4 C15", X_NOTE + " serde, serde_json, bincode are modelled by the SeqIn parameter.",
         "Lean 4 theorems over a value-level serde model + correspondence on compiled generated code"),
 "C16": ("C16_clone_equal, C16_panic_safe (a panic in any field's clone drops exactly the clones built so far), C16_clone_from (target = clone "
         "of source, each previous droppable value dropped once), C16_clone_from_panic_safe (a panic in a field's clone during clone-assignment: the fields before it assigned and their previous values dropped once, the others untouched) over the value-level model with the field types' Clone as a parameter. Tie: "
         "generator IR + channel X: clone / clone_from / clone and clone_from with an injected panic at a random field on compiled modules, then mutation and "
         "drop of either side, compared with the model and an independent ledger.", "4 C16", X_NOTE,
         "Lean 4 theorems over a value-level clone model + correspondence on compiled generated code"),
 "C17": ("C17_denote (for type syntax trees of any depth: rewriting does not change the canonical long form), C17_idem, C17_short_long (short and "
         "fully qualified spellings of the five std types are recorded identically, at any position), C17_whitespace (two spellings of the same "
         "token sequence with any amount of whitespace before/between/after the tokens are normalised and looked up identically: lexer invariant by "
         "induction over the token list). The parser/printer pair (syn / quote) is modelled and carried by the tie: channel T compares the real normaliser with the Lean lexer+parser+rewrite+printer on ~7000 "
         "spellings of ~1960 concrete types (incl. all 418 of the standard table and names of up to 60 type paths), and a rustc probe `fn(*mut T) -> *mut <recorded name>` (type equality, not coercibility) per type validates the resolution hypothesis; the probe also covers function-pointer, reference and raw-pointer types, which are outside the Lean grammar (compiler-decided only).", "4 C17",
         "Trusted: Lean kernel + standard axioms; syn/quote are modelled by a hand-written lexer/parser/printer (tied by channel T); rustc name resolution assumed as the Prelude hypothesis and validated by compile probes.",
         "Lean 4 theorems (mutual structural induction over type syntax) + correspondence on a type catalogue + rustc probes"),
}
PENDING = "check not built yet (build phase in progress); planned per DESIGN.md section 4"

def main():
    m = {"version": 1, "setup_cmd": "./setup.sh",
         "hooks": {"guard": "verif-hooks", "enable": "cargo feature verif-hooks on truc_runtime (lab crate feature `hooks` turns it on)",
                   "baseline_off_cmd": "cd /repo && cargo test --workspace --no-fail-fast --offline", "source_commits": ["54f6f80"], "add_only": True},
         "engines": [{"name": "lean-model", "path": "lean/TrucModel", "serves_properties": sorted(CLAIMS), "kind_free_text": "Lean 4 model, theorems, line-protocol driver"},
                     {"name": "harness", "path": "harness", "serves_properties": sorted(CLAIMS), "kind_free_text": "Rust harness driving the real code; independent oracles for failing-input search"}],
         "checks": [], "not_applicable": [], "notes": "see DESIGN.md; known-findings.txt lists fixed defects"}
    for i in ids:
        if i in CLAIMS:
            text, ref, note, tech = CLAIMS[i]
            m["checks"].append({"property_id": i, "quick_cmd": f"./check {i} --tier quick", "thorough_cmd": f"./check {i} --tier thorough",
                                "evidence_file": f"evidence/{i}.json", "replay_cmd_template": f"./check {i} --replay {{path}}",
                                "engine": "lean-model", "level_claimed": {"category": "proof", "text": text, "design_ref": ref},
                                "level_note": note, "technique": tech})
        else:
            m["not_applicable"].append({"property_id": i, "reason": PENDING})
    json.dump(m, open(os.path.join(VERIF, "MANIFEST.json"), "w"), indent=1)
    print("claimed", sorted(CLAIMS))
main()
