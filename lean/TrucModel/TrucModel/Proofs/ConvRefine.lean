import TrucModel.Proofs.RecInv
/-
  The generated conversion function, run on the machine.
-/
namespace Truc.Mach
open Truc.Gen

/-- the added fields a conversion form writes -/
def plusWritten (sp : Spec) (uninit : Bool) : List D := sp.plus.filter (fun d => !uninit || !d.uninit)

/-- values of the removed fields -/
def minusVals (sp : Spec) (b0 : Buf) : List Val := sp.minus.map (valOf b0)

theorem run_seq {dr : String → Bool} {cap : Nat} {a b : List Stmt} {st st1 : St} (h : run dr cap a st = .ok st1) :
    run dr cap (a ++ b) st = run dr cap b st1 := by rw [run_append, h]

/-- a machine state in the middle of a conversion -/
def cst (fr : Buf) (glue : Option (List D)) (data : Option Buf) (args : List (String × List (String × Val)))
    (locals : List (String × Val)) (acc : List Access) : St :=
  { from_ := some fr, fromGlue := glue, data := data, args := args, locals := locals, acc := acc }

/-- name under which the `plus` argument is known after the optional `let plus = Safe::from(plus)` -/
def plusBind (sp : Spec) (uninit : Bool) : String :=
  if uninit then (if uninit && sp.plus.any (fun d => !d.uninit) then "plus" else "_plus") else "plus"

def safeStmts (sp : Spec) (uninit : Bool) : List Stmt :=
  if uninit then [.safeFrom (if uninit && sp.plus.any (fun d => !d.uninit) then "plus" else "_plus") (inSafeName sp.vid)
      ((safeGeneric sp.plus).map (·.2.2)) "plus"] else []

def tailStmts (sp : Spec) (andOut : Bool) : List Stmt :=
  if andOut then [.letRecord (capped sp.vid), .retStruct (outName sp.vid) ("record" :: sp.minus.map (·.name))] else [.retSelfData]

theorem convFn_body (sp : Spec) (uninit andOut : Bool) :
    (convFn sp uninit andOut).body =
      sp.minus.map (fun d => Stmt.readLet ((if andOut then "" else "_") ++ d.name) d "from") ++
      (safeStmts sp uninit ++ ([Stmt.manuallyDrop, Stmt.copyBuf ((!uninit && !sp.plus.isEmpty) || (uninit && (uninit && sp.plus.any (fun d => !d.uninit))))] ++
      ((plusWritten sp uninit).map (fun d => Stmt.write d "plus") ++ tailStmts sp andOut))) := by
  unfold convFn safeStmts tailStmts plusWritten
  simp only [List.append_assoc]

theorem run_safe (dr : String → Bool) (cap : Nat) (sp : Spec) (uninit : Bool) (st : St) (fs : List (String × Val))
    (ha : st.args = [("plus", fs)]) :
    run dr cap (safeStmts sp uninit) st = .ok { st with args := [(plusBind sp uninit, fs)] } := by
  unfold safeStmts plusBind
  cases uninit with
  | false => simp [run]; cases st; simp_all
  | true => simp [run, step, ha]

theorem plusBind_cases (sp : Spec) (uninit : Bool) : plusBind sp uninit = "plus" ∨ plusWritten sp uninit = [] := by
  unfold plusBind plusWritten
  cases uninit with
  | false => left; rfl
  | true =>
    by_cases h : (sp.plus.any fun d => !d.uninit) = true
    · left; simp [h]
    · right
      rw [List.filter_eq_nil_iff]
      intro d hd hb
      exact h (List.any_eq_true.2 ⟨d, hd, by simpa using hb⟩)

/-- the stores of the added fields, whatever the argument is called when there is nothing to store -/
theorem run_plus_writes (dr : String → Bool) (cap : Nat) (sp : Spec) (uninit : Bool) (vals : List Val) (nm : String)
    (hnm : nm = "plus" ∨ plusWritten sp uninit = []) (hnames : ((plusWritten sp uninit).map (·.name)).Nodup)
    (hl : vals.length = (plusWritten sp uninit).length) (b1 b2 : Buf)
    (hstore : storeAll dr b1 ((plusWritten sp uninit).zip vals) = .ok b2) (st : St)
    (hd : st.data = some b1) (ha : st.args = [(nm, fieldsOf (plusWritten sp uninit) vals)]) :
    run dr cap ((plusWritten sp uninit).map fun d => Stmt.write d "plus") st =
      .ok { st with data := some b2, args := [(nm, [])], acc := st.acc ++ (plusWritten sp uninit).map fun d => ("write", d.offset, d.ty) } := by
  by_cases hnil : plusWritten sp uninit = []
  · rw [hnil] at hstore ha ⊢
    simp only [List.zip_nil_left, storeAll, Except.ok.injEq] at hstore
    subst hstore
    simp only [List.map_nil, run, List.append_nil, fieldsOf, List.zip_nil_left] at ha ⊢
    cases st; simp_all
  · rcases hnm with rfl | h
    · have hws := map_lookup_eq_zip (plusWritten sp uninit) vals hnames hl
      have := run_writes dr cap "plus" (plusWritten sp uninit) st b1 _ hd ha hnames
        (fun d hd' => by
          obtain ⟨v, hv⟩ := mem_zip_of_mem hl hd'
          exact ⟨v, lookup_fieldsOf _ vals hnames _ hv⟩) b2 (by rw [hws]; exact hstore)
      rw [this, removeNames_fieldsOf]
    · exact absurd h hnil

/-- **conversion** (all four forms). From a record of the previous variant satisfying the invariant:
    no machine error; carried-over fields are found exactly as before; written added fields hold the
    supplied values; the removed fields' values are handed back (forms returning them) or destroyed,
    each once (the other forms); nothing else is destroyed; the new record satisfies the invariant. -/
theorem conv_ok (dr : String → Bool) (cap : Nat) (sp0 sp : Spec) (uninit andOut : Bool)
    (hw : ConvWF cap sp0.data sp.data sp.minus sp.plus) (b0 : Buf) (hcap : b0.cap = cap) (hinv : RecInv dr b0 sp0.data)
    (hrec : "record" ∉ sp.minus.map (·.name))
    (hpod : ∀ d ∈ sp.plus, d.uninit = true → dr d.ty = false)
    (hz : ∀ p ∈ sp.plus, p.size = 0 → dr p.ty = true)
    (vals : List Val) (hl : vals.length = (plusWritten sp uninit).length)
    (hty : ∀ p ∈ (plusWritten sp uninit).zip vals, p.2.ty = p.1.ty) :
    ∃ b2 st, call dr cap (convFn sp uninit andOut)
        { from_ := some b0, fromGlue := some sp0.data, args := [("plus", fieldsOf (plusWritten sp uninit) vals)] } = .ok st ∧
      b2.cap = cap ∧
      (if andOut then st.result = .struct ((sp.minus.map (·.name)).zip (minusVals sp b0)) (some b2) ∧ st.drops = []
       else st.result = .record b2 ∧ st.drops = (minusVals sp b0).filter (fun v => dr v.ty)) ∧
      (∀ p ∈ (plusWritten sp uninit).zip vals, b2.find p.1 = some (mkExt p)) ∧
      (∀ d ∈ sp.data, d ∉ sp.plus → b2.find d = b0.find d) ∧
      RecInv dr b2 sp.data := by
  have hsubW : (plusWritten sp uninit).Sublist sp.plus := List.filter_sublist
  have hunw : ∀ d ∈ sp.plus, d ∉ plusWritten sp uninit → dr d.ty = false := by
    intro d hd hn
    apply hpod d hd
    unfold plusWritten at hn
    rw [List.mem_filter] at hn
    simp only [hd, true_and, Bool.or_eq_true, Bool.not_eq_eq_eq_not, Bool.not_true, not_or, Bool.not_eq_false] at hn
    exact hn.2
  obtain ⟨b1, b2, hload, hc1, hstore, hc2, hfound, hcar, hinv2⟩ :=
    conv_buffers dr hw b0 hcap hinv (plusWritten sp uninit) hsubW hunw vals hl hty hz
  have hnamesW : ((plusWritten sp uninit).map (·.name)).Nodup :=
    (hw.wf1.names.sublist ((hw.plusSub.map _))).sublist (hsubW.map _)
  have hminusNodup : (sp.minus.map (·.name)).Nodup := hw.wf0.names.sublist (hw.minusSub.map _)
  have hnames : ("record" :: sp.minus.map (·.name)).filter (· != "record") = sp.minus.map (·.name) := by
    simp only [List.filter_cons, bne_self_eq_false, Bool.false_eq_true, if_false]
    rw [List.filter_eq_self]
    intro n hn
    simp only [bne_iff_ne, ne_eq]
    intro heq; exact hrec (heq ▸ hn)
  -- phase 1: the removed fields are read out of `from`
  let L : List (String × Val) := [] ++ (sp.minus.map fun d => (if andOut then "" else "_") ++ d.name).zip (sp.minus.map (valOf b0))
  let A : List Access := [] ++ sp.minus.map (fun d => ("read", d.offset, d.ty))
  let F := fieldsOf (plusWritten sp uninit) vals
  have h1 : run dr cap (sp.minus.map fun d => Stmt.readLet ((if andOut then "" else "_") ++ d.name) d "from")
      (cst b0 (some sp0.data) none [("plus", F)] [] []) = .ok (cst b1 (some sp0.data) none [("plus", F)] L A) :=
    run_reads_from dr cap (fun d => (if andOut then "" else "_") ++ d.name) sp.minus
      (cst b0 (some sp0.data) none [("plus", F)] [] []) b0 _ b1 rfl hload
  -- phase 2: the optional helper instantiation
  have h2 : run dr cap (safeStmts sp uninit) (cst b1 (some sp0.data) none [("plus", F)] L A) =
      .ok (cst b1 (some sp0.data) none [(plusBind sp uninit, F)] L A) :=
    run_safe dr cap sp uninit (cst b1 (some sp0.data) none [("plus", F)] L A) F rfl
  -- phase 3: ManuallyDrop + bit copy
  have h3 : run dr cap [Stmt.manuallyDrop, Stmt.copyBuf ((!uninit && !sp.plus.isEmpty) || (uninit && (uninit && sp.plus.any (fun d => !d.uninit))))]
      (cst b1 (some sp0.data) none [(plusBind sp uninit, F)] L A) = .ok (cst b1 none (some b1) [(plusBind sp uninit, F)] L A) := by
    simp [run, step, cst]
  -- phase 4: the added fields are stored
  have h4 : run dr cap ((plusWritten sp uninit).map fun d => Stmt.write d "plus") (cst b1 none (some b1) [(plusBind sp uninit, F)] L A) =
      .ok (cst b1 none (some b2) [(plusBind sp uninit, [])] L (A ++ (plusWritten sp uninit).map fun d => ("write", d.offset, d.ty))) :=
    run_plus_writes dr cap sp uninit vals (plusBind sp uninit) (plusBind_cases sp uninit) hnamesW hl b1 b2 hstore
      (cst b1 none (some b1) [(plusBind sp uninit, F)] L A) rfl rfl
  have hstart : ({ from_ := some b0, fromGlue := some sp0.data, args := [("plus", fieldsOf (plusWritten sp uninit) vals)] } : St)
      = cst b0 (some sp0.data) none [("plus", F)] [] [] := rfl
  refine ⟨b2, ?_⟩
  cases andOut with
  | false =>
    refine ⟨{ from_ := some b1, fromGlue := none, data := none, args := [], locals := [], result := .record b2,
              drops := (minusVals sp b0).filter (fun v => dr v.ty),
              acc := sp.minus.map (fun d => ("read", d.offset, d.ty)) ++ (plusWritten sp uninit).map (fun d => ("write", d.offset, d.ty)) },
            ?_, hc2, by simp, hfound, hcar, hinv2⟩
    unfold call
    rw [hstart, convFn_body, run_seq h1, run_seq h2, run_seq h3, run_seq h4]
    simp only [tailStmts, Bool.false_eq_true, if_false, run, step, finish, cst]
    simp [minusVals, List.map_snd_zip, L, A]
  | true =>
    have hpick := filterMap_find ((sp.minus.map (·.name)).zip (minusVals sp b0)) (sp.minus.map (·.name)) (minusVals sp b0)
      (by simp [minusVals]) (find_zip_names _ _ hminusNodup)
    refine ⟨{ from_ := some b1, fromGlue := none, data := none, args := [], locals := [],
              result := .struct ((sp.minus.map (·.name)).zip (minusVals sp b0)) (some b2), drops := [],
              acc := sp.minus.map (fun d => ("read", d.offset, d.ty)) ++ (plusWritten sp uninit).map (fun d => ("write", d.offset, d.ty)) },
            ?_, hc2, by simp, hfound, hcar, hinv2⟩
    unfold call
    rw [hstart, convFn_body, run_seq h1, run_seq h2, run_seq h3, run_seq h4]
    have hL : L = (sp.minus.map (·.name)).zip (minusVals sp b0) := by
      simp [L, minusVals]
    simp only [tailStmts, if_true, run, step, hnames, cst, hL]
    rw [hpick]
    simp [finish, minusVals, A]
    intro a x hx hn
    exfalso
    obtain ⟨d, hd, hdn⟩ := List.mem_map.1 (List.of_mem_zip hx).1
    exact hn d hd hdn

end Truc.Mach
