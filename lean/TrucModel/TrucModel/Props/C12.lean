import TrucModel.Proofs.BuilderProps
import TrucModel.Props.Examples
/-
  C12 — A variant is its predecessor minus removals plus additions; bad requests fail.
  Stated for the generic builder state machine (the native builder is this one with
  `NativeDatumDetails`; channel L drives both).
-/
namespace Truc

/-- each closed variant is exactly (previous variant − removals) + additions, as a permutation
    (so also as a set and with multiplicities); the returned id is the new variant's index -/
theorem C12_membership (reqs : List Req) (hv : ∀ r ∈ reqs, r.valid) (st : Strategy) (hn : st.isNative = true)
    (hp : (run reqs).hasPendingChanges = true) :
    ∃ defs' l', (run reqs).close st =
        some ({ defs := defs', variants := (run reqs).variants ++ [l'], toAdd := [], toRemove := [] },
              (run reqs).variants.length) ∧
      l'.Perm (removeData (((run reqs).variants.getLast?).getD []) (run reqs).toRemove ++ (run reqs).toAdd) := by
  obtain ⟨defs', l', hc, hok⟩ := (reachable_BInv reqs hv).close_spec hn hp
  exact ⟨defs', l', hc, hok.perm⟩

/-- the same for the generic builder's own strategies, from any state -/
theorem C12_membership_generic (s : BState) (st : Strategy) (hn : st.isNative = false)
    (hp : s.hasPendingChanges = true) :
    ∃ l', s.close st = some ({ defs := s.defs, variants := s.variants ++ [l'], toAdd := [], toRemove := [] },
        s.variants.length) ∧
      l'.Perm (removeData ((s.variants.getLast?).getD []) s.toRemove ++ s.toAdd) := by
  obtain ⟨l', hrun, hfr⟩ := runStrategy_generic hn s.defs ((s.variants.getLast?).getD []) s.toAdd s.toRemove
  refine ⟨l', ?_, hfr.perm⟩
  unfold BState.close
  simp only [hp, Bool.not_true, Bool.false_eq_true, if_false, hrun]

/-- identifiers are never reused: an accepted addition returns the size of the collection, which
    never shrinks, so every later identifier is strictly greater -/
theorem C12_fresh_ids (s : BState) (i : Info) (id : Nat) (h : (s.addDatum i).2 = .ok id) :
    id = s.defs.length ∧ (s.addDatum i).1.defs.length = s.defs.length + 1 := by
  unfold BState.addDatum at h ⊢
  split <;> simp_all

theorem C12_ids_monotone (reqs : List Req) (hv : ∀ r ∈ reqs, r.valid) (r : Req) (hr : r.valid) :
    (run reqs).defs.length ≤ (step (run reqs) r).defs.length := by
  cases r with
  | add i => simp only [step, BState.addDatum]; split <;> simp
  | remove id =>
    simp only [step, BState.removeDatum]
    split <;> (try split) <;> (try split) <;> simp
  | close st =>
    obtain ⟨s', vid, hc, _, _, _, hlen⟩ := (reachable_BInv reqs hv).close hr
    simp only [step, hc, hlen]; exact Nat.le_refl _

/-- names are unique within every variant and within the pending view, in every reachable state -/
theorem C12_unique_names (reqs : List Req) (hv : ∀ r ∈ reqs, r.valid) :
    (∀ v ∈ (run reqs).variants, (v.map (fun d => (info (run reqs).defs d).name)).Nodup) ∧
    ((run reqs).currentData.map (fun d => (info (run reqs).defs d).name)).Nodup :=
  ⟨(reachable_inv2 reqs hv).2.variants, (reachable_inv2 reqs hv).2.current⟩

/-- a rejected request leaves the builder's state unchanged -/
theorem C12_reject_unchanged_add (s : BState) (i : Info) (e : ErrKind) (h : (s.addDatum i).2 = .error e) :
    (s.addDatum i).1 = s := by
  unfold BState.addDatum at h ⊢
  split <;> simp_all

theorem C12_reject_unchanged_remove (s : BState) (id : Nat) (e : ErrKind) (h : (s.removeDatum id).2 = .error e) :
    (s.removeDatum id).1 = s := by
  unfold BState.removeDatum at h ⊢
  split <;> (try split) <;> (try split) <;> simp_all

/-- a duplicate name in the current view is rejected; a fresh one is accepted -/
theorem C12_dup_rejected (s : BState) (i : Info) :
    (s.addDatum i).2 = .error .dupName ↔ (s.currentByName i.name).isSome = true := by
  unfold BState.addDatum
  split <;> simp_all

/-- a removal is accepted exactly when the datum is in the current view: absent, stale, unknown and
    already-removed identifiers are rejected -/
theorem C12_remove_ok_iff (reqs : List Req) (hv : ∀ r ∈ reqs, r.valid) (id : Nat) :
    ((run reqs).removeDatum id).2 = .ok () ↔ id ∈ (run reqs).currentData :=
  removeDatum_ok_iff (reachable_BInv reqs hv) id

/-- finishing with unclosed changes is refused (panic) -/
theorem C12_build_pending (s : BState) : s.build = none ↔ (s.toAdd ≠ [] ∨ s.toRemove ≠ []) := by
  unfold BState.build BState.canBuild
  cases s.toAdd <;> cases s.toRemove <;> simp

/-- closing with no pending change creates no variant and returns the last variant's id -/
theorem C12_noop_close (s : BState) (st : Strategy) (hp : s.hasPendingChanges = false) :
    s.close st = some (s, s.variants.length - 1) := by
  unfold BState.close; simp [hp]

/-- a variant never lists a datum twice and lists only data the builder knows: with `C12_membership`
    (a permutation, hence with multiplicities) this makes "minus removals plus additions" a statement
    about sets of distinct, existing data -/
theorem C12_variant_distinct_known (reqs : List Req) (hv : ∀ r ∈ reqs, r.valid) :
    ∀ v ∈ (run reqs).variants, v.Nodup ∧ ∀ d ∈ v, d < (run reqs).defs.length :=
  fun v hvm => ⟨((reachable_BInv reqs hv).vinv v hvm).nodup, ((reachable_BInv reqs hv).vinv v hvm).inRange⟩

/-- non-vacuity -/
example : (run Ex.h1).hasPendingChanges = false ∧ (run (Ex.h1 ++ [.remove 2])).hasPendingChanges = true ∧
    (match ((run Ex.h1).removeDatum 0).2 with | .error .notInPrev => true | _ => false) = true ∧
    (match ((run Ex.h1).addDatum (Ex.I "e" 1 1)).2 with | .error .dupName => true | _ => false) = true := by
  decide +kernel

end Truc
